CONSTANT KTab <- TraceKTab
CONSTANT DeadlineTestFirst = FALSE
SPECIFICATION TraceSpec
INVARIANT CheckA
INVARIANT CheckAlong
POSTCONDITION AllConsumed
CHECK_DEADLOCK FALSE
