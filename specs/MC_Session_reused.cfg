CONSTANT InPlaceMutation = TRUE
CONSTANT ModelReused = TRUE
CONSTANT MaxLen = 3
SPECIFICATION Spec
INVARIANT TypeOK
INVARIANT ReportIsFunctionOfRequest
CHECK_DEADLOCK FALSE
