------------------------------ MODULE ModelData ------------------------------
(***************************************************************************)
(* C15: every shipped model entry is well-formed and can be costed.        *)
(*                                                                         *)
(* An entry is the plain-YAML content of one instruction form / one        *)
(* load-store table row / one table default, encoded field by field with   *)
(* uniformly typed records (the encoding is syntactic: it says what kind   *)
(* of YAML value was found, it does not judge it):                         *)
(*   kind   "form" | "table" | "isa"                                       *)
(*   mports the port list of the model file (names)                        *)
(*   unit   lattice units per cycle used for c                             *)
(*   pp     [k |-> "absent"|"null"|"list"|"dict"|"other", alts |-> <<alt>>]*)
(*          alt = <<uop>>, uop = [n  |-> length of the YAML list (-1: not a *)
(*          list), ck |-> "num"|"other", c |-> cycles in units (0 if not a  *)
(*          number), frac |-> 1 iff cycles*unit is not an integer,          *)
(*          pk |-> "str"|"list"|"other", ports |-> <<names>>]               *)
(*   tp, lat  [k |-> "absent"|"null"|"num"|"other", neg |-> 0|1]           *)
(*   ops    <<operand class names>>, nk = kind of the name field           *)
(*   isa    "x86" | "aarch64";  regs = <<register class written in each     *)
(*          register operand (x86: name, AArch64: prefix; "" if missing)>>  *)
(* WfClause names the first violated clause of the C15 statement or "ok".  *)
(* Cost(e) is the uniform split of PortModel (the Uniform action of        *)
(* PortSched, i.e. the same definition C01 uses).                          *)
(***************************************************************************)
EXTENDS PortModel

PortNames(e) == ToSet(e.mports)
\* ---------------------------------------------------------------- WellFormed
UopClause(e, u) ==
  IF u.n # 2 THEN "uop-not-a-pair"
  ELSE IF u.ck # "num" THEN "cycles-not-a-number"
  ELSE IF u.c < 0 THEN "cycles-negative"
  ELSE IF u.pk \notin {"str", "list"} THEN "ports-not-a-collection"
  ELSE IF Len(u.ports) = 0 THEN "ports-empty"
  ELSE IF \E k \in DOMAIN u.ports : u.ports[k] \notin PortNames(e) THEN "unknown-port"
  ELSE "ok"
AltClause(e, alt) ==
  LET bad == { x \in DOMAIN alt : UopClause(e, alt[x]) # "ok" } IN
  IF bad = {} THEN "ok" ELSE UopClause(e, alt[MinSet(bad)])
PPClause(e) ==
  IF e.pp.k \in {"absent", "null"} THEN "ok"
  ELSE IF e.pp.k = "other" THEN "port-pressure-not-a-list"
  ELSE IF e.pp.k = "dict" /\ Len(e.pp.alts) = 0 THEN "no-alternative"
  ELSE LET bad == { a \in DOMAIN e.pp.alts : AltClause(e, e.pp.alts[a]) # "ok" } IN
       IF bad = {} THEN "ok" ELSE AltClause(e, e.pp.alts[MinSet(bad)])
NumClause(f, what) ==
  IF f.k \in {"absent", "null"} THEN "ok"
  ELSE IF f.k # "num" THEN what \o "-not-a-number"
  ELSE IF f.neg = 1 THEN what \o "-negative"
  ELSE "ok"
OperandClasses == {"register", "memory", "immediate", "identifier", "condition", "flag", "prfop"}
\* register classes a written register of the ISA can belong to (an entry naming any other class
\* can never be matched by an instruction, so it cannot be costed through the analysis path)
RegClasses(isa) == IF isa = "x86" THEN {"gpr", "mm", "xmm", "ymm", "zmm", "k", "*"}
                   ELSE {"x", "w", "b", "h", "s", "d", "q", "v", "z", "p", "*"}
OpsClause(e) ==
  IF e.nk \notin {"str", "strlist"} THEN "name"
  ELSE IF \E k \in DOMAIN e.ops : e.ops[k] \notin OperandClasses THEN "operand-class"
  ELSE IF e.kind = "form" /\ \E k \in DOMAIN e.regs : e.regs[k] \notin RegClasses(e.isa)
       THEN "unreachable-register-class"
  ELSE "ok"
WfClause(e) ==
  IF e.kind = "table" THEN PPClause(e)
  ELSE IF OpsClause(e) # "ok" THEN OpsClause(e)
  ELSE IF e.kind = "isa" THEN "ok"
  ELSE IF PPClause(e) # "ok" THEN PPClause(e)
  ELSE IF NumClause(e.tp, "throughput") # "ok" THEN NumClause(e.tp, "throughput")
  ELSE NumClause(e.lat, "latency")
WellFormed(e) == WfClause(e) = "ok"

\* ---------------------------------------------------------------- Cost
NPorts(e) == Len(e.mports)
PortIdx(e, nm) == MinSet({ k \in DOMAIN e.mports : e.mports[k] = nm })
AsUops(e, alt) == [ x \in DOMAIN alt |->
                     [c |-> alt[x].c, p |-> [ k \in DOMAIN alt[x].ports |-> PortIdx(e, alt[x].ports[k]) ], m |-> 2] ]
HasCost(e) == e.kind # "isa" /\ e.pp.k \in {"list", "dict"}
\* the lattice chosen for the case expresses every uniform share exactly
CostRepresentable(e) ==
  \A a \in DOMAIN e.pp.alts : \A x \in DOMAIN e.pp.alts[a] :
     e.pp.alts[a][x].frac = 0 /\ Representable(AsUops(e, e.pp.alts[a])[x])
Cost(e, a) == UniformRow(AsUops(e, e.pp.alts[a]), NPorts(e))
\* theorem checked by MC_ModelData on the bounded shape lattice: a well-formed entry has a cost,
\* and that cost is a feasible split (exact) of its micro-ops
CostDefined(e) ==
  HasCost(e) /\ CostRepresentable(e) =>
    \A a \in DOMAIN e.pp.alts :
       Feasible(Cost(e, a), AsUops(e, e.pp.alts[a]), 0, NPorts(e))

\* ---------------------------------------------------------------- Counts (--db-check)
\* es: <<[a |-> number of names of the entry, tp |-> kind, lat |-> kind, pp |-> kind, empty |-> 1 iff
\*       the micro-op list is present but empty]>> for all forms of one file
Lacking(k) == k \in {"absent", "null"}
\* sum of a sequence by halves (a model file has thousands of entries: keep the recursion shallow)
RECURSIVE SumRange(_, _, _)
SumRange(f, lo, hi) == IF lo > hi THEN 0
                       ELSE IF lo = hi THEN f[lo]
                       ELSE LET mid == (lo + hi) \div 2 IN SumRange(f, lo, mid) + SumRange(f, mid + 1, hi)
CountIf(es, P(_)) == SumRange([ i \in DOMAIN es |-> IF P(es[i]) THEN es[i].a ELSE 0 ], 1, Len(es))
CountTotal(es) == SumRange([ i \in DOMAIN es |-> es[i].a ], 1, Len(es))
CountNoTP(es) == CountIf(es, LAMBDA x : Lacking(x.tp))
CountNoLat(es) == CountIf(es, LAMBDA x : Lacking(x.lat))
\* "lacking port pressure": the statement leaves open whether an empty list counts
CountNoPP(es) == { CountIf(es, LAMBDA x : Lacking(x.pp)),
                   CountIf(es, LAMBDA x : Lacking(x.pp) \/ x.empty = 1) }
=============================================================================
