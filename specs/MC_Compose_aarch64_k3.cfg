CONSTANT ISA = "aarch64"
CONSTANT MAXK = 3
CONSTANT DEVS = {}
CONSTANT MODELSET = {2, 3, 7, 12, 18, 20, 27, 32}
SPECIFICATION Spec
INVARIANT TypeOK
INVARIANT Inert
INVARIANT TablesUnchanged
INVARIANT UnknownIsZero
INVARIANT UnknownIffNeither
INVARIANT ComposedDominates
CONSTRAINT Emit
CONSTRAINT EmitHeader
CHECK_DEADLOCK FALSE
