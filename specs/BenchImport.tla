----------------------------- MODULE BenchImport -----------------------------
(***************************************************************************)
(* Property C20: importing ibench / asmbench output.                       *)
(*                                                                         *)
(* Measurements and emitted values are integers in MICRO-cycles (TLC has   *)
(* no reals; benchmark tools print at most 6 decimals).                    *)
(*                                                                         *)
(* Statement: throughput "snapped to the reciprocal 1/n (n = 1..10) within *)
(* 5% of the measurement", latency "to the nearest integer within 5%",     *)
(* "measurements outside these tolerances are recorded as missing rather   *)
(* than invented".  "Within 5%" can be read relative to the target value   *)
(* (reading A: 0.95/n <= m <= 1.05/n) or relative to the measurement       *)
(* (reading B: 0.95 m <= 1/n <= 1.05 m); the two differ only in a sliver   *)
(* next to the window edges.  The specification allows every outcome that  *)
(* some reading gives, and both outcomes exactly on an edge (there the     *)
(* implementation's floating-point comparison may go either way).          *)
(* Outcome encoding: 0 = recorded as missing, n >= 1 = snapped to 1/n      *)
(* (throughput) resp. to the integer n (latency; the integer 0 is encoded  *)
(* as ZeroLT).                                                             *)
(***************************************************************************)
EXTENDS Naturals, Integers, Sequences, FiniteSets, TLC, Json, CSV, IOUtils

U == 1000000                       \* one cycle
Abs(x) == IF x < 0 THEN 0 - x ELSE x
MinOf(S) == CHOOSE x \in S : \A y \in S : x <= y

\* ------------------------------------------------------------------ throughput
NRange == 1..10
TPMax == 2 * U                     \* above this no window can contain m (keeps products in 32 bit)
TPInA(m, n) == 950000 <= m * n /\ m * n <= 1050000                     \* 0.95/n <= m <= 1.05/n
TPInB(m, n) == 19 * (m * n) <= 20 * U /\ 20 * U <= 21 * (m * n)        \* 0.95 m <= 1/n <= 1.05 m
TPEdge(m, n) == m * n \in {950000, 1050000} \/ 19 * (m * n) = 20 * U \/ 21 * (m * n) = 20 * U
TPSetA(m) == IF m > TPMax \/ m <= 0 THEN {} ELSE { n \in NRange : TPInA(m, n) }
TPSetB(m) == IF m > TPMax \/ m <= 0 THEN {} ELSE { n \in NRange : TPInB(m, n) }
TPEdges(m) == IF m > TPMax \/ m <= 0 THEN {} ELSE { n \in NRange : TPEdge(m, n) }
First(S) == IF S = {} THEN 0 ELSE MinOf(S)          \* "the first n", 0 = missing
\* what the implementation is expected to compute (Level B, reading A)
SnapTP(m) == First(TPSetA(m))
\* every outcome the statement allows (Level A)
AllowedTP(m) == {First(TPSetA(m)), First(TPSetB(m))} \cup TPEdges(m) \cup (IF TPEdges(m) # {} THEN {0} ELSE {})

\* an emitted throughput value v (micro-cycles, -1 = missing/null) realises outcome n:
\* 1/n may be rounded to 5 decimals (10 micro-cycles)
TPRealises(v, n) == IF n = 0 THEN v = -1 ELSE v >= 0 /\ Abs(v * n - U) <= 10 * n
TPOk(v, m) == \E n \in AllowedTP(m) : TPRealises(v, n)

\* ------------------------------------------------------------------ latency
LTMax == 1000 * U
ZeroLT == 100000                   \* outcome code of "snapped to the integer 0" (0 itself means missing)
Floor(m) == m \div U
Dist(m, r) == Abs(m - r * U)
Nearest(m) == LET f == Floor(m) IN
              IF Dist(m, f) < Dist(m, f + 1) THEN {f} ELSE IF Dist(m, f) > Dist(m, f + 1) THEN {f + 1} ELSE {f, f + 1}
LTInA(m, r) == 20 * Dist(m, r) <= r * U             \* |m - r| <= 0.05 r
LTInB(m, r) == 20 * Dist(m, r) <= m                 \* |m - r| <= 0.05 m
\* exactly on a window edge (either outcome is admitted there) - but a measurement that IS the integer lies on no edge
LTEdge(m, r) == Dist(m, r) > 0 /\ (20 * Dist(m, r) = r * U \/ 20 * Dist(m, r) = m)
Code(r) == IF r = 0 THEN ZeroLT ELSE r
SnapLT(m) == IF m < 0 \/ m > LTMax THEN 0
             ELSE LET r == MinOf(Nearest(m)) IN IF LTInA(m, r) THEN Code(r) ELSE 0
AllowedLT(m) ==
  IF m < 0 \/ m > LTMax THEN {0}
  ELSE UNION { {IF LTInA(m, r) THEN Code(r) ELSE 0, IF LTInB(m, r) THEN Code(r) ELSE 0}
               \cup (IF LTEdge(m, r) THEN {Code(r), 0} ELSE {}) : r \in Nearest(m) }
LTRealises(v, c) == IF c = 0 THEN v = -1 ELSE IF c = ZeroLT THEN v = 0 ELSE v = c * U
LTOk(v, m) == \E c \in AllowedLT(m) : LTRealises(v, c)

\* ------------------------------------------------------------------ operand codes (README "Benchmark import")
\* a written operand code:  [c: "r"|"x"|"y"|"z"|"i"|"w"|"b"|"h"|"s"|"d"|"q"|"v"|"m", sh: "" | lane letter (v only),
\*                           fb, fo, fi, fs, fr, fp: BOOLEAN (m only: base, offset, index, scaled, pre-, post-indexed)]
OpCode(c, sh, fb, fo, fi, fs, fr, fp) ==
  [c |-> c, sh |-> sh, fb |-> fb, fo |-> fo, fi |-> fi, fs |-> fs, fr |-> fr, fp |-> fp]
Simple(c) == OpCode(c, "", FALSE, FALSE, FALSE, FALSE, FALSE, FALSE)
\* decoded operand as it must appear in the emitted model, projected:
\*   [k:"reg", name, prefix, shape] | [k:"imm", imd] | [k:"mem", base, offset, index: BOOLEAN (present), scaled, pre, post]
Decode(isa, o) ==
  IF o.c = "i" THEN [k |-> "imm", imd |-> "int"]
  ELSE IF o.c = "m" THEN [k |-> "mem", base |-> o.fb, offset |-> o.fo, index |-> o.fi, scaled |-> o.fs,
                          pre |-> (isa = "aarch64" /\ o.fr), post |-> (isa = "aarch64" /\ o.fp)]
  ELSE IF isa = "x86" THEN [k |-> "reg", name |-> (IF o.c = "r" THEN "gpr" ELSE o.c \o "mm"), prefix |-> "", shape |-> ""]
  ELSE IF o.c = "v" THEN [k |-> "reg", name |-> "", prefix |-> "v", shape |-> (IF o.sh = "" THEN "d" ELSE o.sh)]
  ELSE [k |-> "reg", name |-> "", prefix |-> o.c, shape |-> ""]
DecodeAll(isa, ops) == [ i \in 1..Len(ops) |-> Decode(isa, ops[i]) ]

ValidCode(isa, o) ==
  IF isa = "x86" THEN /\ o.c \in {"r", "x", "y", "z", "i", "m"} /\ o.sh = "" /\ ~o.fr /\ ~o.fp
                      /\ (o.c # "m" => ~o.fb /\ ~o.fo /\ ~o.fi /\ ~o.fs) /\ (o.fs => o.fi)
  ELSE /\ o.c \in {"w", "x", "b", "h", "s", "d", "q", "v", "i", "m"}
       /\ (o.sh # "" => o.c = "v" /\ o.sh \in {"b", "h", "s", "d"})
       /\ (o.c # "m" => ~o.fb /\ ~o.fo /\ ~o.fi /\ ~o.fs /\ ~o.fr /\ ~o.fp) /\ (o.fs => o.fi) /\ ~(o.fr /\ o.fp)

\* ------------------------------------------------------------------ what a file must produce
\* A benchmark file is a sequence of entries
\*   ibench:   [t: "tp" | "lt", form, m]                       one line each
\*   asmbench: [t: "block", form, lt, tp] | [t: "bad", form, why] four-line block / malformed block
\* form = [id (unique name of the form in the file), mnem, ops]
IsBad(e) == e.t = "bad"
FirstBad(file) == IF \E i \in 1..Len(file) : IsBad(file[i]) THEN MinOf({ i \in 1..Len(file) : IsBad(file[i]) }) ELSE Len(file) + 1
\* entries that are imported: everything before the first malformed block
Live(file) == SubSeq(file, 1, FirstBad(file) - 1)
FormIds(es) == { es[i].form.id : i \in 1..Len(es) }
TPs(es, id) == { es[i].m : i \in { j \in 1..Len(es) : es[j].t = "tp" /\ es[j].form.id = id } }
               \cup { es[i].tp : i \in { j \in 1..Len(es) : es[j].t = "block" /\ es[j].form.id = id } }
LTs(es, id) == { es[i].m : i \in { j \in 1..Len(es) : es[j].t = "lt" /\ es[j].form.id = id } }
               \cup { es[i].lt : i \in { j \in 1..Len(es) : es[j].t = "block" /\ es[j].form.id = id } }
\* emitted values allowed for a form: from (one of) its measurement(s); missing if there is none
TPValueOk(es, id, v) == IF TPs(es, id) = {} THEN v = -1 ELSE \E m \in TPs(es, id) : TPOk(v, m)
LTValueOk(es, id, v) == IF LTs(es, id) = {} THEN v = -1 ELSE \E m \in LTs(es, id) : LTOk(v, m)

=============================================================================
