CONSTANT NProcs = 1
CONSTANT NContents = 2
CONSTANT AtomicWrite = TRUE
CONSTANT TolerantRead = TRUE
CONSTANT ReadOnce = TRUE
CONSTANT RtServes = TRUE
CONSTANT Sequential = TRUE
CONSTANT EditWhileBusy = FALSE
CONSTANT MaxStarts = 3
CONSTANT MaxEdits = 1
CONSTANT MaxEnvs = 1
CONSTANT AllowLegacy = FALSE
CONSTANT CrashAnywhere = TRUE
CONSTANT SameProcReload = TRUE
SPECIFICATION Spec
VIEW View
INVARIANT TypeOK
INVARIANT RunNeverFails
INVARIANT ResultIsContent
CHECK_DEADLOCK FALSE
