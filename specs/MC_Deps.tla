------------------------------ MODULE MC_Deps ------------------------------
(* Level B for C03: the forward scan with kill of KernelDG.find_depending / create_DG as a
   state machine, run on every kernel up to MaxN instructions over an abstract instruction
   alphabet (ops with per-operand roles, hidden flag operands, a zero idiom, a form that
   follows the default destination rule, a write-back load).  In the terminal state the
   scanned edges must equal the declarative read-after-write relation of Deps.tla.
   Terminal states are emitted (R2) so the same kernels are replayed on the real code.  *)
EXTENDS DepsAlphabet, Json, CSV, IOUtils

CONSTANTS MaxN         \* longest kernel

VARIABLES ops,     \* the kernel under analysis (chosen in Init, then fixed)
          i,       \* producer whose results are being followed
          dsts,    \* destination locations of producer i not yet followed: <<loc, kind>>
          cur,     \* <<loc, kind>> being followed, or <<>>
          j,       \* scan position
          edges    \* set of <<producer, consumer, kind>>, kind in {"res", "wb"}
vars == <<ops, i, dsts, cur, j, edges>>

K == KernelOf(ops)
DstsOf(p) == { <<l, "res">> : l \in WrRes(K, p) } \cup { <<l, "wb">> : l \in WrWB(K, p) }

Init == /\ ops \in UNION { [1..m -> Alphabet] : m \in 1..MaxN }
        /\ i = 0 /\ dsts = {} /\ cur = <<>> /\ j = 0 /\ edges = {}

NextProducer == /\ cur = <<>> /\ dsts = {} /\ i < Len(ops)
                /\ i' = i + 1 /\ dsts' = DstsOf(i + 1)
                /\ UNCHANGED <<ops, cur, j, edges>>
PickDst == /\ cur = <<>> /\ dsts # {}
           /\ \E d \in dsts : cur' = d /\ dsts' = dsts \ {d}
           /\ j' = i + 1
           /\ UNCHANGED <<ops, i, edges>>
\* visit instruction j: a read is recorded BEFORE the kill test, so a read-modify-write
\* consumer gets the edge and then ends the scan
ScanStep == /\ cur # <<>> /\ j <= Len(ops)
            /\ edges' = IF cur[1] \in Rd(K, j) THEN edges \cup {<<i, j, cur[2]>>} ELSE edges
            /\ IF cur[1] \in Wr(K, j) THEN cur' = <<>> /\ j' = j ELSE cur' = cur /\ j' = j + 1
            /\ UNCHANGED <<ops, i, dsts>>
EndOfKernel == /\ cur # <<>> /\ j > Len(ops)
               /\ cur' = <<>> /\ UNCHANGED <<ops, i, dsts, j, edges>>
Next == NextProducer \/ PickDst \/ ScanStep \/ EndOfKernel
Spec == Init /\ [][Next]_vars

Done == i = Len(ops) /\ dsts = {} /\ cur = <<>>

\* ---- Level B => Level A
EdgesAreRAW == Done => { <<e[1], e[2]>> : e \in edges } = MustEdges(K)
KindsAgree  == Done => \A p \in MustEdges(K) :
                         /\ (<<p[1], p[2], "res">> \in edges <=> ViaRes(K, p[1], p[2]))
                         /\ (<<p[1], p[2], "wb">> \in edges <=> ViaWB(K, p[1], p[2]))
Forward     == \A e \in edges : e[1] < e[2]
\* soundness at every step, not only at the end
NeverSpurious == \A e \in edges : <<e[1], e[2]>> \in MustEdges(K)
NoFlagEdgesUnlessAsked ==
  (~FlagDeps) => \A e \in edges : \E l \in Wr(K, e[1]) : l # Flag /\ l \in Rd(K, e[2])

\* ---- R2: emit every analysed kernel once (terminal state)
Emit == Done => IF Len(ops) <= 2
                THEN CSVWrite("%1$s", <<ToJson([ops |-> ops, k |-> K])>>, IOEnv.OUTFILE)
                ELSE CSVWrite("%1$s", <<ToJson([ops |-> ops])>>, IOEnv.OUTFILE)
=============================================================================
