CONSTANT KMax = 160
CONSTANT NWMax = 72
SPECIFICATION Spec
INVARIANT Covers
INVARIANT Balanced
INVARIANT Contiguous
INVARIANT NoneBeyondK
CHECK_DEADLOCK FALSE
