CONSTANT ISA = "aarch64"
CONSTANT MODE = "table"
CONSTANT MAXLEN = 1
SPECIFICATION Spec
INVARIANT TypeOK
INVARIANT FoundIffSomeMatch
INVARIANT FirstMatchWins
INVARIANT NeverWrongKind
INVARIANT ResultAllowed
CONSTRAINT Emit
CONSTRAINT EmitHeader
CHECK_DEADLOCK FALSE
