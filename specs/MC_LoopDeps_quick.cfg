CONSTANTS
  MaxN = 2
  Locs = {"a", "b"}
  FlagDeps = TRUE
  OpsUsed = {"opa","opb","opc","opd","ope","opf","opg","oph","opj","wbl","nop"}
SPECIFICATION Spec
INVARIANT ReportedAreExactlyTheCycles
INVARIANT EachOnce
INVARIANT SoundAtEveryStep
INVARIANT TwoEnumerationsAgree
INVARIANT DoubledGraphPeriodic
INVARIANT MaxIsSummary
INVARIANT RotationInvariant
CHECK_DEADLOCK FALSE
