--------------------------- MODULE Trace_LCDSearch ---------------------------
(* Batch validation of recorded executions of KernelDG.check_for_loopcarried_dep (virtual
   processes replaying TLC behaviours, and real multi-process runs) against LCDSearchSM.

   One JSON case per execution:
     id, n, nw, to                  kernel length, cpu_count(), timeout # -1
     kind = "src": src, lat         abstract kernel (rendered by the harness); TLC computes the paths,
                                    cycles and latencies itself (LCDSearch!Build)
     kind = "cyc": cyc, np          per root: opaque cycle ids / number of paths, projected from an
                                    untimed reference execution of the same kernel
     kind = "edges": E, X           no untimed reference exists (exponentially many paths): edges of one
                                    iteration and wrap-around edges [from, to, latency]; every reported
                                    LCD must be a cycle through exactly one wrap-around edge
     events                         start | append w root n | exit w | check expired alive | sleep |
                                    kill ws | join | copy batches ordered | return result timed_out
     obs                            result, seq (sequential search, optional), timed_out, killed, orphans, dups,
                                    order (the LCD dictionary lists its entries in the order of the sequential search)

   Two verdicts per case:
     "A:<clause>"  an OBSERVABLE contradicts C16/C19 (decided from obs and the kernel table only)
     "X:<clause>"  an observable contradicts the specification, but not C16/C19 (the sequential search
                   itself differs from the cycles TLC computes: property C05); recorded, not a verdict here
     "B:<clause>"  the event log is not a behaviour of the state machine (conformance divergence:
                   the code no longer follows the modelled algorithm; not a violation by itself)
   The log is stepped with the actions of LCDSearchSM themselves; the deadline (Tick) is not
   observed directly and is inserted when a check event reports the loop test as failed.        *)
EXTENDS LCDSearchSM, Json, IOUtils

\* the cases are parsed once and kept in a TLC register (a plain definition is re-evaluated, i.e. the
\* file re-parsed, at several use sites per case: quadratic)
ASSUME TLCSet(1, ndJsonDeserialize(IOEnv.CASES))
Cases == TLCGet(1)
VARIABLES tid, ei
tvars == <<par, wst, wpos, shared, cpc, expired, timedOut, copied, result, joined, tid, ei>>

ToSet(s) == { s[i] : i \in DOMAIN s }
IsSrc(c) == c.kind = "src"
IsEdges(c) == c.kind = "edges"
AbsKernel(c) == [n |-> c.n, src |-> [i \in 1..c.n |-> ToSet(c.src[i])], lat |-> c.lat]
Entry(c) == IF IsSrc(c) THEN Build(AbsKernel(c))
            ELSE IF IsEdges(c) THEN [n |-> c.n, cyc |-> [r \in 1..c.n |-> {}], np |-> [r \in 1..c.n |-> 0 - 1]]
            ELSE [n |-> c.n, cyc |-> [r \in 1..c.n |-> ToSet(c.cyc[r])], np |-> [r \in 1..c.n |-> c.np[r]]]
TraceKTab(i) == Entry(Cases[i])
ParOf(i) == [kid |-> i, n |-> Cases[i].n, nw |-> Cases[i].nw, to |-> Cases[i].to]
NP == KTab(par.kid).np

\* observed LCD list -> set comparable with the table (records [key, lat] / opaque ids)
Rec(c, x) == IF IsSrc(c) THEN [key |-> x.key, lat |-> x.lat] ELSE x
ObsSet(c, l) == { Rec(c, l[i]) : i \in DOMAIN l }

\* kind "edges": x.key = sorted member lines; consecutive members are linked inside one iteration,
\* the last one reaches the first one of the next iteration; x.elat are the edge latencies
TripleSet(l) == { <<l[i][1], l[i][2], l[i][3]>> : i \in DOMAIN l }
GenuineCycle(E, X, x) ==
  LET m == Len(x.key) IN
  /\ m >= 1 /\ Len(x.elat) = m
  /\ \A i \in 1..(m - 1) : x.key[i] < x.key[i + 1] /\ <<x.key[i], x.key[i + 1], x.elat[i]>> \in E
  /\ <<x.key[m], x.key[1], x.elat[m]>> \in X
  /\ x.lat = LET S[i \in 0..m] == IF i = 0 THEN 0 ELSE S[i - 1] + x.elat[i] IN S[m]

\* ---------------------------------------------------------------- Level A (observables only)
FailingA(c) ==
  LET full == FullResult(Entry(c))
      res  == ObsSet(c, c.obs.result)
      cut  == c.obs.killed # << >>
      \* "the same set as the single-process search": the observed sequential result where there is one
      ref  == IF "seq" \in DOMAIN c.obs THEN ObsSet(c, c.obs.seq) ELSE full
      \* the time limit had passed when workers were killed: seen in the code's own clock reads, or measured
      \* by the harness between the first Process.start() and the first kill
      sawDeadline == \/ \E i \in DOMAIN c.events : c.events[i].e = "check" /\ c.events[i].expired
                     \/ ("deadlinePassed" \in DOMAIN c.obs /\ c.obs.deadlinePassed)
  IN
  (IF ~IsEdges(c) /\ ~(res \subseteq ref) THEN {"A:reported-lcd-not-in-untimed-result"} ELSE {})
  \cup (IF IsEdges(c) /\ LET E == TripleSet(c.E)  X == TripleSet(c.X) IN
                          \E i \in DOMAIN c.obs.result : ~GenuineCycle(E, X, c.obs.result[i])
        THEN {"A:reported-lcd-not-a-cycle"} ELSE {})
  \cup (IF Len(c.obs.result) # Cardinality(res) THEN {"A:duplicate-lcd"} ELSE {})
  \cup (IF c.obs.dups # 0 THEN {"A:malformed-lcd-entry"} ELSE {})
  \cup (IF IsSrc(c) /\ \E i \in DOMAIN c.obs.result :
              LET x == c.obs.result[i] IN x.elat # [j \in 1..Len(x.key) |-> c.lat[x.key[j]]]
        THEN {"A:edge-latencies"} ELSE {})
  \cup (IF "seq" \in DOMAIN c.obs /\ ObsSet(c, c.obs.seq) # full THEN {"X:sequential-result-differs-from-spec"} ELSE {})
  \cup (IF ~IsEdges(c) /\ ~cut /\ ~c.obs.timed_out /\ res # ref THEN {"A:complete-run-differs-from-sequential"} ELSE {})
  \cup (IF ~IsEdges(c) /\ ~cut /\ c.obs.timed_out /\ res # ref THEN {"A:uncut-run-differs-from-sequential"} ELSE {})
  \cup (IF ~IsEdges(c) /\ res = ref /\ ~c.obs.order THEN {"A:lcd-order-differs-from-sequential"} ELSE {})
  \cup (IF cut /\ c.to /\ ~sawDeadline THEN {"A:cut-before-deadline"} ELSE {})
  \cup (IF cut /\ ~c.obs.timed_out THEN {"A:cut-without-warning"} ELSE {})
  \cup (IF ~cut /\ c.obs.timed_out /\ c.to THEN {"A:warning-without-cut"} ELSE {})
  \cup (IF ~c.to /\ c.obs.timed_out THEN {"A:warning-without-timeout"} ELSE {})
  \cup (IF ~c.to /\ cut THEN {"A:killed-without-timeout"} ELSE {})
  \cup (IF c.obs.orphans # 0 THEN {"A:worker-left-behind"} ELSE {})

CheckA == (tid <= Len(Cases) /\ ei = 0 /\ cpc = "start") =>
             \A cl \in FailingA(Cases[tid]) : PrintT(<<"REJECT", Cases[tid].id, cl>>)

\* ---------------------------------------------------------------- Level B (the log is a behaviour)
NonEmpty(rs) == { <<r, NP[r]>> : r \in { x \in rs : NP[x] > 0 } }
Guard(c, e) ==
  CASE e.e = "start"  -> cpc = "start"
    [] e.e = "append" -> /\ e.w \in W /\ wst[e.w] = "run" /\ wpos[e.w] < Len(Sl(e.w))
                         /\ Sl(e.w)[wpos[e.w] + 1] = e.root          \* its next root, nobody else's
                         /\ (e.n = NP[e.root] \/ NP[e.root] < 0)     \* the whole root, in one request
    [] e.e = "exit"   -> e.w \in W /\ wst[e.w] = "run" /\ wpos[e.w] = Len(Sl(e.w))
    [] e.e = "check"  -> cpc = "poll" /\ expired = e.expired /\ (~expired => ((Alive # {}) = e.alive))
    [] e.e = "sleep"  -> cpc = "sleep"
    [] e.e = "kill"   -> cpc = "kill" /\ ToSet(e.ws) = Alive
    [] e.e = "join"   -> cpc = "join" /\ \A w \in W : wst[w] = "done"
    [] e.e = "copy"   -> IF IsEdges(c) THEN cpc = "copy" ELSE
                         /\ cpc = "copy"
                         /\ { <<e.batches[i][1], e.batches[i][2]>> : i \in DOMAIN e.batches } = NonEmpty(Range(shared))
                         /\ Len(e.batches) = Cardinality(NonEmpty(Range(shared)))
                         /\ e.ordered => [i \in DOMAIN e.batches |-> e.batches[i][1]]
                                           = SelectSeq(shared, LAMBDA r : NP[r] > 0)
    [] e.e = "return" -> /\ cpc = "post"
                         /\ (IsEdges(c) \/ ResultOf(Cyc, copied) = ObsSet(c, e.result))
                         /\ timedOut = e.timed_out
    [] OTHER -> FALSE
Act(e) ==
  CASE e.e = "start"  -> StartAll
    [] e.e = "append" -> WStep(e.w)
    [] e.e = "exit"   -> WStep(e.w)
    [] e.e = "check"  -> Check
    [] e.e = "sleep"  -> Sleep
    [] e.e = "kill"   -> Kill
    [] e.e = "join"   -> JoinAll
    [] e.e = "copy"   -> Copy
    [] e.e = "return" -> PostProcess
NeedTick(e) == e.e = "check" /\ e.expired /\ ~expired /\ cpc = "poll" /\ par.to

Reset(p) ==
  /\ par' = p
  /\ wst' = [w \in 0..(p.nw - 1) |-> "idle"]
  /\ wpos' = [w \in 0..(p.nw - 1) |-> 0]
  /\ shared' = << >> /\ cpc' = "start" /\ expired' = FALSE /\ timedOut' = FALSE
  /\ copied' = << >> /\ result' = {} /\ joined' = {}
NextCase ==
  /\ tid' = tid + 1
  /\ ei' = 0
  /\ IF tid < Len(Cases) THEN Reset(ParOf(tid + 1))
     ELSE PrintT(<<"CONSUMED", tid>>) /\ TLCSet(7, tid) /\ UNCHANGED vars

TraceInit == tid = 1 /\ ei = 0 /\ InitWith(ParOf(1))
TraceNext ==
  /\ tid <= Len(Cases)
  /\ LET c == Cases[tid] IN
     IF ei < Len(c.events)
     THEN LET e == c.events[ei + 1] IN
          IF NeedTick(e) THEN Tick /\ UNCHANGED <<tid, ei>>
          ELSE IF Guard(c, e) THEN Act(e) /\ ei' = ei + 1 /\ UNCHANGED tid
          ELSE PrintT(<<"REJECT", c.id, "B:not-a-behaviour", ei + 1, e.e, cpc>>) /\ NextCase
     ELSE IF cpc # "done" THEN PrintT(<<"REJECT", c.id, "B:log-ends-early", ei, cpc, cpc>>) /\ NextCase
     ELSE NextCase
TraceSpec == TraceInit /\ [][TraceNext]_tvars

\* the properties of the state machine are evaluated along the recorded behaviour as well
AlongTheTrace ==
  /\ TypeOK /\ WholeRootPrefixes /\ NoOrphans /\ NoLateWrites /\ NoWarningWithoutTimeout
  /\ (Done /\ ~Cut => result = Full)
  /\ (Done => result \subseteq Full)
CheckAlong == tid <= Len(Cases) => (AlongTheTrace \/ PrintT(<<"REJECT", Cases[tid].id, "B:property-broken-along-trace", ei, cpc, cpc>>))

\* register 7 counts the consumed cases (single worker)
AllConsumed == TLCGet(7) = Len(Cases)
=============================================================================
