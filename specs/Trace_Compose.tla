---------------------------- MODULE Trace_Compose ----------------------------
(* Batch validation of kernels recorded from ArchSemantics.add_semantics (C08, R2 + R3).
   One case = one kernel on one model:
     model   the record described in Compose.tla (abstract entries, load/store tables, types)
     kernel  sequence of instructions [n, ops, roles]
     obs     sequence of observed results [unk, tp, lat, lw, pr, uo] (units of 1/12000 cycle)
   The kernel is followed through StepSet with the model tables as state.  A kernel that is
   not accepted by the specification but is accepted with named deviations switched on is
   reported as "dev" with the smallest such set; otherwise the clause names the first field
   of the first rejected instruction that no allowed result agrees with. *)
EXTENDS Compose
Cases == ndJsonDeserialize(IOEnv.CASES)
VARIABLE tid

Devs(isa) == IF isa = "x86" THEN {"InPlaceRowExtension"} ELSE AllDevs
Verdict(c) ==
  LET m == c.model
      k0 == Follow(m, c.kernel, c.obs, {})
      Good(n) == {D \in SUBSET Devs(m.isa) : Cardinality(D) = n /\ Follow(m, c.kernel, c.obs, D) = 0}
      Pick1(S) == CHOOSE X \in S : TRUE
  IN IF Len(c.obs) # Len(c.kernel) THEN <<"length-mismatch", {}, 0>>
     ELSE IF k0 = 0 THEN <<"ok", {}, 0>>
     ELSE IF Good(1) # {} THEN <<"dev", Pick1(Good(1)), k0>>
     ELSE IF Good(2) # {} THEN <<"dev", Pick1(Good(2)), k0>>
     ELSE IF Good(3) # {} THEN <<"dev", Pick1(Good(3)), k0>>
     ELSE IF Good(4) # {} THEN <<"dev", Pick1(Good(4)), k0>>
     ELSE <<FieldClause(m, c.kernel, c.obs, k0), {}, k0>>
Check == LET c == Cases[tid] v == Verdict(c) IN
         IF v[1] = "ok" THEN TRUE ELSE PrintT(<<"REJECT", c.id, v[1], v[2], v[3]>>)
TraceInit == tid = 1
TraceNext == tid < Len(Cases) /\ tid' = tid + 1
TraceSpec == TraceInit /\ [][TraceNext]_tid
AllConsumed == TLCGet("stats").diameter = Len(Cases)
=============================================================================
