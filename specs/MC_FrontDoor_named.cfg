SPECIFICATION Spec
CONSTANT Given = "zen1"
INVARIANT ChosenRight
INVARIANT AtMostOneRetry
CHECK_DEADLOCK FALSE
