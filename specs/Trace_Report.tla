---------------------------- MODULE Trace_Report ----------------------------
(* Batch validation of recorded (text report, machine-readable output) pairs against
   Report.tla (C13).  One case per report:
     fl      [arch, big, ign, to]  flags of the run (to = the LCD search timed out)
     given / hdr / isa   --arch argument ("" if none), architecture in the header, ISA of the file
     blocks  block names found in the text, in order;  warnings: Warnings of the dict
     missing number stated by the missing-data warning (-1 if absent)
     rows    text table rows  [ln, pp: <<port index, d, n>>.., cp: <<d, n>>, lcd: <<d, n>>, x]
     dk      dict Kernel entries [ln, pp: <<port index, units>>.. (non-zero only), cp, lcd, unk]
     madeup  line numbers whose mnemonic is one no instruction set has (unknown by construction)
     tot     text totals row [pp, cp, lcd] (if block Totals);  sum: dict Summary [pp, cp, lcd]
     lcdlist text LCD list [root, lat: <<d, n>>, mem];  lcds: recorded LCDs [lat, mem, lats]
   The set of failing clauses is printed; names starting with "B:" are Level-B (shape of the
   code) observations and never verdicts. *)
EXTENDS Report
Cases == ndJsonDeserialize(IOEnv.CASES)
VARIABLE tid

Cell(t) == [d |-> t[1], n |-> t[2]]
\* sparse per-port lists: <<port, ...>> tuples
At(list, p)  == { e \in ToSet(list) : e[1] = p }
ValAt(list, p) == IF At(list, p) = {} THEN 0 ELSE (CHOOSE e \in At(list, p) : TRUE)[2]
ShownPorts(list) == { e[1] : e \in ToSet(list) }

\* text cells of one row/ports list against the values: every shown cell is the rounded value,
\* every non-zero value is shown
PPShownOK(cells, vals) == \A e \in ToSet(cells) : RoundOK([d |-> e[2], n |-> e[3]], ValAt(vals, e[1]))
PPBlankOK(cells, vals) == \A e \in ToSet(vals) : e[2] = 0 \/ e[1] \in ShownPorts(cells)

Fails(c) ==
  LET unk == Cardinality({ i \in DOMAIN c.dk : c.dk[i].unk })
      fl  == [arch |-> c.fl.arch, big |-> c.fl.big, ign |-> c.fl.ign, to |-> c.fl.to, unk |-> unk]
      bs  == ToSet(c.blocks)
      W   == ToSet(c.warnings)
      N   == DOMAIN c.rows
      rowsMatch == Len(c.rows) = Len(c.dk) /\ \A i \in N : c.rows[i].ln = c.dk[i].ln
      maxlat == Max({0} \cup { c.lcds[k].lat : k \in DOMAIN c.lcds })
      col == { <<c.rows[i].ln, c.rows[i].lcd[2]>> : i \in { j \in N : c.rows[j].lcd[1] # -1 } }
      ColIs(l) == /\ \A j \in DOMAIN l.mem : \E x \in col : x[1] = l.mem[j]
                  /\ \A x \in col : \E j \in DOMAIN l.mem : l.mem[j] = x[1] /\ l.lats[j] = x[2]
      hasTot == "Totals" \in bs
  IN
     BlockViolations(fl, bs)
  \cup (IF c.fl.arch THEN (IF c.hdr = c.given THEN {} ELSE {"arch-header:given"})
        ELSE (IF ArchISA(c.hdr) = c.isa THEN {} ELSE {"arch-header:default"}))
  \cup (IF (("ArchWarning" \in W) <=> ("ArchWarn" \in bs)) /\ (("LengthWarning" \in W) <=> ("LenWarn" \in bs))
           /\ (("LCDWarning" \in W) <=> ("LcdWarn" \in bs)) /\ (("UnknownInstrWarning" \in W) <=> (unk > 0))
        THEN {} ELSE {"warnings-agree"})
  \cup (IF ("MissingWarn" \in bs) => c.missing = unk THEN {} ELSE {"missing-count"})
  \* a line whose mnemonic no instruction set has lacks performance data by construction
  \cup (IF \A i \in DOMAIN c.dk : (c.dk[i].ln \in ToSet(c.madeup)) => c.dk[i].unk THEN {} ELSE {"made-up-mnemonic-not-unknown"})
  \cup (IF ~rowsMatch THEN {"rows"} ELSE
          (IF \A i \in N : PPShownOK(c.rows[i].pp, c.dk[i].pp) THEN {} ELSE {"cell:pp"})
     \cup (IF \A i \in N : PPBlankOK(c.rows[i].pp, c.dk[i].pp) THEN {} ELSE {"cell:pp-blank"})
     \cup (IF \A i \in N : c.rows[i].cp[1] = -1 \/ RoundOK(Cell(c.rows[i].cp), c.dk[i].cp) THEN {} ELSE {"cell:cp"})
     \cup (IF \A i \in N : c.rows[i].cp[1] # -1 \/ c.dk[i].cp = 0 THEN {} ELSE {"cell:cp-blank"})
     \cup (IF \A i \in N : c.rows[i].lcd[1] = -1 \/ RoundOK(Cell(c.rows[i].lcd), c.dk[i].lcd) THEN {} ELSE {"cell:lcd"})
     \cup (IF \A i \in N : c.rows[i].lcd[1] # -1 \/ c.dk[i].lcd = 0 THEN {} ELSE {"cell:lcd-blank"})
     \cup (IF \A i \in N : c.rows[i].x = c.dk[i].unk THEN {} ELSE {"x-marks"})
     \cup (IF \A p \in 1..c.nports :
               Abs(ValAt(c.sum.pp, p) - SumTo([i \in N |-> ValAt(c.dk[i].pp, p)], Len(c.dk))) <= 60
           THEN {} ELSE {"B:total-vs-columns"}))
  \cup (IF ~hasTot THEN {} ELSE
          (IF PPShownOK(c.tot.pp, c.sum.pp) THEN {} ELSE {"total:pp"})
     \cup (IF PPBlankOK(c.tot.pp, c.sum.pp) THEN {} ELSE {"total:pp-blank"})
     \cup (IF RoundOK(Cell(c.tot.cp), c.sum.cp) THEN {} ELSE {"total:cp"})
     \cup (IF RoundOK(Cell(c.tot.lcd), c.sum.lcd) THEN {} ELSE {"total:lcd"})
     \cup (IF c.tot.cp[1] = 9 /\ (\A i \in N : c.rows[i].cp[1] \in {-1, 9})
              /\ SumTo([i \in N |-> IF c.rows[i].cp[1] = -1 THEN 0 ELSE c.rows[i].cp[2]], Len(c.rows)) # c.tot.cp[2]
           THEN {"total:cp-vs-cells"} ELSE {}))
  \cup (IF ~c.lcdcheck THEN {} ELSE
          (IF c.sum.lcd = maxlat THEN {} ELSE {"lcd-max"}) \cup
          (IF (IF c.lcds = <<>> THEN col = {} ELSE \E k \in DOMAIN c.lcds : c.lcds[k].lat = maxlat /\ ColIs(c.lcds[k]))
           THEN {} ELSE {"lcd-col"})
     \cup (IF /\ Len(c.lcdlist) = Len(c.lcds)
              /\ \A i \in DOMAIN c.lcdlist : \E k \in DOMAIN c.lcds :
                    /\ c.lcds[k].mem = c.lcdlist[i].mem
                    /\ RoundOK(Cell(c.lcdlist[i].lat), c.lcds[k].lat)
                    /\ c.lcdlist[i].root = c.lcdlist[i].mem[1]
              /\ \A k \in DOMAIN c.lcds : \E i \in DOMAIN c.lcdlist : c.lcds[k].mem = c.lcdlist[i].mem
           THEN {} ELSE {"lcdlist"}))
  \cup (IF c.blocks = ExpectedBlocks(fl) THEN {} ELSE {"B:block-order"})
  \cup (IF ("LcdWarn" \in bs) <=> c.fl.to THEN {} ELSE {"B:lcdwarn-timeout"})

\* one short line per failing clause (TLC wraps long printed values)
Check == LET c == Cases[tid] f == Fails(c) IN \A cl \in f : PrintT(<<"REJECT", c.id, cl>>)
TraceInit == tid = 1
TraceNext == tid < Len(Cases) /\ tid' = tid + 1
TraceSpec == TraceInit /\ [][TraceNext]_tid
AllConsumed == TLCGet("stats").diameter = Len(Cases)
=============================================================================
