CONSTANT ISA = "aarch64"
CONSTANT MAXK = 2
CONSTANT DEVS = {}
CONSTANT MODELSET = {1,2,3,4,5,6,7,8,9,10,11,12,13,14,15,16,17,18,19,20,21,22,23,24,25,26,27,28,29,30,31,32}
SPECIFICATION Spec
INVARIANT TypeOK
INVARIANT Inert
INVARIANT TablesUnchanged
INVARIANT UnknownIsZero
INVARIANT UnknownIffNeither
INVARIANT ComposedDominates
CONSTRAINT Emit
CONSTRAINT EmitHeader
CHECK_DEADLOCK FALSE
