------------------------------- MODULE Session -------------------------------
(***************************************************************************)
(* Analyses within one process (property C18): pure definitions.           *)
(*                                                                         *)
(* A request is one of NReq kinds (architecture model, options, kernel).    *)
(* What a process keeps between analyses: the set of models it has loaded   *)
(* (MachineModel._runtime_cache), the parser singletons, and - if the code  *)
(* ever re-used a loaded model object - the state of that object, which an  *)
(* analysis can change in place.  `taint` counts such changes per model;    *)
(* a report is abstracted to <<request, taint seen by the analysis>>, and   *)
(* the fresh-process reference is Ref(r) = <<r, 0>>.                        *)
(*                                                                         *)
(* Named deviations (CONSTANT switches):                                   *)
(*   InPlaceMutation : an analysis of a kernel with read-modify-write       *)
(*                     memory forms changes the model's load row in place   *)
(*                     (F8: data_port_uops += st_data_port_uops)            *)
(*   ModelReused     : a later analysis gets the very same model object     *)
(*                     (today FALSE: inspect() re-reads the model from its   *)
(*                     pickle on every call, _runtime_cache is overwritten) *)
(*   DeadlineOnProcessClock : the time limit of the LCD search is compared   *)
(*                     with a clock of the PROCESS (CPU time, time since     *)
(*                     start) instead of the time the search has taken, so   *)
(*                     an analysis in a process older than AgeLimit is cut   *)
(*                     (today FALSE: time.time() - start_time)               *)
(* `age` is the time the process has consumed so far in abstract units      *)
(* (saturating at MaxAge); an analysis and the step Work (the process       *)
(* computes or sleeps, no analysis) advance it.                             *)
(***************************************************************************)
EXTENDS Naturals, Sequences, FiniteSets, TLC, Json, CSV, IOUtils

CONSTANTS InPlaceMutation, ModelReused, DeadlineOnProcessClock, AgeLimit, MaxAge

\* the request kinds replayed on the implementation (harness/checks/c18.py: requests)
ReqTable ==
  << [arch |-> "zen1", isa |-> "x86",     rmw |-> FALSE, opt |-> ""],       \* memory-composed loads
     [arch |-> "zen4", isa |-> "x86",     rmw |-> FALSE, opt |-> ""],
     [arch |-> "n1",   isa |-> "aarch64", rmw |-> TRUE,  opt |-> ""],       \* composed + unknown + writeback
     [arch |-> "tx2",  isa |-> "aarch64", rmw |-> FALSE, opt |-> ""],
     [arch |-> "zen1", isa |-> "x86",     rmw |-> FALSE, opt |-> "fixed"],
     [arch |-> "zen4", isa |-> "x86",     rmw |-> FALSE, opt |-> "flags"],
     [arch |-> "zen1", isa |-> "x86",     rmw |-> FALSE, opt |-> ""],       \* unknown instructions
     [arch |-> "zen1", isa |-> "x86",     rmw |-> TRUE,  opt |-> ""],       \* read-modify-write memory forms
     \* the other entry points and option paths of osaca.osaca.run
     [arch |-> "zen1", isa |-> "x86",     rmw |-> FALSE, opt |-> "dbcheck"], \* --db-check: reads model and ISA database
     [arch |-> "zen1", isa |-> "x86",     rmw |-> TRUE,  opt |-> "import"],  \* --import: adds entries to the model OBJECT it loaded
     [arch |-> "zen1", isa |-> "x86",     rmw |-> FALSE, opt |-> "lines-a"], \* --lines 1-3
     [arch |-> "zen1", isa |-> "x86",     rmw |-> FALSE, opt |-> "lines-b"], \* --lines 6-9 of the same file
     [arch |-> "tx2",  isa |-> "aarch64", rmw |-> FALSE, opt |-> "long-a"],  \* >= 50 lines: multi-process LCD search
     [arch |-> "tx2",  isa |-> "aarch64", rmw |-> FALSE, opt |-> "long-b"],
     [arch |-> "zen1", isa |-> "x86",     rmw |-> FALSE, opt |-> "absent"],  \* mnemonics zen1 does not list at all
     [arch |-> "zen4", isa |-> "x86",     rmw |-> FALSE, opt |-> "absent"] >> \* the same kernel on a model that lists them
NReq  == Len(ReqTable)
Req   == 1..NReq
Archs == { ReqTable[r].arch : r \in Req }
Isas  == { ReqTable[r].isa : r \in Req }

Rep(r, t) == <<r, t>>
Ref(r)    == Rep(r, 0)
NoRep     == <<0, 0>>
CutMark   == 1000                 \* the report of a search that was cut short although it needs no time
Older(a)  == IF a < MaxAge THEN a + 1 ELSE a

InitSession == [ loaded |-> {}, parsers |-> {}, shared |-> [a \in Archs |-> 0], last |-> NoRep, age |-> 0 ]

\* taint of the model object the analysis of r works on
Seen(s, r) == IF ModelReused /\ ReqTable[r].arch \in s.loaded THEN s.shared[ReqTable[r].arch] ELSE 0

AnalyzeEffect(s, r) ==
  LET a == ReqTable[r].arch
      t == Seen(s, r)
  IN [ loaded  |-> s.loaded \cup {a},
       parsers |-> s.parsers \cup {ReqTable[r].isa},
       \* the mutation hits the process-wide object only if that object is what later calls get
       shared  |-> IF InPlaceMutation /\ ReqTable[r].rmw /\ ModelReused
                     THEN [s.shared EXCEPT ![a] = t + 1] ELSE s.shared,
       last    |-> IF DeadlineOnProcessClock /\ s.age >= AgeLimit THEN Rep(r, CutMark) ELSE Rep(r, t),
       age     |-> Older(s.age) ]
\* the process does something that is not an analysis (computes, sleeps): only its clocks advance
WorkEffect(s) == [s EXCEPT !.age = Older(s.age)]
=============================================================================
