------------------------------- MODULE MC_Osaca -------------------------------
(* The pipeline order as a checked property: starting from Init0, events of a small recorded
   run are offered in EVERY order (each event at most once per occurrence); TLC shows that the
   only order Step accepts up to "reported" is the pipeline order
   parse, select, semantics, balance, balance, graph, graph, lcd, cp, dict
   (and without the two balance events when --fixed is given).                            *)
EXTENDS Osaca, Json, IOUtils
Run == ndJsonDeserialize(IOEnv.CASES)[1]      \* one recorded run: [fixed, flagDeps, events]
N == Len(Run.events)
VARIABLES s, used, order
vars == <<s, used, order>>
Init == s = Init1(Run.fixed, Run.flagDeps, Run.fd) /\ used = {} /\ order = <<>>
Take(i) == /\ i \notin used /\ ~IsFailed(s)
           /\ LET t == Step(s, Run.events[i]) IN
              /\ ~IsFailed(t)
              /\ s' = t /\ used' = used \cup {i} /\ order' = Append(order, Run.events[i].ev)
Next == \E i \in 1..N : Take(i)
Spec == Init /\ [][Next]_vars
\* events are accepted only in the recorded (pipeline) order; the only stage that may be left
\* out is the balancer (how often it runs is Level B; RunTrace then reports an order divergence)
Recorded == [i \in 1..N |-> Run.events[i].ev]
OnlyPipelineOrder ==
  /\ \A i \in used : \A j \in 1..(i - 1) : j \in used \/ Recorded[j] = "balance"
  /\ \A k \in 1..Len(order) : \E i \in used : Recorded[i] = order[k]
CompletesOnlyWithAllStages ==
  (s.stage = "reported") => \A j \in 1..N : j \in used \/ Recorded[j] \in {"balance", "report"}
=============================================================================
