------------------------------ MODULE PortModel ------------------------------
(***************************************************************************)
(* Port pressure as a fractional assignment of micro-ops to ports          *)
(* (properties C01, C02; the uniform split is also the Cost action of C15). *)
(*                                                                         *)
(* All cycle quantities are integers in units of 1/UNIT cycle (DESIGN 3.2: *)
(* UNIT = 12000, the balancing step 0.01 cy = STEP = 120 units).           *)
(* Ports are numbered 1..N in the order of the machine model's port list;   *)
(* a pressure row is a sequence of N integers.                             *)
(* A micro-op is a record [c |-> cycles, p |-> <<ports>>, m |-> 2*mult]:    *)
(* p is the port collection as written in the model (a sequence, order     *)
(* matters only to the Level-B balancer), m/2 the documented load/store     *)
(* multiplier that scales a data micro-op (2 = unscaled).                   *)
(***************************************************************************)
EXTENDS Integers, Sequences, FiniteSets, TLC

UNIT == 12000
STEP == 120           \* 0.01 cycle

\* ---------------------------------------------------------------- helpers
ToSet(s) == { s[i] : i \in DOMAIN s }
Abs(x) == IF x < 0 THEN -x ELSE x
RECURSIVE SumFn(_, _)
SumFn(f, S) == IF S = {} THEN 0
               ELSE LET x == CHOOSE y \in S : TRUE IN f[x] + SumFn(f, S \ {x})
SumSeq(s) == SumFn(s, DOMAIN s)
MaxSet(S) == CHOOSE x \in S : \A y \in S : y <= x
MinSet(S) == CHOOSE x \in S : \A y \in S : x <= y
MaxSeq(s) == MaxSet(ToSet(s))
Count(s, q) == Cardinality({ i \in DOMAIN s : s[i] = q })

\* ---------------------------------------------------------------- micro-ops
PSet(u) == ToSet(u.p)
Eff(u) == (u.c * u.m) \div 2                       \* cycles scaled by the multiplier
\* the lattice can express the uniform shares of u exactly
Representable(u) == /\ (u.c * u.m) % 2 = 0
                    /\ Len(u.p) > 0
                    /\ Eff(u) % Len(u.p) = 0
\* uniform 1/N split: every listed port gets cycles/len(ports) (a port listed twice gets two shares)
Share(u, q) == (Eff(u) \div Len(u.p)) * Count(u.p, q)
UniformRow(uops, N) ==
  [ q \in 1..N |-> SumFn([ x \in DOMAIN uops |-> Share(uops[x], q) ], DOMAIN uops) ]
TotalCycles(uops) == SumFn([ x \in DOMAIN uops |-> Eff(uops[x]) ], DOMAIN uops)
Admissible(uops) == UNION { PSet(uops[x]) : x \in DOMAIN uops }

\* ---------------------------------------------------------------- feasibility (Level A of C01)
\* Hall condition: every set S of ports carries at least the cycles of the micro-ops that can
\* run nowhere else.  Confined(S) only changes at unions of micro-op port sets, so these suffice.
PortSets(uops) == { PSet(uops[x]) : x \in DOMAIN uops }
Closed(uops) == { UNION T : T \in (SUBSET PortSets(uops)) \ {{}} }
Confined(uops, S) ==
  LET X == { x \in DOMAIN uops : PSet(uops[x]) \subseteq S }
  IN SumFn([ x \in DOMAIN uops |-> Eff(uops[x]) ], X)
RowOver(row, S) == SumFn(row, S)

\* the failing clause of  Feasible(row, uops, eps)  or "ok"
FeasClause(row, uops, eps, N) ==
  IF \E q \in 1..N : row[q] < -eps THEN "negative"
  ELSE IF \E q \in (1..N) \ Admissible(uops) : row[q] # 0 THEN "inadmissible-port"
  ELSE IF Abs(RowOver(row, 1..N) - TotalCycles(uops)) > eps THEN "sum"
  ELSE IF \E S \in Closed(uops) : RowOver(row, S) < Confined(uops, S) - eps THEN "hall"
  ELSE "ok"
Feasible(row, uops, eps, N) == FeasClause(row, uops, eps, N) = "ok"

\* granularity of the balancing steps applied to an instruction: one 0.01 step per balancing
\* round = per (pass, micro-op)
EpsOpt(passes, uops) == STEP * passes * Len(uops)

\* ---------------------------------------------------------------- totals
\* rounding to 0.01 cycle; at an exact tie the float result depends on accumulated error,
\* so both neighbours are allowed
Round2(x) == LET lo == (x \div STEP) * STEP
                 r  == x - lo
             IN IF r * 2 < STEP THEN {lo}
                ELSE IF r * 2 > STEP THEN {lo + STEP}
                ELSE {lo, lo + STEP}
\* lines: sequence of records with fields tp (1 iff throughput # 0) and row
Summed(lines) == { i \in DOMAIN lines : lines[i].tp = 1 }
ColSum(lines, q) == SumFn([ i \in DOMAIN lines |-> lines[i].row[q] ], Summed(lines))
TotalsOk(lines, totals, N) == \A q \in 1..N : totals[q] \in Round2(ColSum(lines, q))
BadTotalPort(lines, totals, N) == CHOOSE q \in 1..N : totals[q] \notin Round2(ColSum(lines, q))

\* ---------------------------------------------------------------- exact optimum (Level A of C02)
\* ks: the micro-ops of all summed lines (one sequence).  The optimum of the fractional
\* restricted-assignment problem is  Hall(ks) = max_S Confined(ks,S)/|S|  (max-flow/min-cut);
\* all comparisons are cross-multiplied.
RECURSIVE Concat(_)
Concat(ss) == IF ss = <<>> THEN <<>> ELSE Head(ss) \o Concat(Tail(ss))
\* b >= Hall(ks) - slack   <=>  for all S : Confined(S) <= (b + slack) * |S|
AtLeastHall(b, ks, slack) ==
  \A S \in Closed(ks) : Confined(ks, S) <= (b + slack) * Cardinality(S)
\* b <= Hall(ks) + slack   <=>  for some S : b * |S| <= Confined(S) + slack * |S|
AtMostHallPlus(b, ks, slack) ==
  IF ks = <<>> THEN b <= slack
  ELSE \E S \in Closed(ks) : b * Cardinality(S) <= Confined(ks, S) + slack * Cardinality(S)
\* Hall(ks) as a pair <<numerator, denominator>> (for reporting)
HallPair(ks) ==
  IF ks = <<>> THEN <<0, 1>>
  ELSE LET C == Closed(ks)
           best == CHOOSE S \in C : \A T \in C :
                     Confined(ks, T) * Cardinality(S) <= Confined(ks, S) * Cardinality(T)
       IN <<Confined(ks, best), Cardinality(best)>>
=============================================================================
