---------------------------- MODULE Trace_Session ----------------------------
(* Batch validation of recorded in-process call histories.  A case is [id, events]; an event is
     [req, rep, same, ch]
   req : request kind (index into Session!ReqTable); 0 = Work (the process computed / slept for
         longer than the search limit of the following analyses, no analysis)
   rep : 0 if the report text equals the fresh-process reference of req, otherwise the number
         (>= 1) of the distinct deviating text
   ch  : names of shared objects (model files) whose fingerprint after the call is not what the
         Level-B machine predicts (diagnostic only)
   The Level-A verdict is ReportIsFunctionOfRequest evaluated on the recorded report of every
   call: the observed abstract report must be Session!Ref(req). *)
EXTENDS Session
Cases == ndJsonDeserialize(IOEnv.CASES)
VARIABLE tid

ObsRep(e) == Rep(e.req, e.rep)      \* rep # 0: a report some history produced that no fresh process gives

RECURSIVE FirstBad(_, _)
FirstBad(ev, i) == IF i > Len(ev) THEN 0
                   ELSE IF ev[i].req = 0 THEN FirstBad(ev, i + 1)
                   ELSE IF ev[i].req \notin Req \/ ObsRep(ev[i]) # Ref(ev[i].req) THEN i
                   ELSE FirstBad(ev, i + 1)
RECURSIVE FirstChanged(_, _)
FirstChanged(ev, i) == IF i > Len(ev) THEN 0
                       ELSE IF Len(ev[i].ch) > 0 THEN i ELSE FirstChanged(ev, i + 1)
\* the Level-B machine is run alongside to keep the recorded history a behaviour of Session
RECURSIVE RunSession(_, _, _)
RunSession(st, ev, i) == IF i > Len(ev) THEN st
                         ELSE RunSession(IF ev[i].req = 0 THEN WorkEffect(st) ELSE AnalyzeEffect(st, ev[i].req), ev, i + 1)

Check ==
  LET c == Cases[tid]
      b == FirstBad(c.events, 1)
      d == FirstChanged(c.events, 1)
      fin == RunSession(InitSession, c.events, 1)
      dv == IF d = 0 THEN TRUE ELSE PrintT(<<"DIVERGE", c.id, "shared-changed", d, c.events[d].ch>>)
  IN /\ dv
     /\ IF b # 0
          THEN PrintT(<<"REJECT", c.id, "history-dependent", b, c.events[b].req, c.events[b].rep>>)
          ELSE fin.loaded = { ReqTable[c.events[i].req].arch : i \in { j \in DOMAIN c.events : c.events[j].req # 0 } }
TraceInit == tid = 1
TraceNext == tid < Len(Cases) /\ tid' = tid + 1
TraceSpec == TraceInit /\ [][TraceNext]_tid
AllConsumed == TLCGet("stats").diameter = Len(Cases)
=============================================================================
