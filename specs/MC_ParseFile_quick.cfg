CONSTANT MaxLines = 4
CONSTANT Alphabet = {"blank:empty", "blank:ws", "comment:a", "label:plain", "directive:a", "instr:ops", "instr:comment"}
SPECIFICATION Spec
INVARIANT InvOnePerNonBlank
INVARIANT InvLineNumbers
INVARIANT InvVerbatim
INVARIANT InvExactlyOneKind
INVARIANT InvExpected
INVARIANT InvCursor
INVARIANT BlankShifts
CONSTRAINT Emit
CHECK_DEADLOCK FALSE
