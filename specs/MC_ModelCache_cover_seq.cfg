CONSTANT NProcs = 1
CONSTANT NContents = 2
CONSTANT AtomicWrite = FALSE
CONSTANT TolerantRead = FALSE
CONSTANT ReadOnce = FALSE
CONSTANT RtServes = FALSE
CONSTANT Sequential = TRUE
CONSTANT EditWhileBusy = FALSE
CONSTANT MaxStarts = 3
CONSTANT MaxEdits = 1
CONSTANT MaxEnvs = 1
CONSTANT AllowLegacy = TRUE
CONSTANT CrashAnywhere = FALSE
CONSTANT SameProcReload = TRUE
SPECIFICATION Spec
VIEW View
INVARIANT TypeOK
CONSTRAINT Emit
CHECK_DEADLOCK FALSE
