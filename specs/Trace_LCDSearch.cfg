CONSTANT KTab <- TraceKTab
CONSTANT DeadlineTestFirst = TRUE
SPECIFICATION TraceSpec
INVARIANT CheckA
INVARIANT CheckAlong
POSTCONDITION AllConsumed
CHECK_DEADLOCK FALSE
