----------------------------- MODULE LCDSearchSM -----------------------------
(***************************************************************************)
(* State machine of KernelDG.check_for_loopcarried_dep for kernels of      *)
(* INSTRUCTION_THRESHOLD or more lines (Level B: shaped like the code).    *)
(*                                                                         *)
(*   coordinator                         worker w (one OS process)         *)
(*   -----------                         -------------------------         *)
(*   for p: p.start()        StartAll    for instr in slice(w):            *)
(*   timeout = -1: join all  JoinAll        paths = list(all_simple_paths) *)
(*   else                                   shared.extend(paths)  WStep(w) *)
(*     while now-start <= timeout:  Check (process exits)         WStep(w) *)
(*        any alive -> sleep 0.2    Sleep                                  *)
(*        else join all; break      JoinAll                                *)
(*     else: timed_out = True;      Kill                                   *)
(*           SIGKILL the living, join                                      *)
(*   all_paths = list(all_paths)    Copy                                   *)
(*   de-duplicate, sort, dict       PostProcess                            *)
(*                                                                         *)
(* Tick: the deadline passes (at any moment after the workers were         *)
(* started).  One append per root is atomic (Manager list: one request     *)
(* executed by the server).                                                *)
(*                                                                         *)
(* Granularity: Check reads the clock and then the liveness of the workers *)
(* in one step, Kill handles all workers in one step, StartAll starts all  *)
(* workers in one step.  This loses no behaviour: a worker step or a Tick  *)
(* between the two reads of Check (between two iterations of the start or  *)
(* kill loop) touches nothing the coordinator reads in between and can be  *)
(* moved before/after the coordinator step.                                *)
(*                                                                         *)
(* Named deviation (DESIGN 7, F11)  DeadlineTestFirst = TRUE is the code   *)
(* as it is: when the loop test fails the flag timed_out is set without    *)
(* looking at the workers, so a run in which every worker had already      *)
(* finished still reports a time-out.  FALSE is the intended behaviour     *)
(* (the flag is set only if a worker had to be killed).                    *)
(***************************************************************************)
EXTENDS LCDSearch

CONSTANTS KTab(_),             \* kernel table: kid |-> [n, cyc, np]   (see LCDSearch!Build)
          DeadlineTestFirst    \* BOOLEAN, named deviation F11

VARIABLES par,       \* [kid, n, nw, to]: kernel id and length, number of workers (cpu_count()), to = (timeout # -1); never changes
          wst,       \* worker -> "idle" | "run" | "done" | "killed"
          wpos,      \* worker -> number of roots of its slice already appended
          shared,    \* the Manager list, abstracted to the sequence of roots whose paths were appended
          cpc,       \* coordinator: "start" "poll" "sleep" "join" "kill" "copy" "post" "done"
          expired,   \* now - start_time > timeout
          timedOut,  \* KernelDG.timed_out
          copied,    \* local copy list(all_paths)
          result,    \* the returned LCD set
          joined     \* workers that were joined (reaped)
vars == <<par, wst, wpos, shared, cpc, expired, timedOut, copied, result, joined>>

K      == par.n
W      == 0..(par.nw - 1)
Sl(w)  == Slice(K, par.nw, w)
Cyc    == KTab(par.kid).cyc
Full   == FullResult(KTab(par.kid))
Alive  == { w \in W : wst[w] = "run" }
Cut    == \E w \in W : wst[w] = "killed"      \* the search was cut short: a worker was killed
Done   == cpc = "done"

InitWith(p) ==
  /\ par = p
  /\ wst = [w \in 0..(p.nw - 1) |-> "idle"]
  /\ wpos = [w \in 0..(p.nw - 1) |-> 0]
  /\ shared = << >>
  /\ cpc = "start"
  /\ expired = FALSE
  /\ timedOut = FALSE
  /\ copied = << >>
  /\ result = {}
  /\ joined = {}

\* ---------------------------------------------------------------- coordinator
StartAll ==
  /\ cpc = "start"
  /\ wst' = [w \in W |-> "run"]
  /\ cpc' = IF par.to THEN "poll" ELSE "join"
  /\ UNCHANGED <<par, wpos, shared, expired, timedOut, copied, result, joined>>

Tick ==
  /\ par.to
  /\ cpc \in {"poll", "sleep"}
  /\ ~expired
  /\ expired' = TRUE
  /\ UNCHANGED <<par, wst, wpos, shared, cpc, timedOut, copied, result, joined>>

\* loop test `time.time() - start_time <= timeout`, then `any(p.is_alive() ...)`
\* (the `else` branch begins with `self.timed_out = True`: with DeadlineTestFirst the flag is
\*  already set when the coordinator looks at the first worker)
Check ==
  /\ cpc = "poll"
  /\ cpc' = IF expired THEN "kill" ELSE IF Alive # {} THEN "sleep" ELSE "join"
  /\ timedOut' = IF expired /\ DeadlineTestFirst THEN TRUE ELSE timedOut
  /\ UNCHANGED <<par, wst, wpos, shared, expired, copied, result, joined>>

Sleep ==
  /\ cpc = "sleep"
  /\ cpc' = "poll"
  /\ UNCHANGED <<par, wst, wpos, shared, expired, timedOut, copied, result, joined>>

\* join() returns only for a finished process: enabled when every worker has exited
JoinAll ==
  /\ cpc = "join"
  /\ \A w \in W : wst[w] = "done"
  /\ joined' = W
  /\ cpc' = "copy"
  /\ UNCHANGED <<par, wst, wpos, shared, expired, timedOut, copied, result>>

\* the `else` branch of the while loop
Kill ==
  /\ cpc = "kill"
  /\ timedOut' = IF DeadlineTestFirst THEN timedOut ELSE (Alive # {})
  /\ wst' = [w \in W |-> IF wst[w] = "run" THEN "killed" ELSE wst[w]]
  /\ joined' = W
  /\ cpc' = "copy"
  /\ UNCHANGED <<par, wpos, shared, expired, copied, result>>

Copy ==
  /\ cpc = "copy"
  /\ copied' = shared
  /\ cpc' = "post"
  /\ UNCHANGED <<par, wst, wpos, shared, expired, timedOut, result, joined>>

PostProcess ==
  /\ cpc = "post"
  /\ result' = ResultOf(Cyc, copied)
  /\ cpc' = "done"
  /\ UNCHANGED <<par, wst, wpos, shared, expired, timedOut, copied, joined>>

\* ---------------------------------------------------------------- workers
\* one root of the slice (paths computed, appended in one request), or the exit of the process
WStep(w) ==
  /\ wst[w] = "run"
  /\ IF wpos[w] < Len(Sl(w))
     THEN /\ shared' = Append(shared, Sl(w)[wpos[w] + 1])
          /\ wpos' = [wpos EXCEPT ![w] = @ + 1]
          /\ UNCHANGED wst
     ELSE /\ wst' = [wst EXCEPT ![w] = "done"]
          /\ UNCHANGED <<shared, wpos>>
  /\ UNCHANGED <<par, cpc, expired, timedOut, copied, result, joined>>

Terminated == Done /\ UNCHANGED vars

\* ---------------------------------------------------------------- properties
TypeOK ==
  /\ wst \in [W -> {"idle", "run", "done", "killed"}]
  /\ \A w \in W : wpos[w] \in 0..Len(Sl(w))
  /\ cpc \in {"start", "poll", "sleep", "join", "kill", "copy", "post", "done"}
  /\ expired \in BOOLEAN /\ timedOut \in BOOLEAN
  /\ Range(shared) \subseteq 1..K /\ Range(copied) \subseteq 1..K
  /\ joined \subseteq W

\* C16 (static part): dropped last chunk / overlapping slices / holes
PartitionIsOk == PartitionOk(K, par.nw)

\* C16: whatever the worker count and the interleaving, a search that was not cut short returns
\* what the sequential search returns
\* (Full is looked up in terminal states only: see the remark at LCDSearch!Build)
ResultIndependentOfScheduleAndNW == (Done /\ ~Cut) => result = Full

\* C19: every reported LCD is one of the untimed result (same key, same latency) ...
SoundPartial == Done => result \subseteq Full
\* ... and only whole roots are ever collected: every worker contributed a prefix of its slice
WholeRootPrefixes ==
  /\ \A w \in W : IsPrefix(Restrict(shared, Range(Sl(w))), Sl(w)) /\ Len(Restrict(shared, Range(Sl(w)))) = wpos[w]
  /\ Len(shared) = Cardinality(Range(shared))
\* C19: warning <=> the search was cut short
WarnIffCut == Done => (timedOut <=> Cut)
\* C19: complete result without warning when the search finishes in time or has no timeout
CompleteWhenNotTimedOut == (Done /\ (~timedOut \/ ~par.to)) => result = Full
NoWarningWithoutTimeout == ~par.to => ~timedOut
\* C19: nothing is left running and every worker was reaped when the analysis returns
NoOrphans == cpc \in {"copy", "post", "done"} => (Alive = {} /\ joined = W /\ \A w \in W : wst[w] \in {"done", "killed"})
\* C19: the copy is taken after the last write
NoLateWrites == cpc \in {"post", "done"} => copied = shared

=============================================================================
