CONSTANT KTab <- MC_KTab
CONSTANT Kernels <- KSim
CONSTANT NWs = {3, 5, 16, 0}
CONSTANT Timeouts = {TRUE, FALSE}
CONSTANT TickEnabled = TRUE
CONSTANT ReduceIdle = FALSE
CONSTANT DeadlineTestFirst = FALSE
SPECIFICATION Spec
INVARIANT TypeOK
CONSTRAINT EmitOnce
