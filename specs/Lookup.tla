------------------------------- MODULE Lookup -------------------------------
(***************************************************************************)
(* Instruction-form lookup (property C07; reused by Compose for C08).      *)
(*                                                                         *)
(* An instruction (mnemonic + written operands) is matched against the     *)
(* entries of a machine model.  Operands are abstracted to KINDS: records  *)
(* with the uniformly typed (string) fields                                *)
(*   k    "reg" | "imm" | "id" | "cc" | "prf" | "mem" | "rw"               *)
(*        ("rw" = the register wildcard that stands for a memory operand   *)
(*         when the register form of an instruction is looked up, C08)     *)
(*   c    register class (x86: gpr xmm ymm zmm mm k st ..; AArch64: the    *)
(*        width prefix x w b h s d q v z p); "*" = wildcard (entries only) *)
(*   s    vector shape ("" = none, b h s d, "*")                           *)
(*   m    x86 mask decoration ("" | "y")                                   *)
(*   t    immediate type (int float double "*") / condition code           *)
(*   b o i sc   memory: base class, offset kind ("" imd imd0 id "*"),      *)
(*        index class, scale ("1", "n" = larger than one, "*", "" = null)  *)
(*   pre post   AArch64 pre-/post-indexing ("f" "t" "*")                    *)
(*                                                                         *)
(* Match is THREE-VALUED: "Y" the statement of C07 demands a match, "N" it *)
(* forbids one, "O" the statement leaves the point open (every reading is  *)
(* allowed; the state machine in MC_Lookup resolves it nondeterministically*)
(* and the trace specification accepts both).  The open points are:        *)
(*   O1 x86 non-general, non-vector register (k, st, segment) vs. `gpr`    *)
(*   O2 x86 mask decoration present on one side only                       *)
(*   O3 AArch64 shape-less register vs. shaped entry and vice versa        *)
(*   O5 zero displacement vs. an entry without offset                      *)
(*   O6 symbolic displacement vs. an `imd` offset entry                    *)
(*   O7 entry without scale (null) vs. a scaled index                      *)
(*   O8 x86 immediate entry whose type is not `int`                        *)
(*   O9 prefetch-operation details                                         *)
(*   O10 AArch64 `id` offset entries (no shipped model uses them)          *)
(* Mnemonics are sequences of one-character strings so that the            *)
(* specification itself folds case and drops suffixes.                     *)
(***************************************************************************)
EXTENDS Naturals, Sequences, FiniteSets, TLC, Json, CSV, IOUtils

\* ------------------------------------------------------------------ verdicts
And3(a, b) == IF a = "N" \/ b = "N" THEN "N" ELSE IF a = "O" \/ b = "O" THEN "O" ELSE "Y"
Yes(c) == IF c THEN "Y" ELSE "N"
YesOrOpen(c) == IF c THEN "Y" ELSE "O"

\* ------------------------------------------------------------------ mnemonics
UpperTab == [a |-> "A", b |-> "B", c |-> "C", d |-> "D", e |-> "E", f |-> "F", g |-> "G",
             h |-> "H", i |-> "I", j |-> "J", k |-> "K", l |-> "L", m |-> "M", n |-> "N",
             o |-> "O", p |-> "P", q |-> "Q", r |-> "R", s |-> "S", t |-> "T", u |-> "U",
             v |-> "V", w |-> "W", x |-> "X", y |-> "Y", z |-> "Z"]
Up(ch) == IF ch \in DOMAIN UpperTab THEN UpperTab[ch] ELSE ch
UpName(n) == [i \in 1..Len(n) |-> Up(n[i])]
NameEq(a, b) == Len(a) = Len(b) /\ \A i \in 1..Len(a) : Up(a[i]) = Up(b[i])

GasSuffix == {"B", "S", "W", "L", "Q", "T"}
Dots(n) == {i \in 1..Len(n) : n[i] = "."}
FirstDot(n) == CHOOSE i \in Dots(n) : \A j \in Dots(n) : i <= j
\* the documented fall-backs: drop ONE AT&T size-suffix letter; drop the AArch64 ".suffix"
CanDrop(isa, n) == IF isa = "x86" THEN Len(n) >= 1 /\ Up(n[Len(n)]) \in GasSuffix
                   ELSE Dots(n) # {}
Drop(isa, n) == IF isa = "x86" THEN SubSeq(n, 1, Len(n) - 1) ELSE SubSeq(n, 1, FirstDot(n) - 1)

\* ------------------------------------------------------------------ operand kinds
X86Vec == {"xmm", "ymm", "zmm", "mm"}
X86RegClasses == X86Vec \cup {"gpr", "k"}
A64Prefixes == {"x", "w", "b", "h", "s", "d", "q", "v", "z", "p"}

RegMatch(isa, e, w) ==
  IF isa = "x86" THEN
       IF e.c = "*" THEN "Y"
       ELSE IF e.c = w.c THEN YesOrOpen(e.m = w.m)                       \* O2
       ELSE IF e.c = "gpr" /\ w.c \notin X86Vec THEN "O"                  \* O1 (w.c # gpr here)
       ELSE "N"
  ELSE
       IF ~(e.c = "*" \/ e.c = w.c) THEN "N"
       ELSE IF e.s = "" /\ w.s = "" THEN "Y"
       ELSE IF e.s = "" \/ w.s = "" THEN "O"                              \* O3
       ELSE Yes(e.s = "*" \/ e.s = w.s)

ImmMatch(isa, e, w) ==
  IF isa = "x86" THEN YesOrOpen(e.t = "int")                              \* O8
  ELSE Yes(e.t = "*" \/ e.t = w.t)

CondMatch(e, w) == Yes(e.t = "*" \/ e.t = w.t)

PrfMatch(e, w) == YesOrOpen(e.t = "*" \/ e.t = w.t)                        \* O9

\* memory components
BaseMatch(e, w) ==
  IF e.b = "*" THEN "Y"
  ELSE IF e.b = "" \/ w.b = "" THEN Yes(e.b = w.b)
  ELSE Yes(e.b = w.b)
OffsetMatch(isa, e, w) ==
  IF e.o = "*" THEN "Y"
  ELSE IF w.o = "" THEN Yes(e.o = "")
  ELSE IF w.o = "imd" THEN Yes(e.o = "imd")
  ELSE IF w.o = "imd0" THEN (IF e.o = "imd" THEN "Y" ELSE IF e.o = "" THEN "O" ELSE "N")     \* O5
  ELSE \* w.o = "id"
       IF e.o = "id" THEN (IF isa = "x86" THEN "Y" ELSE "O")                                  \* O10
       ELSE IF e.o = "imd" THEN "O"                                                           \* O6
       ELSE "N"
IndexMatch(e, w) ==
  IF e.i = "*" THEN "Y"
  ELSE Yes(e.i = w.i)
ScaleMatch(e, w) ==
  IF e.sc = "*" THEN "Y"
  ELSE IF e.sc = "" THEN (IF w.sc = "1" THEN "Y" ELSE "O")                \* null = unscaled; O7
  ELSE Yes(e.sc = w.sc)
FlagMatch(ef, wf) == Yes(ef = "*" \/ ef = wf)
MemMatch(isa, e, w) ==
  And3(BaseMatch(e, w), And3(OffsetMatch(isa, e, w), And3(IndexMatch(e, w),
  And3(ScaleMatch(e, w), And3(FlagMatch(e.pre, w.pre), FlagMatch(e.post, w.post))))))

\* Match(entry operand kind, written operand kind)
Match(isa, e, w) ==
  IF w.k = "rw" THEN Yes(e.k = "reg")
  ELSE IF e.k # w.k THEN "N"
  ELSE IF w.k = "reg" THEN RegMatch(isa, e, w)
  ELSE IF w.k = "imm" THEN ImmMatch(isa, e, w)
  ELSE IF w.k = "id"  THEN "Y"
  ELSE IF w.k = "cc"  THEN CondMatch(e, w)
  ELSE IF w.k = "prf" THEN PrfMatch(e, w)
  ELSE IF w.k = "mem" THEN MemMatch(isa, e, w)
  ELSE "N"

\* all operands, equal arity
OpsMatch(isa, eops, wops) ==
  IF Len(eops) # Len(wops) THEN "N"
  ELSE LET vs == {Match(isa, eops[i], wops[i]) : i \in 1..Len(eops)} IN
       IF "N" \in vs THEN "N" ELSE IF "O" \in vs THEN "O" ELSE "Y"

\* ------------------------------------------------------------------ Find
\* entries: sequence (file order) of [n |-> name, ops |-> sequence of kinds]
Cand(entries, name) == {i \in DOMAIN entries : NameEq(entries[i].n, name)}
Must(isa, entries, i, ops) == OpsMatch(isa, entries[i].ops, ops) = "Y"
May(isa, entries, i, ops)  == OpsMatch(isa, entries[i].ops, ops) # "N"

\* outcomes (0 = none) of one scan with one name: the first entry in file order that matches
ScanOutcomes(isa, entries, name, ops) ==
  LET C == Cand(entries, name) IN
     {i \in C : May(isa, entries, i, ops) /\ \A j \in C : j < i => ~Must(isa, entries, j, ops)}
     \cup (IF \A i \in C : ~Must(isa, entries, i, ops) THEN {0} ELSE {})

\* Find with the documented fall-back: set of allowed results (entry index, 0 = not found)
FindAllowed(isa, entries, name, ops) ==
  LET o1 == ScanOutcomes(isa, entries, name, ops) IN
     (o1 \ {0}) \cup
     (IF 0 \in o1
        THEN (IF CanDrop(isa, name) THEN ScanOutcomes(isa, entries, Drop(isa, name), ops) ELSE {0})
        ELSE {})

\* Named deviation of the implementation (known finding): the AT&T suffix is only dropped when
\* it is written in lower case.
CanDropDev(isa, n) == IF isa = "x86" THEN Len(n) >= 1 /\ n[Len(n)] \in {"b", "s", "w", "l", "q", "t"}
                      ELSE Dots(n) # {}
FindAllowedDev(isa, entries, name, ops) ==
  LET o1 == ScanOutcomes(isa, entries, name, ops) IN
     (o1 \ {0}) \cup
     (IF 0 \in o1
        THEN (IF CanDropDev(isa, name) THEN ScanOutcomes(isa, entries, Drop(isa, name), ops) ELSE {0})
        ELSE {})
=============================================================================
