CONSTANT NProcs = 2
CONSTANT NContents = 2
CONSTANT AtomicWrite = FALSE
CONSTANT TolerantRead = TRUE
CONSTANT ReadOnce = FALSE
CONSTANT RtServes = FALSE
CONSTANT Sequential = FALSE
CONSTANT EditWhileBusy = TRUE
CONSTANT MaxStarts = 3
CONSTANT MaxEdits = 1
CONSTANT MaxEnvs = 1
CONSTANT AllowLegacy = FALSE
CONSTANT CrashAnywhere = TRUE
CONSTANT SameProcReload = TRUE
SPECIFICATION Spec
VIEW View
INVARIANT TypeOK
INVARIANT ResultIsContent
CHECK_DEADLOCK FALSE
