CONSTANT NP = 3
CONSTANT Passes = 0
CONSTANT CapsReset = TRUE
CONSTANT Forms <- FamilyForms
CONSTANT Kernels <- FamilyKernels
SPECIFICATION Spec
INVARIANT FeasibleAll
INVARIANT TotalsAreColumnSums
CONSTRAINT Emit
CHECK_DEADLOCK FALSE
