CONSTANT Dense = 1300
CONSTANT Large = {1500, 4000, 5940, 6000, 8000, 11940, 11999, 12000, 18000, 59940, 60000, 119880, 119940, 119999, 120000, 120060, 126000, 150000, 1199400, 1199940, 1200000, 1203000, 1260000}
SPECIFICATION Spec
INVARIANT NonEmpty
INVARIANT TwoIffTie
INVARIANT Monotone
INVARIANT ExactOnGrid
INVARIANT ZeroIsZero
CONSTRAINT Emit
CHECK_DEADLOCK FALSE
