------------------------------ MODULE AsmSyntax ------------------------------
(***************************************************************************)
(* Surface syntax of assembly operands (x86 AT&T and AArch64) as an        *)
(* abstract AST, and Canon: the denotation a parser must return for it     *)
(* (properties C09 and C10, operand level).                                 *)
(*                                                                         *)
(* An AST says what was WRITTEN (spelling choices included: number base,   *)
(* sign, '#', omitted scale, list vs. range, shift amount); Canon says     *)
(* what it MEANS (integer value, scale 1 when omitted, 2^n for a shift by  *)
(* n, the members of a list/range, ...).  The harness renders ASTs to text *)
(* with many layouts and projects what the real parser returns; expected   *)
(* values are always computed here.                                        *)
(*                                                                         *)
(* Numbers: TLC integers are 32 bit, immediates are up to 64 bit.  A       *)
(* written number is a sequence of digits (most significant first) in base *)
(* 10 or 16; its value is computed on little-endian decimal digit          *)
(* sequences and exchanged as a decimal STRING ("-255"), which the         *)
(* projection obtains with str(int).                                       *)
(*                                                                         *)
(* Every value is uniformly typed: records carry a kind field k, a field   *)
(* name always has the same type, options are "" / -1 / <<>> sentinels.    *)
(***************************************************************************)
EXTENDS RegAlias, Integers   \* RegAlias: register files of both ISAs (and Naturals, Sequences, FiniteSets, TLC, Json, CSV, IOUtils)

\* ------------------------------------------------------------------ numbers
RECURSIVE MulAdd(_, _, _)
\* v*m + c on little-endian decimal digit sequences (no high zeros; <<>> is 0)
MulAdd(v, m, c) ==
  IF v = <<>> THEN (IF c = 0 THEN <<>> ELSE <<c % 10>> \o MulAdd(<<>>, m, c \div 10))
  ELSE LET t == Head(v) * m + c IN <<t % 10>> \o MulAdd(Tail(v), m, t \div 10)

RECURSIVE FromDigits(_, _, _)
\* value of the digit sequence ds (most significant first) in base b, accumulated on acc
FromDigits(ds, b, acc) ==
  IF ds = <<>> THEN acc ELSE FromDigits(Tail(ds), b, MulAdd(acc, b, Head(ds)))

RECURSIVE LEToStr(_)
LEToStr(v) == IF v = <<>> THEN "" ELSE LEToStr(Tail(v)) \o ToString(Head(v))

RECURSIVE DigitsToStr(_)
DigitsToStr(ds) == IF ds = <<>> THEN "" ELSE ToString(Head(ds)) \o DigitsToStr(Tail(ds))

\* decimal string of (-1)^neg * value(ds in base b);  -0 = 0
IntStr(neg, ds, b) ==
  LET v == FromDigits(ds, b, <<>>) IN
  IF v = <<>> THEN "0" ELSE (IF neg THEN "-" ELSE "") \o LEToStr(v)

RECURSIVE Pow2(_)
Pow2(n) == IF n = 0 THEN 1 ELSE 2 * Pow2(n - 1)

RECURSIVE StripLeadingZeros(_)
StripLeadingZeros(ds) == IF ds # <<>> /\ Head(ds) = 0 THEN StripLeadingZeros(Tail(ds)) ELSE ds
RECURSIVE StripTrailingZeros(_)
StripTrailingZeros(ds) ==
  IF ds # <<>> /\ ds[Len(ds)] = 0 THEN StripTrailingZeros(SubSeq(ds, 1, Len(ds) - 1)) ELSE ds

\* magnitudes written in both bases (hand-written table; HexDecAgree in MC_AsmSyntax checks the
\* arithmetic above against it).  big: above 2^63, never written with a minus sign.
NumMags == {
    [dec |-> <<0>>, hex |-> <<0>>, big |-> FALSE],
    [dec |-> <<1>>, hex |-> <<1>>, big |-> FALSE],
    [dec |-> <<9>>, hex |-> <<9>>, big |-> FALSE],
    [dec |-> <<1, 0>>, hex |-> <<10>>, big |-> FALSE],
    [dec |-> <<1, 5>>, hex |-> <<0, 15>>, big |-> FALSE],
    [dec |-> <<2, 5, 5>>, hex |-> <<15, 15>>, big |-> FALSE],
    [dec |-> <<2, 5, 6>>, hex |-> <<1, 0, 0>>, big |-> FALSE],
    [dec |-> <<4, 0, 9, 6>>, hex |-> <<1, 0, 0, 0>>, big |-> FALSE],
    [dec |-> <<6, 5, 5, 3, 5>>, hex |-> <<15, 15, 15, 15>>, big |-> FALSE],
    [dec |-> <<2, 1, 4, 7, 4, 8, 3, 6, 4, 7>>, hex |-> <<7, 15, 15, 15, 15, 15, 15, 15>>, big |-> FALSE],
    [dec |-> <<2, 1, 4, 7, 4, 8, 3, 6, 4, 8>>, hex |-> <<8, 0, 0, 0, 0, 0, 0, 0>>, big |-> FALSE],
    [dec |-> <<4, 2, 9, 4, 9, 6, 7, 2, 9, 5>>, hex |-> <<15, 15, 15, 15, 15, 15, 15, 15>>, big |-> FALSE],
    [dec |-> <<4, 2, 9, 4, 9, 6, 7, 2, 9, 6>>, hex |-> <<1, 0, 0, 0, 0, 0, 0, 0, 0>>, big |-> FALSE],
    [dec |-> <<9, 2, 2, 3, 3, 7, 2, 0, 3, 6, 8, 5, 4, 7, 7, 5, 8, 0, 7>>, hex |-> <<7, 15, 15, 15, 15, 15, 15, 15, 15, 15, 15, 15, 15, 15, 15, 15>>, big |-> FALSE],
    [dec |-> <<9, 2, 2, 3, 3, 7, 2, 0, 3, 6, 8, 5, 4, 7, 7, 5, 8, 0, 8>>, hex |-> <<8, 0, 0, 0, 0, 0, 0, 0, 0, 0, 0, 0, 0, 0, 0, 0>>, big |-> FALSE],
    [dec |-> <<1, 8, 4, 4, 6, 7, 4, 4, 0, 7, 3, 7, 0, 9, 5, 5, 1, 6, 1, 5>>, hex |-> <<15, 15, 15, 15, 15, 15, 15, 15, 15, 15, 15, 15, 15, 15, 15, 15>>, big |-> TRUE],
    [dec |-> <<1, 3, 1, 1, 7, 6, 8, 4, 6, 7, 4, 6, 3, 7, 9, 0, 3, 2, 0>>, hex |-> <<1, 2, 3, 4, 5, 6, 7, 8, 9, 10, 11, 12, 13, 14, 15, 0>>, big |-> FALSE] }

\* a written number: sign, base, digits
Num(neg, b, ds) == [neg |-> neg, base |-> b, ds |-> ds]
WrittenNums == { Num(n, b, IF b = 10 THEN m.dec ELSE m.hex) :
                   n \in BOOLEAN, b \in {10, 16}, m \in { x \in NumMags : ~x.big } }
              \cup { Num(FALSE, b, IF b = 10 THEN m.dec ELSE m.hex) : b \in {10, 16}, m \in { x \in NumMags : x.big } }
NumVal(n) == IntStr(n.neg, n.ds, n.base)

\* ================================================================== x86 AT&T
\* AST kinds:
\*   [k:"reg", name]                                   %name
\*   [k:"imm", neg, base, ds]                          $[-][0x]digits
\*   [k:"immsym", name]                                $symbol
\*   [k:"sym", name]                                   symbol (jump/call target; first operand only)
\*   [k:"mem", disp: <<>> | <<[k:"num",neg,base,ds]>> | <<[k:"sym",name]>>,
\*             base: <<>> | <<name>>, index: <<>> | <<name>>, scale: 0 (omitted) | 1 | 2 | 4 | 8]
\*       disp(base,index,scale); a displacement-only reference has no parenthesised spelling:
\*       it is the bare non-negative number.
X86RegNames == { r.name : r \in X86Regs }
X86Syms == {".L3", "foo", "_Z3barv", "..B1.4", ".LBB0_2"}
X86RegOps == { [k |-> "reg", name |-> n] : n \in X86RegNames }
X86ImmOps == { [k |-> "imm", neg |-> n.neg, base |-> n.base, ds |-> n.ds] : n \in WrittenNums }
           \cup { [k |-> "immsym", name |-> s] : s \in {".LC0", "foo"} }
X86SymOps == { [k |-> "sym", name |-> s] : s \in X86Syms }

DNum(neg, b, ds) == [k |-> "num", neg |-> neg, base |-> b, ds |-> ds]
X86DispPos == { DNum(FALSE, 10, <<0>>), DNum(FALSE, 10, <<8>>), DNum(FALSE, 16, <<1, 0>>),
                DNum(FALSE, 10, <<2, 1, 4, 7, 4, 8, 3, 6, 4, 7>>) }
X86DispNeg == { DNum(TRUE, 10, <<1, 2, 8>>), DNum(TRUE, 16, <<8>>) }
X86DispSym == { [k |-> "sym", name |-> ".LC1"] }
X86Bases == {"rax", "rsp", "r13", "ebx"}
X86Indexes == {"rcx", "r12"}
X86Scales == {0, 1, 2, 4, 8}
XMem(d, b, i, s) == [k |-> "mem", disp |-> d, base |-> b, index |-> i, scale |-> s]
X86MemOps ==
     { XMem(<<>>, <<b>>, <<>>, 0) : b \in X86Bases }                                             \* (b)
  \cup { XMem(<<>>, <<>>, <<i>>, s) : i \in X86Indexes, s \in X86Scales }                        \* (,i,s)
  \cup { XMem(<<d>>, <<>>, <<>>, 0) : d \in X86DispPos }                                         \* d
  \cup { XMem(<<d>>, <<b>>, <<>>, 0) : d \in X86DispPos \cup X86DispNeg, b \in X86Bases }        \* d(b)
  \cup { XMem(<<d>>, <<"rip">>, <<>>, 0) : d \in X86DispSym }                                    \* sym(%rip)
  \cup { XMem(<<d>>, <<>>, <<i>>, s) : d \in X86DispPos \cup X86DispNeg, i \in X86Indexes, s \in X86Scales }
  \cup { XMem(<<>>, <<b>>, <<i>>, s) : b \in X86Bases, i \in X86Indexes, s \in X86Scales }
  \cup { XMem(<<d>>, <<b>>, <<i>>, s) : d \in X86DispPos \cup X86DispNeg \cup X86DispSym,
                                          b \in X86Bases, i \in X86Indexes, s \in X86Scales }
X86Lattice == X86RegOps \cup X86ImmOps \cup X86SymOps \cup X86MemOps

XCanonDisp(d) == IF d.k = "num" THEN [k |-> "imm", val |-> NumVal(d)] ELSE [k |-> "ident", name |-> d.name]
\* one written operand -> sequence of returned operands (always one on x86)
CanonX86(op) ==
  CASE op.k = "reg"    -> << [k |-> "reg", name |-> op.name] >>
    [] op.k = "imm"    -> << [k |-> "imm", val |-> NumVal(op)] >>
    [] op.k = "immsym" -> << [k |-> "ident", name |-> op.name] >>
    [] op.k = "sym"    -> << [k |-> "ident", name |-> op.name] >>
    [] op.k = "mem"    -> << [k |-> "mem",
                              disp  |-> IF op.disp = <<>> THEN <<>> ELSE << XCanonDisp(op.disp[1]) >>,
                              base  |-> op.base, index |-> op.index,
                              scale |-> IF op.scale = 0 THEN 1 ELSE op.scale] >>

\* The statement leaves one reading open: a bare decimal number in FIRST operand position is
\* also a numeric local-label reference ("labels"), so the identifier reading is accepted there.
XDispOnlyDec(op) == op.k = "mem" /\ op.base = <<>> /\ op.index = <<>> /\ op.disp # <<>>
                    /\ op.disp[1].k = "num" /\ op.disp[1].base = 10 /\ ~op.disp[1].neg
AltX86(op, pos) ==
  IF pos = 1 /\ XDispOnlyDec(op) THEN { << [k |-> "ident", name |-> DigitsToStr(op.disp[1].ds)] >> } ELSE {}

\* ================================================================== AArch64
\* AST kinds:
\*   [k:"reg", prefix, num (-1 for sp/zr), name ("" | "sp" | "zr"), lanes ("" | "2"..), shape ("" | "d"..),
\*             index (-1 | n), pred ("" | "z" | "m")]      x0  wzr  sp  v1.2d  v1.s[1]  z3.d  p0/z  p1.b
\*   [k:"list",  elems: <<reg,...>>, index]                { a, b, ... }[index]
\*   [k:"range", first: reg, count, index]                 { first - last }[index]
\*   [k:"imm", hash, neg, base, ds]                        [#][-][0x]digits
\*   [k:"fimm", hash, neg, ip, fp, hasexp, eneg, e]        [#][-]ip.fp[e(+|-)e]
\*   [k:"cond", cc (upper case), lower]                    eq / EQ
\*   [k:"sym", name]
\*   [k:"mem", base: reg, off: <<>> | <<[hash,neg,base,ds]>>, idx: <<>> | <<reg>>, ext ("" | "lsl" | "sxtw" | "uxtw"),
\*             amt (-1 | 0..4), mode ("plain" | "pre" | "post"), post: <<>> | <<[hash,neg,base,ds]>>]
AReg(p, n, nm, l, s, i, pr) ==
  [k |-> "reg", prefix |-> p, num |-> n, name |-> nm, lanes |-> l, shape |-> s, index |-> i, pred |-> pr]
Scalar(p, n) == AReg(p, n, "", "", "", -1, "")
ARegName(r) == IF r.num >= 0 THEN ToString(r.num) ELSE r.name
\* what the parser must return for a written register: sp is the 64-bit stack pointer x/sp,
\* wsp its 32-bit view, xzr/wzr the zero registers
CanonReg(r) ==
  [k |-> "reg", prefix |-> IF r.prefix = "" THEN "x" ELSE r.prefix, name |-> ARegName(r),
   lanes |-> r.lanes, shape |-> r.shape, index |-> r.index, pred |-> r.pred]
RegPN(r) == [prefix |-> IF r.prefix = "" THEN "x" ELSE r.prefix, name |-> ARegName(r)]

Arrangements == { <<"8", "b">>, <<"16", "b">>, <<"4", "h">>, <<"8", "h">>, <<"2", "s">>, <<"4", "s">>,
                  <<"1", "d">>, <<"2", "d">> }
A64ScalarOps == { Scalar(p, n) : p \in {"x", "w"}, n \in 0..30 }
             \cup { Scalar(p, n) : p \in {"b", "h", "s", "d", "q"}, n \in 0..31 }
             \cup { AReg("", -1, "sp", "", "", -1, ""), AReg("w", -1, "sp", "", "", -1, ""),
                    AReg("x", -1, "zr", "", "", -1, ""), AReg("w", -1, "zr", "", "", -1, "") }
VecNums == {0, 7, 31}
A64VectorOps == { AReg("v", n, "", a[1], a[2], -1, "") : n \in VecNums, a \in Arrangements }
             \cup { AReg("v", n, "", "", s, i, "") : n \in VecNums, s \in {"b", "h", "s", "d"}, i \in {0, 1, 3} }
A64SveOps == { AReg("z", n, "", "", s, -1, "") : n \in {0, 15, 31}, s \in {"", "b", "h", "s", "d"} }
          \cup { AReg("p", n, "", "", "", -1, pr) : n \in {0, 7, 15}, pr \in {"", "z", "m"} }
          \cup { AReg("p", n, "", "", s, -1, "") : n \in {0, 7, 15}, s \in {"b", "h", "s", "d"} }

RECURSIVE Consecutive(_, _, _)
\* count registers like r with numbers r.num, r.num+1, ...
Consecutive(r, count, ix) ==
  IF count = 0 THEN <<>>
  ELSE << [r EXCEPT !.index = ix] >> \o Consecutive([r EXCEPT !.num = r.num + 1], count - 1, ix)
ListElems == { AReg("v", 0, "", "2", "d", -1, ""), AReg("v", 28, "", "4", "s", -1, ""),
               AReg("v", 4, "", "16", "b", -1, ""), AReg("z", 0, "", "", "d", -1, "") }
LaneElems == { AReg("v", 0, "", "", "s", -1, ""), AReg("v", 16, "", "", "b", -1, "") }
A64ListOps ==
     { [k |-> "list", elems |-> Consecutive(e, c, -1), index |-> -1] : e \in ListElems, c \in 1..4 }
  \cup { [k |-> "range", first |-> e, count |-> c, index |-> -1] : e \in ListElems, c \in 2..4 }
  \cup { [k |-> "list", elems |-> Consecutive(e, c, -1), index |-> i] : e \in LaneElems, c \in 1..4, i \in {0, 3} }
  \cup { [k |-> "range", first |-> e, count |-> c, index |-> i] : e \in LaneElems, c \in 2..4, i \in {1} }

HNum(h, n) == [hash |-> h, neg |-> n.neg, base |-> n.base, ds |-> n.ds]
A64ImmOps == { [k |-> "imm", hash |-> h, neg |-> n.neg, base |-> n.base, ds |-> n.ds] : h \in BOOLEAN, n \in WrittenNums }
FImm(h, neg, ip, fp, he, en, e) ==
  [k |-> "fimm", hash |-> h, neg |-> neg, ip |-> ip, fp |-> fp, hasexp |-> he, eneg |-> en, e |-> e]
A64FImmOps == { FImm(h, n, m[1], m[2], FALSE, FALSE, 0) : h \in BOOLEAN, n \in BOOLEAN,
                   m \in { <<<<1>>, <<5>>>>, <<<<0>>, <<2, 5>>>>, <<<<3, 1>>, <<0>>>>, <<<<2>>, <<0, 0>>>>, <<<<0>>, <<0>>>> } }
           \cup { FImm(h, n, m[1], m[2], TRUE, en, e) : h \in BOOLEAN, n \in BOOLEAN, en \in BOOLEAN, e \in {0, 1, 3},
                   m \in { <<<<1>>, <<0>>>>, <<<<2>>, <<5>>>>, <<<<1, 0>>, <<0, 1, 0>>>> } }
CondCodes == {"EQ", "NE", "CS", "HS", "CC", "LO", "MI", "PL", "VS", "VC", "HI", "LS", "GE", "LT", "GT", "LE"}
A64CondOps == { [k |-> "cond", cc |-> c, lower |-> l] : c \in CondCodes, l \in BOOLEAN }
A64Syms == {".L4", "loop", ".LBB0_3", "_start", "kernel.end"}
A64SymOps == { [k |-> "sym", name |-> s] : s \in A64Syms }

AMem(b, o, i, x, a, m, p) ==
  [k |-> "mem", base |-> b, off |-> o, idx |-> i, ext |-> x, amt |-> a, mode |-> m, post |-> p]
A64Bases == { Scalar("x", 0), Scalar("x", 17), AReg("", -1, "sp", "", "", -1, "") }
A64Offs == { HNum(h, Num(n, b, ds)) : h \in BOOLEAN,
               n \in {FALSE}, b \in {10}, ds \in { <<0>>, <<1, 6>>, <<4, 0, 9, 5>>, <<3, 2, 7, 6, 0>> } }
        \cup { HNum(TRUE, Num(TRUE, 10, <<1, 6>>)), HNum(FALSE, Num(TRUE, 10, <<2, 5, 6>>)),
               HNum(TRUE, Num(FALSE, 16, <<1, 0>>)), HNum(TRUE, Num(TRUE, 16, <<0, 8>>)) }
A64Posts == { HNum(TRUE, Num(FALSE, 10, <<1, 6>>)), HNum(FALSE, Num(FALSE, 10, <<6, 4>>)),
              HNum(TRUE, Num(TRUE, 10, <<3, 2>>)), HNum(TRUE, Num(FALSE, 16, <<4, 0>>)) }
A64MemOps ==
     { AMem(b, <<>>, <<>>, "", -1, "plain", <<>>) : b \in A64Bases }
  \cup { AMem(b, <<o>>, <<>>, "", -1, m, <<>>) : b \in A64Bases, o \in A64Offs, m \in {"plain", "pre"} }
  \cup { AMem(b, <<>>, <<>>, "", -1, "post", <<p>>) : b \in A64Bases, p \in A64Posts }
  \cup { AMem(b, <<>>, <<Scalar("x", i)>>, "", -1, "plain", <<>>) : b \in A64Bases, i \in {1, 30} }
  \cup { AMem(b, <<>>, <<Scalar("x", i)>>, "lsl", a, "plain", <<>>) : b \in A64Bases, i \in {1, 30}, a \in 0..4 }
  \cup { AMem(b, <<>>, <<Scalar("w", i)>>, x, a, "plain", <<>>) :
            b \in A64Bases, i \in {2}, x \in {"sxtw", "uxtw"}, a \in -1..4 }
A64Lattice == A64ScalarOps \cup A64VectorOps \cup A64SveOps \cup A64ListOps \cup A64ImmOps \cup A64FImmOps
              \cup A64CondOps \cup A64SymOps \cup A64MemOps

RECURSIVE CanonRegs(_)
CanonRegs(rs) == IF rs = <<>> THEN <<>> ELSE << CanonReg(Head(rs)) >> \o CanonRegs(Tail(rs))

\* normalised decimal of a written floating-point number: value = (-1)^neg * digs * 10^exp,
\* digs without leading/trailing zeros ("" for zero, then neg = FALSE and exp = 0)
CanonFImm(f) ==
  LET all   == f.ip \o f.fp
      lead  == StripLeadingZeros(all)
      core  == StripTrailingZeros(lead)
      tz    == Len(lead) - Len(core)
      e10   == (IF f.hasexp THEN (IF f.eneg THEN 0 - f.e ELSE f.e) ELSE 0) - Len(f.fp) + tz
  IN IF core = <<>> THEN [k |-> "fimm", neg |-> FALSE, digs |-> "", exp |-> 0]
     ELSE [k |-> "fimm", neg |-> f.neg, digs |-> DigitsToStr(core), exp |-> e10]

CanonA64(op) ==
  CASE op.k = "reg"   -> << CanonReg(op) >>
    [] op.k = "list"  -> CanonRegs([ i \in 1..Len(op.elems) |-> [op.elems[i] EXCEPT !.index = op.index] ])
    [] op.k = "range" -> CanonRegs(Consecutive(op.first, op.count, op.index))
    [] op.k = "imm"   -> << [k |-> "imm", val |-> NumVal(op)] >>
    [] op.k = "fimm"  -> << CanonFImm(op) >>
    [] op.k = "cond"  -> << [k |-> "cond", cc |-> op.cc] >>
    [] op.k = "sym"   -> << [k |-> "ident", name |-> op.name] >>
    [] op.k = "mem"   -> << [k |-> "mem",
                             off   |-> IF op.off = <<>> THEN "" ELSE NumVal(op.off[1]),
                             base  |-> RegPN(op.base),
                             idx   |-> IF op.idx = <<>> THEN <<>> ELSE << RegPN(op.idx[1]) >>,
                             scale |-> IF op.amt >= 0 THEN Pow2(op.amt) ELSE 1,
                             pre   |-> (op.mode = "pre"),
                             post  |-> IF op.post = <<>> THEN "" ELSE NumVal(op.post[1])] >>

\* ================================================================== both ISAs
Lattice(isa) == IF isa = "x86" THEN X86Lattice ELSE A64Lattice
CanonOp(isa, op) == IF isa = "x86" THEN CanonX86(op) ELSE CanonA64(op)
AltOp(isa, op, pos) == IF isa = "x86" THEN AltX86(op, pos) ELSE {}

RECURSIVE CanonFrom(_, _, _)
\* operands ops[i..] of an instruction -> flat sequence of returned operands
CanonFrom(isa, ops, i) ==
  IF i > Len(ops) THEN <<>> ELSE CanonOp(isa, ops[i]) \o CanonFrom(isa, ops, i + 1)
CanonOps(isa, ops) == CanonFrom(isa, ops, 1)
\* every operand sequence the statement allows for the written operands (a singleton unless the
\* first operand has a second admissible reading)
AllowedOps(isa, ops) ==
  {CanonOps(isa, ops)} \cup
  (IF ops = <<>> THEN {} ELSE { alt \o CanonFrom(isa, ops, 2) : alt \in AltOp(isa, ops[1], 1) })

=============================================================================
