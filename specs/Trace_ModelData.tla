-------------------------- MODULE Trace_ModelData --------------------------
(* Batch validation for C15 (R3): every exported entry of every shipped model file, the cost the
   real code computed for it, the --db-check counts and the entry lists of the loaded models.
   kind "entry" : an encoded entry (see ModelData.tla) + optional
                    rows  <<row per alternative>> from MachineModel.average_port_pressure
                    err   exception text raised while costing / analysing it
                    na    number of alternatives costed
   kind "counts": es = per-entry summary of one file, obs = [tp, lat, pp] printed by --db-check
   kind "loaded": exported / loaded = sorted signature lists of one file (plain YAML vs MachineModel)
   The failing clause is printed as <<"REJECT", id, clause, detail>>. *)
EXTENDS ModelData, Json, IOUtils
Cases == ndJsonDeserialize(IOEnv.CASES)
VARIABLE tid
Has(r, f) == f \in DOMAIN r

EntryClause(e) ==
  IF ~WellFormed(e) THEN <<"malformed", WfClause(e)>>
  ELSE IF HasCost(e) /\ ~CostRepresentable(e) THEN <<"unrepresentable", "">>
  ELSE IF Has(e, "err") THEN <<"cost-exception", e.err>>
  ELSE IF HasCost(e) /\ Has(e, "rows") /\ Len(e.rows) # Len(e.pp.alts) THEN <<"cost-missing", "">>
  ELSE IF HasCost(e) /\ Has(e, "rows") /\ \E a \in DOMAIN e.rows : e.rows[a] # Cost(e, a)
       THEN <<"cost-mismatch", "">>
  ELSE <<"ok", "">>
CountsClause(c) ==
  IF Has(c, "err") THEN <<"db-check-exception", c.err>>
  ELSE IF c.obs.tp # CountNoTP(c.es) THEN <<"count-throughput", ToString(CountNoTP(c.es))>>
  ELSE IF c.obs.lat # CountNoLat(c.es) THEN <<"count-latency", ToString(CountNoLat(c.es))>>
  ELSE IF c.obs.pp \notin CountNoPP(c.es) THEN <<"count-port-pressure", ToString(CountNoPP(c.es))>>
  ELSE <<"ok", "">>
LoadedClause(c) ==
  IF Has(c, "err") THEN <<"load-exception", c.err>>
  ELSE IF c.exported # c.loaded THEN <<"entries-differ", "">>
  ELSE <<"ok", "">>
Clause(c) == IF c.kind = "counts" THEN CountsClause(c)
             ELSE IF c.kind = "loaded" THEN LoadedClause(c)
             ELSE EntryClause(c)
Check == LET c == Cases[tid] cl == Clause(c) IN
         IF cl[1] = "ok" THEN TRUE ELSE PrintT(<<"REJECT", c.id, cl[1], cl[2]>>)
TraceInit == tid = 1
TraceNext == tid < Len(Cases) /\ tid' = tid + 1
TraceSpec == TraceInit /\ [][TraceNext]_tid
AllConsumed == TLCGet("stats").diameter = Len(Cases)
=============================================================================
