CONSTANTS
  N = 4
  Lats = {0, 12000, 36000}
  LoadLat = 48000
SPECIFICATION Spec
INVARIANT DeclarativeAgreesWithBruteForce
INVARIANT ValueIsLongestChain
INVARIANT MarkedIsChain
INVARIANT AtLeastEveryInstruction
INVARIANT AtLeastEveryChain
CONSTRAINT Emit
CHECK_DEADLOCK FALSE
