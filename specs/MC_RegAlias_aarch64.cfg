CONSTANT ISA = "aarch64"
SPECIFICATION Spec
INVARIANT Reflexive
INVARIANT Symmetric
INVARIANT Transitive
INVARIANT FamiliesSeparate
INVARIANT FamilySizeOk
CONSTRAINT Emit
CHECK_DEADLOCK FALSE
