CONSTANT ISA = "x86"
CONSTANT MaxPro = 2
CONSTANT MaxBody = 2
CONSTANT MaxEpi = 1
CONSTANT Styles = {"one", "sep", "split", "cmt", "mixed", "none", "startonly", "endonly"}
CONSTANT EdgeCodes = {"i", "c", "S", "B0"}
SPECIFICATION Spec
INVARIANT TypeOK
INVARIANT KernelIsStrictlyBetween
INVARIANT WholeFileOtherwise
INVARIANT DeclarativeAgrees
INVARIANT LookAlikesInert
INVARIANT StopsAtEndMarker
INVARIANT KernelHasNoMarkerLine
CONSTRAINT Emit
CHECK_DEADLOCK FALSE
