---------------------------- MODULE Trace_Partition ----------------------------
(* Batch validation of the partition sweep (C16): the real coordinator is run with virtual worker
   processes on a kernel of k lines of which the lines `cyc` are one-instruction loop-carried cycles
   (all other lines carry no dependency), for one worker count nw.  A case is
     [id, k, nw, cyc, found, seq, slices]
   found  : kernel positions of the cycles the multi-process search reported
   seq    : the same for the sequential search of the same kernel
   slices : the root positions handed to each worker, in worker order (as far as the harness could see
            them; <<>> if the code no longer passes them as a list of instruction forms)
   Level A (C16): found = seq = cyc - the result does not depend on the number of workers.
   Level B: the slices are the ones of LCDSearch!Slice (a different partition that still covers every
   root is a divergence, not a violation). *)
EXTENDS LCDSearch, Json, IOUtils
Cases == ndJsonDeserialize(IOEnv.CASES)
VARIABLE tid
ToSetS(s) == { s[i] : i \in DOMAIN s }
Check ==
  LET c == Cases[tid]
      cyc == ToSetS(c.cyc)  found == ToSetS(c.found)  seq == ToSetS(c.seq)
      specSlices == [w \in 1..c.nw |-> Slice(c.k, c.nw, w - 1)]
      a == IF seq # cyc THEN PrintT(<<"REJECT", c.id, "A:sequential-result-differs-from-construction", cyc \ seq, seq \ cyc>>)
           ELSE IF found # seq THEN PrintT(<<"REJECT", c.id, "A:result-depends-on-worker-count", seq \ found, found \ seq>>)
           ELSE IF Len(c.found) # Cardinality(found) THEN PrintT(<<"REJECT", c.id, "A:cycle-reported-twice", {}, {}>>)
           ELSE TRUE
      b == IF Len(c.slices) = 0 THEN TRUE
           ELSE IF Len(c.slices) # c.nw THEN PrintT(<<"DIVERGE", c.id, "B:worker-count", Len(c.slices), c.nw>>)
           ELSE IF \E w \in 1..c.nw : c.slices[w] # specSlices[w]
                THEN PrintT(<<"DIVERGE", c.id, "B:slices-differ-from-specification",
                              CHOOSE w \in 1..c.nw : c.slices[w] # specSlices[w], 0>>)
           ELSE TRUE
  IN a /\ b
TraceInit == tid = 1
TraceNext == tid < Len(Cases) /\ tid' = tid + 1
TraceSpec == TraceInit /\ [][TraceNext]_tid
AllConsumed == TLCGet("stats").diameter = Len(Cases)
=============================================================================
