CONSTANT NProcs = 2
CONSTANT NContents = 2
CONSTANT AtomicWrite = TRUE
CONSTANT TolerantRead = FALSE
CONSTANT ReadOnce = TRUE
CONSTANT RtServes = FALSE
CONSTANT Sequential = FALSE
CONSTANT EditWhileBusy = TRUE
CONSTANT MaxStarts = 3
CONSTANT MaxEdits = 1
CONSTANT MaxEnvs = 1
CONSTANT AllowLegacy = FALSE
CONSTANT CrashAnywhere = TRUE
CONSTANT SameProcReload = TRUE
SPECIFICATION Spec
VIEW View
INVARIANT TypeOK
INVARIANT RunNeverFails
INVARIANT ResultIsContent
INVARIANT StaleNeverServed
INVARIANT NoPartialVisible
CHECK_DEADLOCK FALSE
