-------------------------------- MODULE Osaca --------------------------------
(***************************************************************************)
(* The analysis pipeline of `osaca.osaca.inspect` as ONE state machine:    *)
(*                                                                         *)
(*   [detect] -> parser -> parse [-> parsefail -> detect -> parser ->      *)
(*         parse] -> [lines] -> select -> semantics                        *)
(*         -> (balance, balance | fixed)                                   *)
(*         -> graph (one iteration) -> graph (two iterations) -> lcd       *)
(*         -> cp* -> dict                                                  *)
(*                                                                         *)
(* Each action carries the post-condition of its stage, stated with the    *)
(* definitions of the stage specifications (Deps.tla for graph / critical  *)
(* path / loop-carried dependencies; mass conservation of the balancer;    *)
(* totals = column sums) and the cross-stage agreement that no single      *)
(* stage check can see: the stage that consumes a kernel consumes THE      *)
(* kernel the previous stage produced, the balancer runs exactly twice     *)
(* unless --fixed, the numbers of the machine-readable summary are the     *)
(* numbers the graph stage computed.                                       *)
(*                                                                         *)
(* Step(s, e) is the transition function on recorded events e; a recorded  *)
(* whole-run trace is accepted iff folding Step over it never fails.  The  *)
(* same Step defines the Next relation of MC_Osaca, where TLC explores all *)
(* orders of stage events to show that only the pipeline order is accepted.*)
(***************************************************************************)
EXTENDS Deps

Fail(why) == [stage |-> "FAILED", why |-> why]
IsFailed(s) == s.stage = "FAILED"

(* The front door (`inspect` before the first stage): which micro-         *)
(* architecture and which parser an input is analysed with.  fd is the     *)
(* recorded configuration of the run:                                      *)
(*   fd.on        FALSE: the run carries no front-door events (traces of   *)
(*                the library API), the front-door clauses are skipped     *)
(*   fd.given     the architecture named with --arch ("" if none)          *)
(*   fd.defaults  [x86 |-> .., aarch64 |-> ..] the documented defaults     *)
(*   fd.isaOf     architecture -> ISA, READ FROM THE MODEL FILES' `isa:`   *)
(*   fd.timeout   the LCD time limit of the command line                   *)
NoFD == [on |-> FALSE]
OtherIsa(i) == IF i = "x86" THEN "aarch64" ELSE "x86"

Init1(fixed, flagDeps, fd) ==
  [stage |-> "init", why |-> "", fixed |-> fixed, flagDeps |-> flagDeps, fd |-> fd,
   detected |-> "", arch |-> "", isa |-> "", retried |-> FALSE, timedOut |-> FALSE, allLines |-> FALSE,
   parsed |-> {}, wanted |-> {}, haveWanted |-> FALSE, kernel |-> <<>>,
   rows |-> <<>>, tp |-> <<>>, lat |-> <<>>, latwo |-> <<>>, lds |-> <<>>, nports |-> 0,
   nbal |-> 0, g1 |-> [n |-> 0], g2 |-> [n |-> 0], cyc |-> {}, lcdMax |-> 0, cp |-> -1, cpMarked |-> {}]
Init0(fixed, flagDeps) == Init1(fixed, flagDeps, NoFD)

Sum(seq) == LET RECURSIVE S(_)
                S(i) == IF i > Len(seq) THEN 0 ELSE seq[i] + S(i + 1)
            IN S(1)
Abs(x) == IF x < 0 THEN -x ELSE x
StrictlyIncreasing(seq) == \A i \in 1..(Len(seq) - 1) : seq[i] < seq[i + 1]
\* units: 1/12000 cycle; the balancer moves 0.01 cy = 120 units per step
Step01 == 120
Eps == 2            \* float noise after projection to the lattice
\* round to a multiple of 0.01 cycle: both neighbours admitted within Eps of a tie
Round2Set(x) == LET lo == (x \div Step01) * Step01  r == x - lo IN
                (IF r <= Step01 \div 2 + Eps THEN {lo} ELSE {})
           \cup (IF r >= Step01 \div 2 - Eps THEN {lo + Step01} ELSE {})

\* index of a line number in the kernel (0 if absent)
Idx(kernel, ln) == IF \E i \in DOMAIN kernel : kernel[i] = ln
                   THEN CHOOSE i \in DOMAIN kernel : kernel[i] = ln ELSE 0

GraphFromEvent(s, e, n, off) ==
  \* nodes of the second iteration carry line number + off
  LET ix(ln) == IF Idx(s.kernel, ln) > 0 THEN Idx(s.kernel, ln)
                ELSE IF Idx(s.kernel, ln - off) > 0 THEN Idx(s.kernel, ln - off) + Len(s.kernel) ELSE 0
      E == { <<ix(e.E[i][1]), ix(e.E[i][2])>> : i \in DOMAIN e.E }
      w == [p \in E |-> LET i == CHOOSE i \in DOMAIN e.E : <<ix(e.E[i][1]), ix(e.E[i][2])>> = p IN e.E[i][3]]
      rep(q) == IF n = Len(s.kernel) THEN q ELSE q \o q
  IN [n |-> n, E |-> E, w |-> w, lat |-> rep(s.lat), latwo |-> rep(s.latwo), lds |-> rep(s.lds)]

Step(s, e) ==
  IF IsFailed(s) THEN s
  ELSE CASE e.ev = "detect" ->     \* ISA heuristics: only consulted when no architecture was named
         IF ~s.fd.on THEN s
         ELSE IF s.stage \notin {"init", "parsefail"} THEN Fail("order:detect-out-of-order")
         ELSE IF e.isa \notin {"x86", "aarch64"} THEN Fail("frontdoor-detected-unknown-isa")
         ELSE IF s.detected # "" /\ e.isa # s.detected THEN Fail("frontdoor-detection-not-a-function-of-the-file")
         ELSE [s EXCEPT !.detected = e.isa]
    [] e.ev = "parser" ->     \* the parser is chosen for an architecture
         IF ~s.fd.on THEN s
         \* one choice per attempt: before the first parse, and once more after a failed parse
         ELSE IF ~((s.stage = "init" /\ s.arch = "") \/ s.stage = "parsefail") THEN Fail("order:parser-out-of-order")
         ELSE IF e.arch \notin DOMAIN s.fd.isaOf THEN Fail("frontdoor-parser-for-unknown-arch")
         ELSE IF s.fd.given # "" /\ e.arch # s.fd.given THEN Fail("frontdoor-parser-not-for-named-arch")
         ELSE IF s.fd.given = "" /\ s.detected = "" THEN Fail("frontdoor-default-arch-without-detection")
         ELSE IF s.fd.given = "" /\ s.stage = "init" /\ e.arch # s.fd.defaults[s.detected]
              THEN Fail("frontdoor-default-arch-not-for-detected-isa")
         ELSE IF s.fd.given = "" /\ s.stage = "parsefail" /\ e.arch # s.fd.defaults[OtherIsa(s.detected)]
              THEN Fail("frontdoor-retry-not-with-other-isa")
         ELSE IF e.isa # s.fd.isaOf[e.arch] THEN Fail("frontdoor-parser-isa-differs-from-model-isa")
         ELSE [s EXCEPT !.arch = e.arch, !.isa = e.isa, !.stage = "init"]
    [] e.ev = "parsefail" ->  \* the parser raised: one retry with the other ISA, only for a guessed architecture
         IF ~s.fd.on THEN s
         ELSE IF s.stage # "init" \/ s.arch = "" THEN Fail("order:parsefail-out-of-order")
         ELSE IF s.fd.given # "" THEN Fail("frontdoor-retry-although-arch-named")
         ELSE IF s.retried THEN Fail("frontdoor-second-retry")
         ELSE [s EXCEPT !.stage = "parsefail", !.retried = TRUE]
    [] e.ev = "parse" ->
         IF s.stage # "init" THEN Fail("order:parse-out-of-order")
         ELSE IF s.fd.on /\ s.arch = "" THEN Fail("order:parse-before-parser-chosen")
         ELSE IF s.fd.on /\ e.isa # s.isa THEN Fail("frontdoor-parsed-with-other-parser")
         ELSE IF ~StrictlyIncreasing(e.lines) THEN Fail("parsed-lines-not-increasing")
         ELSE [s EXCEPT !.stage = "parsed", !.parsed = ToSet(e.lines)]
    [] e.ev = "lines" ->
         IF s.stage # "parsed" THEN Fail("order:lines-out-of-order")
         ELSE [s EXCEPT !.wanted = ToSet(e.wanted), !.haveWanted = TRUE]
    [] e.ev = "select" ->      \* marker / whole-file selection
         IF s.stage # "parsed" \/ s.haveWanted THEN Fail("order:select-out-of-order")
         ELSE IF ~(ToSet(e.kernel) \subseteq s.parsed) THEN Fail("kernel-not-from-parsed-file")
         ELSE IF ~StrictlyIncreasing(e.kernel) THEN Fail("kernel-order")
         ELSE IF s.fd.on /\ e.isa # s.isa THEN Fail("frontdoor-markers-of-other-isa")
         ELSE [s EXCEPT !.stage = "selected", !.kernel = e.kernel, !.allLines = (ToSet(e.kernel) = s.parsed)]
    [] e.ev = "semantics" ->
         IF ~(s.stage = "selected" \/ (s.stage = "parsed" /\ s.haveWanted)) THEN Fail("order:semantics-out-of-order")
         ELSE IF s.stage = "selected" /\ e.kernel # s.kernel THEN Fail("semantics-on-different-kernel")
         ELSE IF s.haveWanted /\ ToSet(e.kernel) # (s.wanted \cap s.parsed) THEN Fail("lines-selection-not-exact")
         ELSE IF \E i \in DOMAIN e.rows : Len(e.rows[i]) # e.ports THEN Fail("row-width")
         \* "?": the recorder could not tell which model file the semantics work with (no claim then)
         ELSE IF s.fd.on /\ e.arch # "?" /\ e.arch # s.arch THEN Fail("frontdoor-model-differs-from-parser-arch")
         ELSE IF s.fd.on /\ e.isa # s.isa THEN Fail("frontdoor-model-isa-differs-from-parser-isa")
         ELSE [s EXCEPT !.stage = "semantics", !.kernel = e.kernel, !.rows = e.rows, !.tp = e.tp,
                        !.lat = e.lat, !.latwo = e.latwo, !.lds = e.lds, !.nports = e.ports]
    [] e.ev = "balance" ->
         IF ~(s.stage \in {"semantics", "balanced"}) THEN Fail("order:balance-out-of-order")
         ELSE IF Len(e.rows) # Len(s.rows) THEN Fail("balance-changed-kernel")
         ELSE IF \E i \in DOMAIN e.rows :
                   \* up to the 0.01-cycle granularity of the balancing steps (C01 states the exact bound
                   \* per instruction; here only gross loss or invention of cycles is rejected)
                   Abs(Sum(e.rows[i]) - Sum(s.rows[i])) > Step01 * 6 + Eps * s.nports
              THEN Fail("balance-does-not-conserve-cycles")
         ELSE IF \E i \in DOMAIN e.rows : \E p \in DOMAIN e.rows[i] :
                   e.rows[i][p] < -(Step01 * 6 + Eps) THEN Fail("balance-negative-pressure")
         ELSE [s EXCEPT !.stage = "balanced", !.rows = e.rows, !.nbal = s.nbal + 1]
    [] e.ev = "graph" ->
         IF s.stage \in {"semantics", "balanced"} THEN     \* first graph: one iteration
              IF e.nodes # s.kernel THEN Fail("graph-on-different-kernel")
              ELSE IF e.flagDeps # s.flagDeps THEN Fail("flag-dependencies-option-not-honoured")
              ELSE LET g == GraphFromEvent(s, e, Len(s.kernel), 0) IN
                   IF \E p \in g.E : p[1] = 0 \/ p[2] = 0 \/ ~(p[1] < p[2]) THEN Fail("graph-edge-not-forward")
                   ELSE [s EXCEPT !.stage = "graph1", !.g1 = g]
         ELSE IF s.stage = "graph1" THEN                    \* second graph: two iterations
              LET n == Len(s.kernel)
                  off == IF Len(e.nodes) = 2 * n /\ n > 0 THEN e.nodes[n + 1] - e.nodes[1] ELSE 0
                  g == GraphFromEvent(s, e, 2 * n, off) IN
              IF Len(e.nodes) # 2 * n THEN Fail("doubled-kernel-length")
              ELSE IF e.flagDeps # s.flagDeps THEN Fail("flag-dependencies-option-not-honoured")
              ELSE IF \E i \in 1..n : e.nodes[i] # s.kernel[i] \/ e.nodes[n + i] # s.kernel[i] + off THEN Fail("doubled-kernel-nodes")
              ELSE IF \E p \in g.E : p[1] = 0 \/ p[2] = 0 THEN Fail("doubled-graph-unknown-node")
              ELSE IF ~Periodic(g, n) THEN Fail("doubled-graph-not-periodic")
              ELSE IF { p \in g.E : p[2] <= n } # s.g1.E THEN Fail("doubled-graph-differs-from-graph")
              ELSE [s EXCEPT !.stage = "graph2", !.g2 = g]
         ELSE Fail("order:graph-out-of-order")
    [] e.ev = "lcd" ->
         IF s.stage # "graph2" THEN Fail("order:lcd-out-of-order")
         ELSE LET n == Len(s.kernel)
                  obs == { { Idx(s.kernel, e.lcd[i][2][j]) : j \in DOMAIN e.lcd[i][2] } : i \in DOMAIN e.lcd }
                  exp == Cycles(s.g2, n)
                  lats == { e.lcd[i][1] : i \in DOMAIN e.lcd } IN
              IF \E S \in obs : 0 \in S THEN Fail("lcd-member-not-in-kernel")
              ELSE IF ~(obs \subseteq exp) THEN Fail("lcd-not-a-cycle")
              ELSE IF ~e.timedOut /\ obs # exp THEN Fail("lcd-missing")
              ELSE IF Len(e.lcd) # Cardinality(obs) THEN Fail("lcd-duplicate")
              ELSE IF \E i \in DOMAIN e.lcd :
                        e.lcd[i][1] # CycleLat(s.g2, n, { Idx(s.kernel, e.lcd[i][2][j]) : j \in DOMAIN e.lcd[i][2] })
                   THEN Fail("lcd-latency")
              ELSE IF s.fd.on /\ e.timeout # s.fd.timeout THEN Fail("order:lcd-search-called-with-other-limit")   \* how the limit is handed on is the code's business (C19 judges the effect)
              ELSE [s EXCEPT !.stage = "lcd", !.cyc = obs, !.lcdMax = IF lats = {} THEN 0 ELSE Max(lats),
                             !.timedOut = e.timedOut]
    [] e.ev = "cp" ->
         IF ~(s.stage \in {"lcd", "cp"}) THEN Fail("order:cp-out-of-order")
         ELSE LET total == Sum([i \in DOMAIN e.cells |-> e.cells[i][2]])
                  marked == Asc({ Idx(s.kernel, e.marked[i]) : i \in DOMAIN e.marked }) IN
              IF Len(s.kernel) = 0 THEN [s EXCEPT !.stage = "cp", !.cp = total]
              ELSE IF total \notin CPAllowed(s.g1) THEN Fail("cp-value")
              ELSE IF Len(marked) = 0 \/ marked[1] = 0 \/ ~IsChain(s.g1, marked) THEN Fail("cp-marked-not-chain")
              ELSE IF s.cp >= 0 /\ s.cp # total THEN Fail("cp-not-stable-across-calls")
              ELSE [s EXCEPT !.stage = "cp", !.cp = total,
                             !.cpMarked = { Idx(s.kernel, e.marked[i]) : i \in DOMAIN e.marked }]
    [] e.ev = "dict" ->
         IF s.stage # "cp" THEN Fail("order:report-out-of-order")
         ELSE IF e.cp # s.cp THEN Fail("summary-cp-differs-from-graph-stage")
         ELSE IF e.lcd # s.lcdMax THEN Fail("summary-lcd-differs-from-graph-stage")
         ELSE IF Len(e.totals) # s.nports THEN Fail("summary-ports")
         ELSE IF \E p \in 1..s.nports :
                   LET col == Sum([i \in DOMAIN s.rows |-> IF s.tp[i] # 0 THEN s.rows[i][p] ELSE 0]) IN
                   (\E i \in DOMAIN s.rows : s.tp[i] # 0) /\ e.totals[p] \notin Round2Set(col)
              THEN Fail("summary-total-not-column-sum")
         \* the user warnings state how the run came about
         ELSE IF s.fd.on /\ (("ArchWarning" \in ToSet(e.warnings)) # (s.fd.given = ""))
              THEN Fail("frontdoor-warning-arch")
         ELSE IF s.fd.on /\ (("LengthWarning" \in ToSet(e.warnings))
                              # (~s.haveWanted /\ s.allLines /\ Len(s.kernel) > 100))
              THEN Fail("frontdoor-warning-length")
         ELSE IF s.fd.on /\ (("LCDWarning" \in ToSet(e.warnings)) # s.timedOut)
              THEN Fail("frontdoor-warning-lcd")
         ELSE IF s.fd.on /\ e.target # s.arch THEN Fail("frontdoor-report-names-other-arch")
         ELSE [s EXCEPT !.stage = "reported"]
    [] e.ev = "report" ->      \* the text report, parsed back: CP and LCD columns
         IF s.stage # "reported" THEN Fail("order:report-out-of-order")
         ELSE LET n == Len(s.kernel)
                  lcdMarked == { Idx(s.kernel, e.lcdMarked[i]) : i \in DOMAIN e.lcdMarked }
                  cpMarked == { Idx(s.kernel, e.cpMarked[i]) : i \in DOMAIN e.cpMarked }
                  longest == { S \in s.cyc : CycleLat(s.g2, n, S) = s.lcdMax } IN
              IF s.cyc = {} /\ lcdMarked # {} THEN Fail("lcd-column-marked-without-cycle")
              ELSE IF s.cyc # {} /\ lcdMarked \notin longest THEN Fail("lcd-column-not-a-longest-cycle")
              ELSE IF cpMarked # s.cpMarked THEN Fail("cp-column-differs-from-critical-path")
              ELSE s
    [] OTHER -> Fail("order:unknown-event")

RECURSIVE Fold(_, _, _)
Fold(s, evs, i) == IF i > Len(evs) \/ IsFailed(s) THEN s
                   ELSE LET t == Step(s, evs[i]) IN
                        IF t.stage = "FAILED" THEN t ELSE Fold(t, evs, i + 1)   \* forces t before recursing
RunTraceFD(fixed, flagDeps, fd, evs) ==
  LET s == Fold(Init1(fixed, flagDeps, fd), evs, 1) IN
  IF IsFailed(s) THEN s.why
  ELSE IF s.stage # "reported" THEN "order:pipeline-incomplete"
  \* how often the balancer is invoked is the algorithm's business (Level B): reported as a
  \* conformance divergence by the harness, never as a violation
  ELSE IF ~s.fixed /\ s.nbal # 2 THEN "order:balancer-not-run-twice"
  ELSE IF s.fixed /\ s.nbal # 0 THEN "order:balanced-although-fixed"
  ELSE "ok"
RunTrace(fixed, flagDeps, evs) == RunTraceFD(fixed, flagDeps, NoFD, evs)
=============================================================================
