------------------------------ MODULE RegAlias ------------------------------
(***************************************************************************)
(* Architectural register files of x86-64 and AArch64 and the overlap      *)
(* ("dependence") relation between register names (property C12; used by   *)
(* Deps/MemDeps for C03-C06, C14).                                          *)
(*                                                                         *)
(* A register name denotes a piece of architectural state.  Two names are  *)
(* dependent iff they denote overlapping state, i.e. iff they belong to    *)
(* the same family.  Family is a total function on names, so dependence is *)
(* an equivalence relation by construction; the scan state machine below   *)
(* lets TLC check reflexivity, symmetry and transitivity on the complete   *)
(* register file and enumerate the table that is replayed on the code.     *)
(***************************************************************************)
EXTENDS Naturals, Sequences, FiniteSets, TLC, Json, CSV, IOUtils

\* ---------------------------------------------------------------- x86-64
LegacyABCD == <<"a", "b", "c", "d">>
X86Names ==
  [ a  |-> <<"rax", "eax", "ax", "al", "ah">>,
    b  |-> <<"rbx", "ebx", "bx", "bl", "bh">>,
    c  |-> <<"rcx", "ecx", "cx", "cl", "ch">>,
    d  |-> <<"rdx", "edx", "dx", "dl", "dh">>,
    sp |-> <<"rsp", "esp", "sp", "spl">>,
    bp |-> <<"rbp", "ebp", "bp", "bpl">>,
    si |-> <<"rsi", "esi", "si", "sil">>,
    di |-> <<"rdi", "edi", "di", "dil">> ]
X86LegacyFam == DOMAIN X86Names

RNum == 8..15
VNum == 0..31
SmallNum == 0..7

\* A register is a record [isa, name, fam]; fam identifies the architectural state.
X86Regs ==
     { [isa |-> "x86", name |-> X86Names[fi[1]][fi[2]], fam |-> "gpr:" \o fi[1]] :
          fi \in { p \in X86LegacyFam \X (1..5) : p[2] <= Len(X86Names[p[1]]) } }
  \cup { [isa |-> "x86", name |-> "r" \o ToString(n) \o s, fam |-> "gpr:r" \o ToString(n)] :
          n \in RNum, s \in {"", "d", "w", "b"} }
  \cup { [isa |-> "x86", name |-> p \o ToString(n), fam |-> "vec:" \o ToString(n)] :
          n \in VNum, p \in {"xmm", "ymm", "zmm"} }
  \cup { [isa |-> "x86", name |-> "mm" \o ToString(n), fam |-> "mmx:" \o ToString(n)] : n \in SmallNum }
  \cup { [isa |-> "x86", name |-> "k" \o ToString(n), fam |-> "mask:" \o ToString(n)] : n \in SmallNum }

\* ---------------------------------------------------------------- AArch64
GpPrefix == {"w", "x"}
VecPrefix == {"b", "h", "s", "d", "q", "v", "z"}
ANum == 0..31
\* sp / zr aliases: written "sp", "wsp", "xzr", "wzr"; the parser yields prefix x/w + name.
A64Regs ==
     { [isa |-> "aarch64", name |-> p \o ToString(n), fam |-> "gp:" \o ToString(n)] : p \in GpPrefix, n \in ANum }
  \cup { [isa |-> "aarch64", name |-> p \o ToString(n), fam |-> "vec:" \o ToString(n)] : p \in VecPrefix, n \in ANum }
  \cup { [isa |-> "aarch64", name |-> "p" \o ToString(n), fam |-> "pred:" \o ToString(n)] : n \in 0..15 }
  \cup { [isa |-> "aarch64", name |-> nm, fam |-> "gp:sp"] : nm \in {"sp", "wsp"} }
  \cup { [isa |-> "aarch64", name |-> nm, fam |-> "gp:zr"] : nm \in {"xzr", "wzr"} }

Regs(isa) == IF isa = "x86" THEN X86Regs ELSE A64Regs

\* ---------------------------------------------------------------- the relation
Overlap(a, b) == a.isa = b.isa /\ a.fam = b.fam

Dependents(a) == { b \in Regs(a.isa) : Overlap(a, b) }

NamesUnique(isa) == \A a, b \in Regs(isa) : a.name = b.name => a = b

=============================================================================
