CONSTANT KTab <- MC_KTab
CONSTANT Kernels <- KSim
CONSTANT NWs = {3, 5, 16, 0}
CONSTANT Timeouts = {TRUE, FALSE}
CONSTANT TickEnabled = FALSE
CONSTANT ReduceIdle = FALSE
CONSTANT DeadlineTestFirst = TRUE
SPECIFICATION Spec
INVARIANT TypeOK
CONSTRAINT EmitOnce
