SPECIFICATION TraceSpec
INVARIANT Check
POSTCONDITION AllConsumed
CHECK_DEADLOCK FALSE
