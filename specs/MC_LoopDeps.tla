----------------------------- MODULE MC_LoopDeps -----------------------------
(* Level B for C05 and C14: the loop-carried-dependency search of
   KernelDG.check_for_loopcarried_dep as a state machine -- the kernel is doubled, for every
   root instruction all simple paths root -> root' (same instruction, next iteration) are
   extended edge by edge, each completed path is mapped back to original positions and kept
   unless an equal (node, edge latency) list was already seen.  TLC's breadth-first search IS
   the path enumeration.  Run on every kernel up to MaxN instructions over DepsAlphabet.
   Terminal states must equal the declarative winding-number-1 cycles (Deps.tla), and the
   declarative set must be invariant under every rotation of the loop body (C14).          *)
EXTENDS DepsAlphabet, Json, CSV, IOUtils
CONSTANTS MaxN

VARIABLES ops, root, stack, found, phase
vars == <<ops, root, stack, found, phase>>
(* stack: sequence of partial paths still to extend (depth-first like all_simple_paths);
   found: set of [members |-> set, key |-> set of <<node, edge latency>>, lat |-> Int]       *)

K  == KernelOf(ops)
N  == Len(ops)
G2 == GraphOf(Dbl(K))
Succ2(x) == { y \in 1..(2 * N) : <<x, y>> \in G2.E }
Orig(x) == IF x > N THEN x - N ELSE x
PathKey(p) == { <<Orig(p[t]), G2.w[<<p[t], p[t + 1]>>]>> : t \in 1..(Len(p) - 1) }
PathLat(p) == LET RECURSIVE S(_)
                  S(t) == IF t >= Len(p) THEN 0 ELSE G2.w[<<p[t], p[t + 1]>>] + S(t + 1)
              IN S(1)

Init == /\ ops \in UNION { [1..m -> Alphabet] : m \in 1..MaxN }
        /\ root = 0 /\ stack = <<>> /\ found = {} /\ phase = "search"

NextRoot == /\ phase = "search" /\ stack = <<>> /\ root < N
            /\ root' = root + 1 /\ stack' = << <<root + 1>> >>
            /\ UNCHANGED <<ops, found, phase>>
\* pop one partial path; either it is complete (Close) or it is replaced by its extensions
Close == /\ phase = "search" /\ stack # <<>>
         /\ LET p == Head(stack) IN
              /\ p[Len(p)] = root + N
              /\ found' = IF \E f \in found : f.key = PathKey(p) THEN found
                          ELSE found \cup { [members |-> { Orig(p[t]) : t \in 1..(Len(p) - 1) },
                                             key |-> PathKey(p), lat |-> PathLat(p)] }
         /\ stack' = Tail(stack) /\ UNCHANGED <<ops, root, phase>>
Extend == /\ phase = "search" /\ stack # <<>>
          /\ LET p == Head(stack) last == p[Len(p)] IN
               /\ last # root + N
               /\ stack' = SetToSeq({ Append(p, y) : y \in { z \in Succ2(last) : z <= root + N } }) \o Tail(stack)
          /\ UNCHANGED <<ops, root, found, phase>>
Finish == /\ phase = "search" /\ stack = <<>> /\ root = N
          /\ phase' = "done" /\ UNCHANGED <<ops, root, stack, found>>
Next == NextRoot \/ Close \/ Extend \/ Finish
Spec == Init /\ [][Next]_vars

Done == phase = "done"
Decl == { [members |-> S, lat |-> CycleLat(G2, N, S)] : S \in CyclesBySubsets(G2, N) }

\* ---- Level B => Level A (C05)
ReportedAreExactlyTheCycles == Done => { [members |-> f.members, lat |-> f.lat] : f \in found } = Decl
EachOnce == Done => \A f, g \in found : f.members = g.members => f = g
SoundAtEveryStep == \A f \in found : [members |-> f.members, lat |-> f.lat] \in Decl
TwoEnumerationsAgree == Cycles(G2, N) = CyclesBySubsets(G2, N)
DoubledGraphPeriodic == Periodic(G2, N)
MaxIsSummary == Done => LET m == IF found = {} THEN 0 ELSE Max({ f.lat : f \in found })
                        IN m = (IF Decl = {} THEN 0 ELSE Max({ d.lat : d \in Decl }))
\* ---- C14: rotating the loop body leaves the cycles (mapped back) and their latencies unchanged
RotCycles(r) == LET kr == Rot(K, r)  g == GraphOf(Dbl(kr)) IN
                { [members |-> { MapBack(N, r, p) : p \in S }, lat |-> CycleLat(g, N, S)] : S \in Cycles(g, N) }
RotationInvariant == (root = 0) => \A r \in 0..(N - 1) : RotCycles(r) = Decl

Emit == Done => CSVWrite("%1$s", <<ToJson([ops |-> ops])>>, IOEnv.OUTFILE)
=============================================================================
