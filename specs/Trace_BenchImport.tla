-------------------------- MODULE Trace_BenchImport --------------------------
(* Batch validation of benchmark imports run through the real CLI (C20).  One case per import:
     isa, mode, file = <<entries>> as written (BenchImport's abstract file; forms carry id, mnem, mkey = mnem in
                       lower case, and the structured operand codes the name was rendered from),
     obs = [err, forms = << [id, entries = << [ops, tp, lt, new] >>] >>]:
           for every form of the file the entries of the EMITTED model that carry its mnemonic, with
           operands projected, values in micro-cycles (-1 = null) and new = not in the model emitted
           for an empty benchmark file.
   The verdict uses BenchImport's own definitions and names the failing clause:
   <<"REJECT", id, clause, form id, detail>>. *)
EXTENDS BenchImport
Cases == ndJsonDeserialize(IOEnv.CASES)
VARIABLE tid

SeqToSet(s) == { s[i] : i \in DOMAIN s }
FormOf(file, id) == (CHOOSE i \in 1..Len(file) : file[i].form.id = id)
EntriesOf(c, id) == LET hit == { i \in 1..Len(c.obs.forms) : c.obs.forms[i].id = id } IN
                    IF hit = {} THEN {} ELSE SeqToSet(c.obs.forms[CHOOSE i \in hit : TRUE].entries)
\* an emitted operand list matches the documented decoding of the written codes
\* ("s" documents a scale factor of MORE than 1, any such factor is accepted)
Matches(c, form, e) == e.ops = DecodeAll(c.isa, form.ops)

SameMnem(c, form) == { c.file[i].form.id : i \in { j \in 1..Len(c.file) : c.file[j].form.mkey = form.mkey } }
FormClause(c, id) ==
  LET live  == Live(c.file)
      form  == c.file[FormOf(c.file, id)].form
      E     == EntriesOf(c, id)
      New   == { e \in E : e.new }
      NewM  == { e \in New : Matches(c, form, e) }
      Good  == { e \in E : Matches(c, form, e) /\ TPValueOk(live, id, e.tp) /\ LTValueOk(live, id, e.lt) }
  IN IF id \in FormIds(live) THEN
          IF Good # {} /\ Cardinality(NewM) <= 1 THEN "ok"
          ELSE IF NewM = {} THEN
               \* no new entry decodes to this form: lost, unless every form of the file with this mnemonic
               \* produced a new entry - then an entry exists but its operands are decoded wrongly
               (IF Cardinality(New) >= Cardinality(SameMnem(c, form)) THEN "operands" ELSE "form-lost")
          ELSE IF Cardinality(NewM) > 1 THEN "not-merged"
          ELSE IF \A e \in NewM : ~TPValueOk(live, id, e.tp) THEN "tp"
          ELSE "lt"
     ELSE IF NewM # {} THEN "imported-after-malformed" ELSE "ok"

Detail(c, id) ==
  LET live == Live(c.file) IN
  [tp_measured |-> TPs(live, id), tp_allowed |-> UNION { AllowedTP(m) : m \in TPs(live, id) },
   lt_measured |-> LTs(live, id), lt_allowed |-> UNION { AllowedLT(m) : m \in LTs(live, id) }]

\* every failing form of a case is reported (one line each)
Check == LET c == Cases[tid] IN
         IF c.obs.err # "" THEN PrintT(<<"REJECT", c.id, "exception", "", "">>)
         ELSE LET bad == { id \in FormIds(c.file) : FormClause(c, id) # "ok" } IN
              IF bad = {} THEN TRUE
              ELSE \A id \in bad : PrintT(<<"REJECT", c.id, FormClause(c, id), id, ToJson(Detail(c, id))>>)
TraceInit == tid = 1
TraceNext == tid < Len(Cases) /\ tid' = tid + 1
TraceSpec == TraceInit /\ [][TraceNext]_tid
AllConsumed == TLCGet("stats").diameter = Len(Cases)
=============================================================================
