---------------------------- MODULE MC_ModelCache ----------------------------
(* State machine over ModelCache: processes step through the loader one file-system
   interaction at a time, may die anywhere; the environment edits the model file, flips the
   data directory between writable and read-only, drops foreign / old-version / cut cache files.
   TLC checks Level A (RunNeverFails, ResultIsContent) and cache coherence (StaleNeverServed)
   for the protocol selected by the CONSTANT switches, and emits one action path per generated
   transition (a transition cover) for replay on the real code. *)
EXTENDS ModelCache

CONSTANTS Sequential,    \* TRUE: a started process runs alone (histories of whole runs and crashes)
          EditWhileBusy, \* TRUE: the model file may be edited while a run is in progress
          MaxStarts, MaxEdits, MaxEnvs,
          AllowLegacy,   \* cut cache files may pre-exist (left by an older version's crashed write)
          CrashAnywhere, \* FALSE: processes die only while writing (dying elsewhere changes no file)
          SameProcReload \* a process may load the same file again (in-process cache)

VARIABLES S, hist
vars == <<S, hist>>
View == S                \* hist is an observation variable

Lbl(a, p, x) == [a |-> a, p |-> p, x |-> x]
Log(a, p, x) == hist' = Append(hist, Lbl(a, p, x))

Init == S = InitState /\ hist = <<>>

MayStart(p) == /\ S.pc[p] = "idle"
               /\ S.starts < MaxStarts
               /\ Sequential => Quiet(S)
At(p, where) == S.pc[p] = where

StartRun(p)  == MayStart(p) /\ S' = Start(S, p) /\ Log("start", p, 0)
Hash(p)          == At(p, "hash")   /\ S' = Step(S, p) /\ Log("hash", p, 0)
ProbeCompanion(p)== At(p, "probeC") /\ S' = Step(S, p) /\ Log("probeC", p, 0)
ReadCompanion(p) == At(p, "readC")  /\ S' = Step(S, p) /\ Log("readC", p, 0)
ProbeHome(p)     == At(p, "probeH") /\ S' = Step(S, p) /\ Log("probeH", p, 0)
ReadHome(p)      == At(p, "readH")  /\ S' = Step(S, p) /\ Log("readH", p, 0)
ParseYaml(p)     == At(p, "parse")  /\ S' = Step(S, p) /\ Log("parse", p, 0)
Rehash(p)        == At(p, "rehash") /\ S' = Step(S, p) /\ Log("rehash", p, 0)
AccessDir(p)     == At(p, "access") /\ S' = Step(S, p) /\ Log("access", p, 0)
\* OpenTrunc is today's open(final, 'wb') (InPlaceCacheWrite); WriteTmp/Rename the atomic protocol
OpenTrunc(p)     == ~AtomicWrite /\ At(p, "open") /\ S' = Step(S, p) /\ Log("open", p, 0)
WriteTmp(p)      == AtomicWrite /\ At(p, "open")  /\ S' = Step(S, p) /\ Log("open", p, 0)
WriteChunk(p)    == At(p, "write")  /\ S' = Step(S, p) /\ Log("write", p, S.pos[p])
Rename(p)        == At(p, "rename") /\ S' = Step(S, p) /\ Log("rename", p, 0)
CrashProc(p)     == /\ Running(S, p)
                    /\ CrashAnywhere \/ S.pc[p] \in {"write", "rename"}
                    /\ S' = Crash(S, p) /\ Log("crash", p, 0)
ExitProc(p)      == S.pc[p] \in {"done", "failed"} /\ S' = Exit(S, p) /\ Log("exit", p, 0)
Reload(p)        == /\ SameProcReload /\ S.pc[p] = "done" /\ S.starts < MaxStarts
                    /\ Sequential => \A q \in Procs \ {p} : ~Running(S, q)
                    /\ S' = Start(S, p) /\ Log("reload", p, 0)

EnvOK == S.envs < MaxEnvs /\ Quiet(S)
EditYaml(c)   == /\ c # S.yaml /\ S.edits < MaxEdits
                 /\ (EditWhileBusy /\ ~Sequential) \/ Quiet(S)
                 /\ S' = Edit(S, c) /\ Log("edit", 0, c)
ToggleWritable== EnvOK /\ S' = Toggle(S) /\ Log("toggle", 0, 0)
ForeignPickle(c) == EnvOK /\ c # S.yaml /\ ~S.home[c].ex /\ S' = Foreign(S, c) /\ Log("foreign", 0, c)
OldVersionPickle(w) == EnvOK /\ ~GetFile(S, w, S.yaml).ex
                       /\ S' = OldVersion(S, w) /\ Log("oldversion", 0, IF w = "comp" THEN 1 ELSE 2)
LegacyPartial(w, n) == AllowLegacy /\ EnvOK /\ ~GetFile(S, w, S.yaml).ex
                       /\ S' = Legacy(S, w, n) /\ Log("legacy", n, IF w = "comp" THEN 1 ELSE 2)

ProcNext(p) == \/ StartRun(p) \/ Hash(p) \/ ProbeCompanion(p) \/ ReadCompanion(p) \/ ProbeHome(p)
               \/ ReadHome(p) \/ ParseYaml(p) \/ Rehash(p) \/ AccessDir(p) \/ OpenTrunc(p)
               \/ WriteTmp(p) \/ WriteChunk(p) \/ Rename(p) \/ CrashProc(p) \/ ExitProc(p) \/ Reload(p)
Next == \/ \E p \in Procs : ProcNext(p)
        \/ \E c \in Contents : EditYaml(c) \/ ForeignPickle(c)
        \/ ToggleWritable
        \/ \E w \in Wheres : OldVersionPickle(w) \/ \E n \in 0..(N-1) : LegacyPartial(w, n)
Spec == Init /\ [][Next]_vars

\* ---------------------------------------------------------------- properties
TypeOK == /\ S.yaml \in Contents
          /\ \A p \in Procs : S.pc[p] \in {"idle", "hash", "probeC", "readC", "probeH", "readH", "parse",
                                           "rehash", "access", "open", "write", "rename", "done", "failed"}
          /\ \A h \in Contents : \A w \in Wheres : Len(GetFile(S, w, h).cells) <= N
\* Level A
RunNeverFails    == \A p \in Procs : ~Failed(S, p)
ResultIsContent  == \A p \in Procs : S.pc[p] = "done" => ResultOK(S, p)
\* cache coherence: no readable current-version cache file holds data of another content
StaleNeverServed == Coherent(S)
\* the atomic protocol never exposes a partial file under a final name (unless it pre-existed)
NoPartialVisible == (AtomicWrite /\ ~AllowLegacy) =>
                      \A h \in Contents : \A w \in Wheres : Kind(GetFile(S, w, h)) # "partial"

\* ---------------------------------------------------------------- R2: transition cover
\* evaluated for every generated transition: the path (BFS-first path to the source state plus
\* this transition) is written out; Python keeps the maximal paths and replays them.
Emit == (hist # <<>>) =>
          CSVWrite("%1$s", <<ToJson([path |-> hist,
                                     pcs  |-> S.pc,
                                     yaml |-> S.yaml,
                                     ck   |-> Kind(S.comp[S.yaml]),
                                     hk   |-> Kind(S.home[S.yaml])])>>, IOEnv.OUTFILE)
=============================================================================
