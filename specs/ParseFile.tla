------------------------------ MODULE ParseFile ------------------------------
(***************************************************************************)
(* Line level of properties C09 / C10: what parsing a FILE must return.    *)
(*                                                                         *)
(* A file is a sequence of physical lines [kind, text]; kind is what was   *)
(* written ("blank", "comment", "label", "directive", "instr"; "any" for   *)
(* lines of files the harness did not write itself, where only the number  *)
(* of classifications is known to be one).  The parser returns a sequence  *)
(* out of parsed lines [lineno, text, kinds] (kinds = the classifications  *)
(* the returned line carries).  The four clauses of the statements:        *)
(*   OnePerNonBlank  every non-blank line yields exactly one parsed line   *)
(*   LineNumbers     ... carrying its 1-based line number in the file      *)
(*   Verbatim        ... and its verbatim text                             *)
(*   ExactlyOneKind  ... classified as exactly one kind (the written one)  *)
(* are declarative predicates over (file, out) - Level A.  MC_ParseFile    *)
(* checks them on a state machine shaped like parse_file - Level B.        *)
(***************************************************************************)
EXTENDS Naturals, Integers, Sequences, FiniteSets, TLC, Json, CSV, IOUtils

Kinds == {"comment", "label", "directive", "instr"}
NonBlank(file) == { i \in 1..Len(file) : file[i].kind # "blank" }
ToSet(s) == { s[i] : i \in DOMAIN s }

OnePerNonBlank(file, out) == Len(out) = Cardinality(NonBlank(file))
\* the j-th parsed line belongs to the j-th non-blank physical line
LineNumbers(file, out) ==
  /\ \A j \in 1..Len(out) : out[j].lineno \in NonBlank(file)
  /\ \A j \in 1..(Len(out) - 1) : out[j].lineno < out[j + 1].lineno   \* in file order (transitive)
Verbatim(file, out) ==
  \A j \in 1..Len(out) : out[j].lineno \in 1..Len(file) => out[j].text = file[out[j].lineno].text
ExactlyOneKind(file, out) ==
  \A j \in 1..Len(out) :
     /\ Cardinality(ToSet(out[j].kinds)) = 1
     /\ ToSet(out[j].kinds) \subseteq Kinds
     /\ out[j].lineno \in 1..Len(file) =>
          (file[out[j].lineno].kind = "any" \/ ToSet(out[j].kinds) = {file[out[j].lineno].kind})

\* the unique out the four clauses admit for a file written by the harness (no "any" lines)
RECURSIVE ExpectedFrom(_, _)
ExpectedFrom(file, i) ==
  IF i > Len(file) THEN <<>>
  ELSE (IF file[i].kind = "blank" THEN <<>>
        ELSE << [lineno |-> i, text |-> file[i].text, kinds |-> <<file[i].kind>>] >>) \o ExpectedFrom(file, i + 1)
Expected(file) == ExpectedFrom(file, 1)

\* verdict on one observation, naming the first failing clause
FileClause(file, out) ==
  IF ~OnePerNonBlank(file, out) THEN "OnePerNonBlank"
  ELSE IF ~LineNumbers(file, out) THEN "LineNumbers"
  ELSE IF ~Verbatim(file, out) THEN "Verbatim"
  ELSE IF ~ExactlyOneKind(file, out) THEN "ExactlyOneKind"
  ELSE "ok"
=============================================================================
