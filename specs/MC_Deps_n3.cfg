CONSTANTS
  MaxN = 3
  Locs = {"a", "b"}
  FlagDeps = TRUE
  OpsUsed = {"opa","opb","opc","opd","ope","opf","opg","oph","opj","wbl","nop"}
SPECIFICATION Spec
INVARIANT EdgesAreRAW
INVARIANT KindsAgree
INVARIANT Forward
INVARIANT NeverSpurious
INVARIANT NoFlagEdgesUnlessAsked
CONSTRAINT Emit
CHECK_DEADLOCK FALSE
