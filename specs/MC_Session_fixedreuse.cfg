CONSTANT InPlaceMutation = FALSE
CONSTANT DeadlineOnProcessClock = FALSE
CONSTANT AgeLimit = 2
CONSTANT MaxAge = 0
CONSTANT ModelReused = TRUE
CONSTANT TreeKinds = 8
CONSTANT MaxLen = 3
SPECIFICATION Spec
INVARIANT TypeOK
INVARIANT ReportIsFunctionOfRequest
PROPERTY SharedUnchanged
PROPERTY LoadedGrows
CHECK_DEADLOCK FALSE
