CONSTANT InPlaceMutation = FALSE
CONSTANT ModelReused = TRUE
CONSTANT MaxLen = 3
SPECIFICATION Spec
INVARIANT TypeOK
INVARIANT ReportIsFunctionOfRequest
PROPERTY SharedUnchanged
PROPERTY LoadedGrows
CHECK_DEADLOCK FALSE
