CONSTANT Mode = "asmbench"
CONSTANT MaxEntries = 4
CONSTANT FormIds0 = {"A", "B", "C"}
CONSTANT TPVals = {501000, 420000}
CONSTANT LTVals = {8010000, 2500000}
CONSTANT BadKinds = {"noblank", "extra", "short"}
SPECIFICATION Spec
INVARIANT EveryFormEmitted
INVARIANT StopsAtMalformed
INVARIANT Merged
INVARIANT Snap
INVARIANT WindowsDisjoint
INVARIANT LevelBAllowed
INVARIANT LevelBAllowedLT
INVARIANT KnownPoints
CONSTRAINT Emit
CHECK_DEADLOCK FALSE
