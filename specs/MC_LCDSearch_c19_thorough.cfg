CONSTANT KTab <- MC_KTab
CONSTANT Kernels <- KMid19
CONSTANT NWs = {1, 2, 3, 5, 0}
CONSTANT Timeouts = {TRUE, FALSE}
CONSTANT TickEnabled = TRUE
CONSTANT ReduceIdle = FALSE
CONSTANT DeadlineTestFirst = TRUE
SPECIFICATION Spec
INVARIANT TypeOK
INVARIANT PartitionIsOk
INVARIANT ResultIndependentOfScheduleAndNW
INVARIANT SoundPartial
INVARIANT WholeRootPrefixes
INVARIANT CompleteWhenNotTimedOut
INVARIANT NoWarningWithoutTimeout
INVARIANT NoOrphans
INVARIANT NoLateWrites
CONSTRAINT EmitOnce
