----------------------------- MODULE Trace_Osaca -----------------------------
(* Batch validation of whole-run traces of osaca.osaca.inspect (one JSON object per run:
   options + the sequence of stage events recorded by harness/pipeline_trace.py). *)
EXTENDS Osaca, Json, IOUtils
Cases == ndJsonDeserialize(IOEnv.CASES)
VARIABLE tid
Check == LET c == Cases[tid] v == RunTraceFD(c.fixed, c.flagDeps, c.fd, c.events) IN
         IF v = "ok" THEN TRUE ELSE PrintT(<<"REJECT", c.id, v>>)
TraceInit == tid = 1
TraceNext == tid < Len(Cases) /\ tid' = tid + 1
TraceSpec == TraceInit /\ [][TraceNext]_tid
AllConsumed == TLCGet("stats").diameter = Len(Cases)
=============================================================================
