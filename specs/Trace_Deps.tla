----------------------------- MODULE Trace_Deps -----------------------------
(* Batch validation of dependency-analysis observations recorded from the implementation
   (KernelDG.dg, get_critical_path, get_loopcarried_dependencies, Summary of the dict
   output).  One JSON case per analysed kernel; `checks` selects the clauses.  Expected
   values are computed from Deps.tla; the first failing clause is printed.            *)
EXTENDS Deps, Json, IOUtils
Cases == ndJsonDeserialize(IOEnv.CASES)
VARIABLE tid

Has(c, what) == \E i \in DOMAIN c.checks : c.checks[i] = what

\* observed graph of one iteration / of two concatenated iterations
ObsE(es)  == { <<es[i][1], es[i][2]>> : i \in DOMAIN es }
ObsW(es)  == [p \in ObsE(es) |-> LET i == CHOOSE i \in DOMAIN es : <<es[i][1], es[i][2]>> = p IN es[i][3]]
G1(c) == [n |-> c.n, E |-> ObsE(c.E),  w |-> ObsW(c.E),  lat |-> c.lat, latwo |-> c.latwo, lds |-> c.lds]
G2(c) == [n |-> 2 * c.n, E |-> ObsE(c.E2), w |-> ObsW(c.E2),
          lat |-> c.lat \o c.lat, latwo |-> c.latwo \o c.latwo, lds |-> c.lds \o c.lds]

OK == <<"ok", 0>>

\* ---- C03 / C06: one iteration
EdgesClause(c) ==
  LET k == c.k  E == ObsE(c.E)  w == ObsW(c.E) IN
  IF \E p \in E : ~(p[1] < p[2]) THEN <<"backward-edge", CHOOSE p \in E : ~(p[1] < p[2])>>
  ELSE IF \E p \in E : p[1] \notin 1..k.n \/ p[2] \notin 1..k.n THEN <<"edge-node-unknown", 0>>
  ELSE IF \E p \in MustEdges(k) : p \notin E THEN <<"missing-edge", CHOOSE p \in MustEdges(k) : p \notin E>>
  ELSE IF \E p \in E : p \notin MayEdges(k) THEN <<"spurious-edge", CHOOSE p \in E : p \notin MayEdges(k)>>
  ELSE IF \E p \in E : w[p] \notin WeightAllowed(k, p[1], p[2])
       THEN LET p == CHOOSE p \in E : w[p] \notin WeightAllowed(k, p[1], p[2])
            IN <<"edge-weight", <<p, w[p], WeightAllowed(k, p[1], p[2])>> >>
  ELSE IF { c.LE[i][1] : i \in DOMAIN c.LE } # { i \in 1..k.n : k.lds[i] } THEN <<"load-stage-nodes", 0>>
  ELSE IF \E i \in DOMAIN c.LE : c.LE[i][2] # LoadStageWeight(k, c.LE[i][1]) THEN <<"load-stage-weight", 0>>
  ELSE OK

\* ---- two concatenated iterations against the abstract kernel
DblClause(c) ==
  LET k2 == Dbl(c.k)  E == ObsE(c.E2)  w == ObsW(c.E2) IN
  IF \E p \in MustEdges(k2) : p \notin E THEN <<"doubled-missing-edge", CHOOSE p \in MustEdges(k2) : p \notin E>>
  ELSE IF \E p \in E : p \notin MayEdges(k2) THEN <<"doubled-spurious-edge", CHOOSE p \in E : p \notin MayEdges(k2)>>
  ELSE IF \E p \in E : w[p] \notin WeightAllowed(k2, p[1], p[2]) THEN <<"doubled-edge-weight", 0>>
  ELSE OK

\* ---- C04
\* the graph the ARCHITECTURE demands at least (must-edges of the abstract kernel, each with the smallest weight the
\* statement allows): the critical path the analysis reports cannot be shorter than the longest chain in it
ArchGraph(c) ==
  LET k == c.k  E == MustEdges(k) IN
  [n |-> c.n, E |-> E, w |-> [p \in E |-> Min(WeightAllowed(k, p[1], p[2]))], lat |-> c.lat, latwo |-> c.latwo, lds |-> c.lds]
CpClause(c) ==
  LET g == G1(c)
      marked == Asc(ToSet(c.cpMarked))
      cells == LET RECURSIVE S(_)
                   S(i) == IF i > Len(c.cpCells) THEN 0 ELSE c.cpCells[i][2] + S(i + 1)
               IN S(1)
  IN
  IF c.n = 0 THEN OK
  ELSE IF c.cp \notin CPAllowed(g) THEN <<"cp-value", <<c.cp, CPLo(g)>> >>
  ELSE IF Len(marked) = 0 THEN <<"cp-nothing-marked", 0>>
  ELSE IF ~IsChain(g, marked) THEN <<"cp-marked-not-chain", marked>>
  ELSE IF cells # c.cp THEN <<"cp-cells-sum", <<cells, c.cp>> >>
  ELSE IF "cpStray" \in DOMAIN c /\ Len(c.cpStray) > 0 THEN <<"cp-share-off-the-path", c.cpStray>>
  ELSE IF "k" \in DOMAIN c /\ c.cp < CPLo(ArchGraph(c)) THEN <<"cp-below-architectural-chain", <<c.cp, CPLo(ArchGraph(c))>> >>
  ELSE IF c.cp \notin ChainLenVals(g, marked) THEN <<"cp-marked-length", <<c.cp, ChainLenVals(g, marked)>> >>
  ELSE OK

\* ---- C05
LcdSet(l) == { ToSet(l[i][2]) : i \in DOMAIN l }
LcdClause(c) ==
  LET g2 == G2(c)  n == c.n
      exp == Cycles(g2, n)
      obs == LcdSet(c.lcd)
      lats == { c.lcd[i][1] : i \in DOMAIN c.lcd }
  IN
  IF ~Periodic(g2, n) THEN <<"doubled-graph-not-periodic", 0>>
  ELSE IF \E S \in exp : S \notin obs THEN <<"lcd-missing", CHOOSE S \in exp : S \notin obs>>
  ELSE IF \E S \in obs : S \notin exp THEN <<"lcd-spurious", CHOOSE S \in obs : S \notin exp>>
  ELSE IF Len(c.lcd) # Cardinality(obs) THEN <<"lcd-duplicate", 0>>
  ELSE IF \E i \in DOMAIN c.lcd : c.lcd[i][1] # CycleLat(g2, n, ToSet(c.lcd[i][2]))
       THEN LET i == CHOOSE i \in DOMAIN c.lcd : c.lcd[i][1] # CycleLat(g2, n, ToSet(c.lcd[i][2]))
            IN <<"lcd-latency", <<c.lcd[i][2], c.lcd[i][1], CycleLat(g2, n, ToSet(c.lcd[i][2]))>> >>
  ELSE IF c.lcdMax # (IF lats = {} THEN 0 ELSE Max(lats)) THEN <<"lcd-summary", c.lcdMax>>
  ELSE OK

\* ---- C14: the analysis of the kernel rotated by c.r, mapped back to the original positions
RotClause(c) ==
  LET g2 == G2(c)  n == c.n
      exp == { <<S, CycleLat(g2, n, S)>> : S \in Cycles(g2, n) }
      obs == { <<ToSet(c.rotLcd[i][2]), c.rotLcd[i][1]>> : i \in DOMAIN c.rotLcd }
  IN
  IF \E x \in exp : x \notin obs THEN <<"rotation-lcd-missing", <<c.r, CHOOSE x \in exp : x \notin obs>> >>
  ELSE IF \E x \in obs : x \notin exp THEN <<"rotation-lcd-spurious", <<c.r, CHOOSE x \in obs : x \notin exp>> >>
  ELSE IF Len(c.rotLcd) # Cardinality(obs) THEN <<"rotation-lcd-duplicate", c.r>>
  ELSE IF c.rotMax # c.lcdMax THEN <<"rotation-lcd-max", <<c.r, c.rotMax, c.lcdMax>> >>
  ELSE OK

Clause(c) ==
  LET a == IF Has(c, "edges") THEN EdgesClause(c) ELSE OK IN IF a[1] # "ok" THEN a ELSE
  LET b == IF Has(c, "dbl") THEN DblClause(c) ELSE OK IN IF b[1] # "ok" THEN b ELSE
  LET d == IF Has(c, "cp") THEN CpClause(c) ELSE OK IN IF d[1] # "ok" THEN d ELSE
  LET e == IF Has(c, "lcd") THEN LcdClause(c) ELSE OK IN IF e[1] # "ok" THEN e ELSE
  IF Has(c, "rot") THEN RotClause(c) ELSE OK

Check == LET c == Cases[tid] cl == Clause(c) IN
         IF cl[1] = "ok" THEN TRUE ELSE PrintT(<<"REJECT", c.id, cl[1], ToString(cl[2])>>)
TraceInit == tid = 1
TraceNext == tid < Len(Cases) /\ tid' = tid + 1
TraceSpec == TraceInit /\ [][TraceNext]_tid
AllConsumed == TLCGet("stats").diameter = Len(Cases)
=============================================================================
