------------------------------- MODULE Select -------------------------------
(***************************************************************************)
(* Kernel selection (property C11).                                        *)
(*                                                                         *)
(* A file is a sequence of non-blank lines; a line is a record             *)
(*   [k |-> kind, b |-> bytes]                                             *)
(* kind:  instr     ordinary instruction                                   *)
(*        startmov  mov of the START value into the marker register        *)
(*        endmov    mov of the END value into the marker register          *)
(*        movval    look-alike: mov of another value into the marker reg.  *)
(*        movreg    look-alike: mov of the START/END value into another reg*)
(*        bytes     .byte directive, b = its values                        *)
(*        directive any other directive                                    *)
(*        begincmt / endcmt   comment-only line OSACA-BEGIN / OSACA-END    *)
(*        comment   any other comment-only line                            *)
(*        label     label line                                             *)
(* Byte values are abstract: the marker byte sequence of the ISA is        *)
(* <<1, 2, .., NopLen>>, 0 stands for any other value.                     *)
(*                                                                         *)
(* Level A (declarative): Allowed(f, isa) -- the kernels the statement of  *)
(* C11 permits for file f; ExpandLines / Named for --lines; SameAnalysis   *)
(* for the transparency part (the numeric analysis is a function of the    *)
(* instruction sequence only).                                             *)
(* Level B (shape of the code): the scan of find_marked_section /          *)
(* match_bytes as guarded steps on a state record, one per line kind.      *)
(***************************************************************************)
EXTENDS Naturals, Integers, Sequences, FiniteSets, TLC, Json, CSV, IOUtils

NopLen(isa) == IF isa = "x86" THEN 3 ELSE 4
Nop(isa)    == [i \in 1..NopLen(isa) |-> i]

Ln(k)     == [k |-> k, b |-> <<>>]
Bytes(bs) == [k |-> "bytes", b |-> bs]

Kinds == {"instr", "startmov", "endmov", "movval", "movreg", "bytes", "directive",
          "begincmt", "endcmt", "comment", "label"}
IsInstr(l)     == l.k \in {"instr", "startmov", "endmov", "movval", "movreg"}
IsDirective(l) == l.k \in {"bytes", "directive"}

IsPrefix(p, s) == Len(p) <= Len(s) /\ \A i \in 1..Len(p) : s[i] = p[i]
ToSet(s)       == { s[i] : i \in DOMAIN s }
Max(S)         == CHOOSE x \in S : \A y \in S : y <= x
Min(S)         == CHOOSE x \in S : \A y \in S : x <= y

(***************************************************************************)
(* Level A: which lines are the kernel.                                    *)
(***************************************************************************)
\* number of consecutive .byte lines directly after position s
RunLen(f, s) == Max({ m \in 0..(Len(f) - s) : \A i \in 1..m : f[s + i].k = "bytes" })
RECURSIVE Cat(_, _, _)
Cat(f, s, m) == IF m = 0 THEN <<>> ELSE Cat(f, s, m - 1) \o f[s + m].b

\* a byte marker: the mov directly followed by .byte lines whose values begin with the marker bytes
IsByteMarker(f, s, isa, kind) ==
  /\ f[s].k = kind
  /\ RunLen(f, s) >= 1
  /\ IsPrefix(Nop(isa), Cat(f, s, RunLen(f, s)))
\* least number of .byte lines that carry the marker bytes
Need(f, s, isa) == Min({ m \in 1..RunLen(f, s) : IsPrefix(Nop(isa), Cat(f, s, m)) })

StartMarks(f, isa) == { s \in 1..Len(f) : f[s].k = "begincmt" \/ IsByteMarker(f, s, isa, "startmov") }
EndMarks(f, isa)   == { s \in 1..Len(f) : f[s].k = "endcmt" \/ IsByteMarker(f, s, isa, "endmov") }

\* first line after the start marker: the statement does not say whether further .byte lines
\* that directly follow the marker bytes belong to the marker; both readings are allowed
FirstAfterMin(f, s, isa) == IF f[s].k = "begincmt" THEN s + 1 ELSE s + Need(f, s, isa) + 1
FirstAfterMax(f, s, isa) == IF f[s].k = "begincmt" THEN s + 1 ELSE s + RunLen(f, s) + 1

\* [free |-> the statement does not determine the kernel, ks |-> set of permitted kernels]
Allowed(f, isa) ==
  LET S == StartMarks(f, isa)
      E == EndMarks(f, isa)
  IN IF S = {} /\ E = {} THEN [free |-> FALSE, ks |-> { 1..Len(f) }]
     ELSE IF Cardinality(S) = 1 /\ Cardinality(E) = 1
          THEN LET s == CHOOSE x \in S : TRUE
                   e == CHOOSE x \in E : TRUE
               IN IF e >= FirstAfterMax(f, s, isa)
                  THEN [free |-> FALSE,
                        ks |-> { FirstAfterMin(f, s, isa)..(e - 1), FirstAfterMax(f, s, isa)..(e - 1) }]
                  ELSE [free |-> TRUE, ks |-> {}]
          ELSE [free |-> TRUE, ks |-> {}]

KernelOK(f, isa, obs) == LET a == Allowed(f, isa) IN a.free \/ obs \in a.ks

(***************************************************************************)
(* Level A: --lines.  An item is [a, b, sep]: sep = "" for a single number *)
(* (a = b), "-" or ":" for the inclusive range a..b.                       *)
(***************************************************************************)
Named(items) == UNION { (items[i].a)..(items[i].b) : i \in DOMAIN items }
\* lines analysed with --lines: exactly the named lines that exist (non-blank) in the file
LinesExact(items, present, obs) == obs = Named(items) \cap present

(***************************************************************************)
(* Level A: transparency.  The numeric analysis (per-instruction numbers   *)
(* and summary numbers, instruction ordinals instead of line numbers) is a *)
(* function of the instruction sequence only.                              *)
(***************************************************************************)
NumFields == {"rows", "lat", "flags", "cpcell", "lcdcell", "sum", "tsum", "cp", "lcd", "lcds", "marks"}
FirstDiff(v, w) ==
  IF \E fld \in NumFields : v[fld] # w[fld]
  THEN CHOOSE fld \in NumFields : v[fld] # w[fld]
  ELSE "none"
SameAnalysis(v, w) == \A fld \in NumFields : v[fld] = w[fld]
AnalysisIsFunctionOfInstructions(vs) ==
  \A i, j \in DOMAIN vs : vs[i].instrs = vs[j].instrs => SameAnalysis(vs[i], vs[j])

(***************************************************************************)
(* Level B: the marker scan.  State record:                                *)
(*   idx   line under inspection (1-based)                                 *)
(*   start first kernel line (0 = not found)                               *)
(*   end   position of the end marker line (0 = not found)                 *)
(*   mode  "scan" | "bytes" (inside match_bytes) | "done"                  *)
(*   j, acc, pend   match_bytes cursor, collected bytes, "S"/"E" pending   *)
(***************************************************************************)
St0 == [idx |-> 1, start |-> 0, end |-> 0, mode |-> "scan", j |-> 0, acc |-> <<>>, pend |-> "-"]

Both(st)       == st.start # 0 /\ st.end # 0
CanScan(f, st) == st.mode = "scan" /\ ~Both(st) /\ st.idx <= Len(f)
Cur(f, st)     == f[st.idx]
NextIsDirective(f, st) == st.idx < Len(f) /\ IsDirective(f[st.idx + 1])

StopG(f, st) == st.mode = "scan" /\ (Both(st) \/ st.idx > Len(f))
StopU(f, st) == [st EXCEPT !.mode = "done"]

SeeBeginCommentG(f, st) == CanScan(f, st) /\ Cur(f, st).k = "begincmt"
SeeBeginCommentU(f, st) == [st EXCEPT !.start = st.idx + 1, !.idx = st.idx + 1]

SeeEndCommentG(f, st) == CanScan(f, st) /\ Cur(f, st).k = "endcmt"
SeeEndCommentU(f, st) == [st EXCEPT !.end = st.idx, !.idx = st.idx + 1]

SeeStartMovG(f, st) == CanScan(f, st) /\ Cur(f, st).k = "startmov" /\ NextIsDirective(f, st)
SeeStartMovU(f, st) == [st EXCEPT !.mode = "bytes", !.pend = "S", !.j = st.idx + 1, !.acc = <<>>]

SeeEndMovG(f, st) == CanScan(f, st) /\ Cur(f, st).k = "endmov" /\ NextIsDirective(f, st)
SeeEndMovU(f, st) == [st EXCEPT !.mode = "bytes", !.pend = "E", !.j = st.idx + 1, !.acc = <<>>]

MoreBytes(f, st) == st.j <= Len(f) /\ f[st.j].k = "bytes"
SeeBytesG(f, st) == st.mode = "bytes" /\ MoreBytes(f, st)
SeeBytesU(f, st) == [st EXCEPT !.acc = st.acc \o f[st.j].b, !.j = st.j + 1]

MatchDoneG(f, st) == st.mode = "bytes" /\ ~MoreBytes(f, st)
MatchDoneU(f, isa, st) ==
  LET hit == IsPrefix(Nop(isa), st.acc) IN
  [st EXCEPT !.mode = "scan", !.idx = st.idx + 1, !.j = 0, !.acc = <<>>, !.pend = "-",
             !.start = IF hit /\ st.pend = "S" THEN st.j ELSE st.start,
             !.end   = IF hit /\ st.pend = "E" THEN st.idx ELSE st.end]

SeeOtherG(f, st) ==
  /\ CanScan(f, st)
  /\ ~SeeBeginCommentG(f, st) /\ ~SeeEndCommentG(f, st)
  /\ ~SeeStartMovG(f, st) /\ ~SeeEndMovG(f, st)
SeeOtherU(f, st) == [st EXCEPT !.idx = st.idx + 1]

\* deterministic step (used by the trace module to run the scan on a recorded file)
Step(f, isa, st) ==
  IF StopG(f, st) THEN StopU(f, st)
  ELSE IF SeeBytesG(f, st) THEN SeeBytesU(f, st)
  ELSE IF MatchDoneG(f, st) THEN MatchDoneU(f, isa, st)
  ELSE IF SeeBeginCommentG(f, st) THEN SeeBeginCommentU(f, st)
  ELSE IF SeeEndCommentG(f, st) THEN SeeEndCommentU(f, st)
  ELSE IF SeeStartMovG(f, st) THEN SeeStartMovU(f, st)
  ELSE IF SeeEndMovG(f, st) THEN SeeEndMovU(f, st)
  ELSE SeeOtherU(f, st)
RECURSIVE RunScan(_, _, _)
RunScan(f, isa, st) == IF st.mode = "done" THEN st ELSE RunScan(f, isa, Step(f, isa, st))

\* reduce_to_section: missing start = beginning of file, missing end = end of file
Result(f, st) ==
  LET s0 == IF st.start = 0 THEN 1 ELSE st.start
      e0 == IF st.end = 0 THEN Len(f) + 1 ELSE st.end
  IN { p \in 1..Len(f) : s0 <= p /\ p < e0 }

\* compact text form of a file for emission: one code per line
RECURSIVE DigitsN(_, _)
DigitsN(bs, n) == IF n = 0 THEN "" ELSE DigitsN(bs, n - 1) \o ToString(bs[n])
Digits(bs) == DigitsN(bs, Len(bs))
Code(l) == CASE l.k = "instr" -> "i" [] l.k = "startmov" -> "S" [] l.k = "endmov" -> "E"
             [] l.k = "movval" -> "v" [] l.k = "movreg" -> "r" [] l.k = "bytes" -> "B" \o Digits(l.b)
             [] l.k = "directive" -> "d" [] l.k = "begincmt" -> "b" [] l.k = "endcmt" -> "e"
             [] l.k = "comment" -> "c" [] l.k = "label" -> "l"
Codes(f) == [i \in DOMAIN f |-> Code(f[i])]
=============================================================================
