---------------------------- MODULE MC_BenchImport ----------------------------
(* State machine shaped like db_interface.import_benchmark_output: the entries of a benchmark
   file are consumed in order into a dictionary keyed by the form (ibench: TP and LT lines of one
   form update one entry; asmbench: one block = one entry; the first malformed block stops the
   scan), then the model is dumped.  The file consumed so far is a history variable, so that the
   Level-A clauses (Snap, Merged, StopsAtMalformed, EveryFormEmitted) are stated over
   (file, db) with BenchImport's declarative definitions.  Every state is a file of its own; the
   dumped states are emitted and replayed through the real CLI (R2). *)
EXTENDS BenchImport
CONSTANTS Mode,         \* "ibench" | "asmbench"
          MaxEntries,
          FormIds0,     \* abstract form ids (rendered to concrete names by the harness)
          TPVals, LTVals,
          BadKinds      \* ways a block can be malformed (asmbench only)
VARIABLES file, db, stopped, dumped
vars == <<file, db, stopped, dumped>>

F(id) == [id |-> id]
\* emitted value of an outcome
TPValue(n) == IF n = 0 THEN -1 ELSE ((2 * 100000 + n) \div (2 * n)) * 10      \* round(1/n, 5)
LTValue(c) == IF c = 0 THEN -1 ELSE IF c = ZeroLT THEN 0 ELSE c * U
Put(id, tp, lt) == [x \in DOMAIN db \cup {id} |-> IF x = id THEN [tp |-> tp, lt |-> lt] ELSE db[x]]
Old(id) == IF id \in DOMAIN db THEN db[id] ELSE [tp |-> -1, lt |-> -1]

Init == file = <<>> /\ db = [x \in {} |-> 0] /\ stopped = FALSE /\ dumped = FALSE
Room == ~dumped /\ Len(file) < MaxEntries
IbenchTP == /\ Mode = "ibench" /\ Room
            /\ \E id \in FormIds0, m \in TPVals :
                 /\ file' = Append(file, [t |-> "tp", form |-> F(id), m |-> m])
                 /\ db' = Put(id, TPValue(SnapTP(m)), Old(id).lt)
            /\ UNCHANGED <<stopped, dumped>>
IbenchLT == /\ Mode = "ibench" /\ Room
            /\ \E id \in FormIds0, m \in LTVals :
                 /\ file' = Append(file, [t |-> "lt", form |-> F(id), m |-> m])
                 /\ db' = Put(id, Old(id).tp, LTValue(SnapLT(m)))
            /\ UNCHANGED <<stopped, dumped>>
AsmbenchBlock == /\ Mode = "asmbench" /\ Room /\ ~stopped
                 /\ \E id \in FormIds0, l \in LTVals, t \in TPVals :
                      /\ file' = Append(file, [t |-> "block", form |-> F(id), lt |-> l, tp |-> t])
                      /\ db' = Put(id, TPValue(SnapTP(t)), LTValue(SnapLT(l)))
                 /\ UNCHANGED <<stopped, dumped>>
Malformed == /\ Mode = "asmbench" /\ Room /\ ~stopped
             /\ \E id \in FormIds0, w \in BadKinds : file' = Append(file, [t |-> "bad", form |-> F(id), why |-> w])
             /\ stopped' = TRUE
             /\ UNCHANGED <<db, dumped>>
\* whatever follows a malformed block is not looked at
Ignored == /\ Mode = "asmbench" /\ Room /\ stopped
           /\ \/ \E id \in FormIds0, l \in LTVals, t \in TPVals : file' = Append(file, [t |-> "block", form |-> F(id), lt |-> l, tp |-> t])
              \/ \E id \in FormIds0, w \in BadKinds : file' = Append(file, [t |-> "bad", form |-> F(id), why |-> w])
           /\ UNCHANGED <<db, stopped, dumped>>
Dump == ~dumped /\ dumped' = TRUE /\ UNCHANGED <<file, db, stopped>>
Next == IbenchTP \/ IbenchLT \/ AsmbenchBlock \/ Malformed \/ Ignored \/ Dump
Spec == Init /\ [][Next]_vars

\* ------------------------------------------------------------------ Level A
L == Live(file)
EveryFormEmitted == FormIds(L) \subseteq DOMAIN db
StopsAtMalformed == /\ DOMAIN db \subseteq FormIds(L)
                    /\ (stopped <=> FirstBad(file) <= Len(file))
\* one entry per form carrying both of its values (db is a function: "merged" by construction of Put;
\* the clause checks the values come from the form's own lines)
Merged == \A id \in DOMAIN db : TPValueOk(L, id, db[id].tp) /\ LTValueOk(L, id, db[id].lt)
Snap == \A id \in DOMAIN db : /\ (db[id].tp = -1 \/ \E n \in NRange : TPRealises(db[id].tp, n))
                              /\ (db[id].lt = -1 \/ db[id].lt % U = 0)
\* sanity of the window arithmetic on the grid
WindowsDisjoint == \A m \in TPVals : Cardinality(TPSetA(m)) <= 1 /\ Cardinality(TPSetB(m)) <= 1
LevelBAllowed == \A m \in TPVals : SnapTP(m) \in AllowedTP(m)
LevelBAllowedLT == \A m \in LTVals : SnapLT(m) \in AllowedLT(m)
\* known points (hand-computed): 0.25 -> 1/4, 0.334 -> 1/3, 0.0909 -> missing (n = 11 is out of range),
\* 3.0 -> missing, 0.948 -> missing, 0.953 -> 1;  4.013 -> 4, 2.5 -> missing, 0.3 -> missing, 20.6 -> 21
KnownPoints == /\ AllowedTP(250000) = {4} /\ AllowedTP(334000) = {3} /\ AllowedTP(90900) = {0} /\ AllowedTP(3000000) = {0}
               /\ AllowedTP(948000) = {0} /\ AllowedTP(953000) = {1} /\ AllowedTP(951000) = {0, 1}
               /\ AllowedTP(105200) = {0, 10} /\ AllowedTP(105300) = {0} /\ AllowedTP(0) = {0}
               /\ AllowedLT(4013000) = {4} /\ AllowedLT(2500000) = {0} /\ AllowedLT(300000) = {0}
               /\ AllowedLT(20600000) = {21} /\ AllowedLT(3790000) = {0} /\ AllowedLT(3810000) = {4}
               /\ AllowedLT(4190000) = {4} /\ AllowedLT(4205000) = {0, 4} /\ AllowedLT(4220000) = {0}
               /\ TPValue(3) = 333330 /\ TPValue(6) = 166670 /\ TPValue(1) = 1000000 /\ TPValue(7) = 142860

Emit == dumped => CSVWrite("%1$s", <<ToJson([mode |-> Mode, file |-> file, db |-> db, stopped |-> stopped])>>, IOEnv.OUTFILE)
=============================================================================
