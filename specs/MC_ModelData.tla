---------------------------- MODULE MC_ModelData ----------------------------
(* R1 of C15: a bounded lattice of entry shapes over a 3-port model (one multi-character port
   name), every micro-op either good or carrying exactly one defect of the kinds the statement
   rules out.  TLC checks on every shape that the clause is one of the named ones, that a
   well-formed entry is representable and has a cost which is an exact feasible split
   (WellFormed => CostDefined), and that every defect is detected; the shapes are written out with
   their expected verdict and cost (R2: rendered to a YAML model and analysed by the real code). *)
EXTENDS ModelData, Json, CSV, IOUtils

MPorts == <<"0", "1", "2D">>
Cycles == {0, UNIT \div 2, UNIT, 2 * UNIT}
GoodPorts == { [pk |-> "str", ports |-> <<"0">>], [pk |-> "str", ports |-> <<"0", "1">>],
               [pk |-> "list", ports |-> <<"2D">>], [pk |-> "list", ports |-> <<"1", "2D">>],
               [pk |-> "list", ports |-> <<"0", "1", "2D">>], [pk |-> "list", ports |-> <<"1">>] }
GoodUops == { [n |-> 2, ck |-> "num", c |-> c, frac |-> 0, pk |-> g.pk, ports |-> g.ports] :
              c \in Cycles, g \in GoodPorts }
G0 == [n |-> 2, ck |-> "num", c |-> UNIT, frac |-> 0, pk |-> "str", ports |-> <<"0", "1">>]
BadUops == { [G0 EXCEPT !.n = 3], [G0 EXCEPT !.n = -1], [G0 EXCEPT !.n = 1],
             [G0 EXCEPT !.ck = "other", !.c = 0], [G0 EXCEPT !.c = -UNIT],
             [G0 EXCEPT !.pk = "other", !.ports = <<>>], [G0 EXCEPT !.ports = <<>>],
             [G0 EXCEPT !.pk = "list", !.ports = <<>>],
             [G0 EXCEPT !.ports = <<"D", "I", "V">>], [G0 EXCEPT !.ports = <<"D">>], [G0 EXCEPT !.pk = "list", !.ports = <<"67">>],
             [G0 EXCEPT !.pk = "list", !.ports = <<"0", "2">>] }
AllUops == GoodUops \cup BadUops
Alts(U, n) == UNION { [1..len -> U] : len \in 0..n }
NumKinds == { [k |-> "absent", neg |-> 0], [k |-> "null", neg |-> 0], [k |-> "num", neg |-> 0],
              [k |-> "num", neg |-> 1], [k |-> "other", neg |-> 0] }
OkNum == [k |-> "num", neg |-> 0]
PPShapes ==
  { [k |-> "absent", alts |-> <<>>], [k |-> "null", alts |-> <<>>], [k |-> "other", alts |-> <<>>],
    [k |-> "dict", alts |-> <<>>] }
  \cup { [k |-> "list", alts |-> <<a>>] : a \in Alts(AllUops, 2) }
  \cup { [k |-> "dict", alts |-> <<a, b>>] : a \in Alts(AllUops, 1), b \in Alts(AllUops, 1) }
Base(pp, tp, lat) == [kind |-> "form", mports |-> MPorts, unit |-> UNIT, nk |-> "str", isa |-> "x86",
                      regs |-> <<"gpr", "gpr">>,
                      ops |-> <<"register", "register">>, pp |-> pp, tp |-> tp, lat |-> lat]
PP0 == [k |-> "list", alts |-> << <<G0>> >>]
Shapes == { Base(pp, OkNum, OkNum) : pp \in PPShapes }
          \cup { Base(PP0, tp, lat) : tp \in NumKinds, lat \in NumKinds }
          \cup { [Base(PP0, OkNum, OkNum) EXCEPT !.ops = <<"register", "bogus">>],
                 [Base(PP0, OkNum, OkNum) EXCEPT !.nk = "other"],
                 [Base(PP0, OkNum, OkNum) EXCEPT !.regs = <<"gpr", "mm0">>],
                 [Base(PP0, OkNum, OkNum) EXCEPT !.kind = "table"],
                 [Base([k |-> "list", alts |-> << <<[G0 EXCEPT !.ports = <<"D">>]>> >>], OkNum, OkNum)
                    EXCEPT !.kind = "table"] }

VARIABLE e
Init == e \in Shapes
Next == UNCHANGED e
Spec == Init /\ [][Next]_e

ClauseNames == {"ok", "uop-not-a-pair", "cycles-not-a-number", "cycles-negative", "ports-not-a-collection",
                "ports-empty", "unknown-port", "port-pressure-not-a-list", "no-alternative",
                "throughput-not-a-number", "throughput-negative", "latency-not-a-number",
                "latency-negative", "name", "operand-class", "unreachable-register-class"}
ClauseNamed == WfClause(e) \in ClauseNames
\* no defect goes unnoticed: an entry containing a bad micro-op / number is not well-formed
UsesBad == \E a \in DOMAIN e.pp.alts : \E x \in DOMAIN e.pp.alts[a] : e.pp.alts[a][x] \in BadUops
DefectsDetected ==
  (UsesBad \/ e.pp.k = "other" \/ (e.pp.k = "dict" /\ e.pp.alts = <<>>)
   \/ (e.kind = "form" /\ (e.tp.k = "other" \/ e.tp.neg = 1 \/ e.lat.k = "other" \/ e.lat.neg = 1))
   \/ e.nk = "other" \/ \E i \in DOMAIN e.ops : e.ops[i] = "bogus"
   \/ (e.kind = "form" /\ \E j \in DOMAIN e.regs : e.regs[j] = "mm0"))
  <=> ~WellFormed(e)
WellFormedHasCost == WellFormed(e) /\ HasCost(e) => CostRepresentable(e)
CostIsFeasible == WellFormed(e) => CostDefined(e)
\* the cost of a well-formed entry spends exactly its cycles
CostSum == WellFormed(e) /\ HasCost(e) =>
  \A a \in DOMAIN e.pp.alts :
     SumFn(Cost(e, a), 1..NPorts(e)) = TotalCycles(AsUops(e, e.pp.alts[a]))

Emit == CSVWrite("%1$s", <<ToJson([ e |-> e, wf |-> WfClause(e),
          cost |-> IF WellFormed(e) /\ HasCost(e)
                   THEN [ a \in DOMAIN e.pp.alts |-> Cost(e, a) ] ELSE <<>> ])>>, IOEnv.OUTFILE)
=============================================================================
