CONSTANTS
  MaxMid = 2
  Disp <- DispDefault
  CopyChainNotResolved = TRUE
  PostIndexUnknown = TRUE
SPECIFICATION Spec
INVARIANT MustLink
INVARIANT MustNotLink
INVARIANT StoreEndsSearch
CHECK_DEADLOCK FALSE
