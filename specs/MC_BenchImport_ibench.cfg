CONSTANT Mode = "ibench"
CONSTANT MaxEntries = 3
CONSTANT FormIds0 = {"A", "B", "C"}
CONSTANT TPVals = {334000, 420000}
CONSTANT LTVals = {4013000, 2500000}
CONSTANT BadKinds = {}
SPECIFICATION Spec
INVARIANT EveryFormEmitted
INVARIANT StopsAtMalformed
INVARIANT Merged
INVARIANT Snap
INVARIANT WindowsDisjoint
INVARIANT LevelBAllowed
INVARIANT LevelBAllowedLT
INVARIANT KnownPoints
CONSTRAINT Emit
CHECK_DEADLOCK FALSE
