CONSTANT NLines = 3
SPECIFICATION Spec
INVARIANT ClosedForm
INVARIANT LevelA
INVARIANT TotalsXorMissing
INVARIANT NoTotalsUnlessIgnored
INVARIANT WarningStatesNumber
INVARIANT EachBlockOnce
CONSTRAINT Emit
CHECK_DEADLOCK FALSE
