CONSTANT InPlaceMutation = TRUE
CONSTANT DeadlineOnProcessClock = FALSE
CONSTANT AgeLimit = 2
CONSTANT MaxAge = 0
CONSTANT ModelReused = TRUE
CONSTANT TreeKinds = 16
CONSTANT MaxLen = 2
SPECIFICATION Spec
INVARIANT TypeOK
INVARIANT ReportIsFunctionOfRequest
CHECK_DEADLOCK FALSE
