CONSTANT InPlaceMutation = TRUE
CONSTANT ModelReused = FALSE
SPECIFICATION TraceSpec
INVARIANT Check
POSTCONDITION AllConsumed
CHECK_DEADLOCK FALSE
