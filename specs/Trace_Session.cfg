CONSTANT InPlaceMutation = TRUE
CONSTANT DeadlineOnProcessClock = FALSE
CONSTANT AgeLimit = 2
CONSTANT MaxAge = 3
CONSTANT ModelReused = FALSE
SPECIFICATION TraceSpec
INVARIANT Check
POSTCONDITION AllConsumed
CHECK_DEADLOCK FALSE
