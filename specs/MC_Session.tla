------------------------------ MODULE MC_Session ------------------------------
(* All call histories of length <= MaxLen over the request kinds within one process.
   Level A: the report of every analysis equals the fresh-process reference of its request,
   whatever was analysed before; Level B: what the process shares between calls never changes.
   Every generated transition writes out its history (R2). *)
EXTENDS Session
CONSTANTS MaxLen, TreeKinds     \* histories are enumerated over the request kinds 1..TreeKinds
VARIABLES s, hist
vars == <<s, hist>>

Init == s = InitSession /\ hist = <<>>
Analyze(r) == /\ Len(hist) < MaxLen
              /\ s' = AnalyzeEffect(s, r)
              /\ hist' = Append(hist, r)
Work == /\ s.age < MaxAge /\ s' = WorkEffect(s) /\ hist' = hist
\* a new process: nothing is carried over
FreshProcess == /\ (hist # <<>> \/ s.age > 0) /\ s' = InitSession /\ hist' = <<>>
Next == (\E r \in 1..TreeKinds : Analyze(r)) \/ Work \/ FreshProcess
Spec == Init /\ [][Next]_vars

TypeOK == s.loaded \subseteq Archs /\ s.parsers \subseteq Isas /\ s.age \in 0..MaxAge
ReportIsFunctionOfRequest == hist # <<>> => s.last = Ref(hist[Len(hist)])
SharedUnchanged == [][s'.shared = s.shared]_vars
LoadedGrows == [][FreshProcess \/ s.loaded \subseteq s'.loaded]_vars
\* Work is invisible: it changes nothing an analysis reads
WorkChangesOnlyTheClock == [][Work => [s' EXCEPT !.age = 0] = [s EXCEPT !.age = 0]]_vars

Emit == (hist # <<>>) =>
   CSVWrite("%1$s", <<ToJson([h |-> hist,
                              exp |-> [i \in DOMAIN hist |-> Ref(hist[i])],
                              loaded |-> s.loaded, parsers |-> s.parsers])>>, IOEnv.OUTFILE)
=============================================================================
