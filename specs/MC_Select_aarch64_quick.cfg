CONSTANT ISA = "aarch64"
CONSTANT MaxPro = 1
CONSTANT MaxBody = 2
CONSTANT MaxEpi = 1
CONSTANT Styles = {"one", "sep", "split", "cmt", "none"}
CONSTANT EdgeCodes = {"i", "c", "S", "B0"}
SPECIFICATION Spec
INVARIANT TypeOK
INVARIANT KernelIsStrictlyBetween
INVARIANT WholeFileOtherwise
INVARIANT DeclarativeAgrees
INVARIANT LookAlikesInert
INVARIANT StopsAtEndMarker
INVARIANT KernelHasNoMarkerLine
CONSTRAINT Emit
CHECK_DEADLOCK FALSE
