------------------------------- MODULE Compose -------------------------------
(***************************************************************************)
(* Memory-operand forms are composed of the register form and the model's  *)
(* load / store micro-ops (property C08).  Pure definitions; used by the   *)
(* kernel-level state machine MC_Compose and by Trace_Compose.             *)
(*                                                                         *)
(* Cycles are integers in units of 1/12000 cycle (PortModel.UNIT).         *)
(* model  [isa, np, entries, ld, ldd, st, std, hasldm, hasstm, types]      *)
(*   entries  candidate forms in file order: [n, ops, tp, lat, u]          *)
(*            (n name, ops operand kinds of Lookup, u micro-ops [c, p])    *)
(*   ld / st  load / store table rows in file order: [mem, ty, u]          *)
(*            (mem addressing shape = a Lookup memory kind, ty declared    *)
(*             register type, "" = none)                                   *)
(*   ldd/std  default micro-ops;  types: sequence of [ty, lat, lm, sm]     *)
(*            (load latency, 2 x load / store multiplier of a type)        *)
(* instruction  [n, ops, roles]   roles[i] in {"s", "d", "sd", "-"}        *)
(* result  [unk, tp, lat, lw, pr, uo]  (uo: micro-ops [c, p] as a bag)     *)
(*                                                                         *)
(* Named deviations of the implementation (switches, DESIGN section 2):    *)
(*   "InPlaceRowExtension"  F8: a form that loads AND stores appends the   *)
(*        store micro-ops to the chosen load ROW OF THE MODEL              *)
(*   "RowIndexFlagsDropped" the pre-/post-indexed attributes of table rows *)
(*        are lost when the model is loaded (AArch64)                      *)
(*   "A64StoreDropped"      AArch64: the store micro-ops are dropped unless*)
(*        a non-indexed memory operand is read AND written                 *)
(*   "A64TypeIgnored"       AArch64: a typed row matches every type        *)
(* Open points: store rows without declared type (F13): the first such row *)
(*   of the shape or the default; open points of the addressing-shape match*)
(*   (Lookup O5-O7); AArch64 read-modify-write through a pre-/post-indexed *)
(*   operand: with or without store micro-ops.                             *)
(***************************************************************************)
EXTENDS Lookup, PortModel

AllDevs == {"InPlaceRowExtension", "RowIndexFlagsDropped", "A64StoreDropped", "A64TypeIgnored"}

\* ---------------------------------------------------------------- helpers
Zeros(n) == [q \in 1..n |-> 0]
AddRows(a, b) == [q \in DOMAIN a |-> a[q] + b[q]]
Mx(a, b) == IF a >= b THEN a ELSE b
\* micro-ops [c, p] -> PortModel micro-ops with multiplier m2 (= 2 x multiplier)
WithMul(u, m2) == [x \in DOMAIN u |-> [c |-> u[x].c, p |-> u[x].p, m |-> m2]]
Row(u, m2, np) == UniformRow(WithMul(u, m2), np)
BagOf(s) == LET R == {s[x] : x \in DOMAIN s} IN [e \in R |-> Cardinality({x \in DOMAIN s : s[x] = e})]

TypeRec(m, ty) == LET S == {x \in DOMAIN m.types : m.types[x].ty = ty} IN
                  IF S = {} THEN [ty |-> ty, lat |-> 0, lm |-> 2, sm |-> 2, known |-> FALSE]
                  ELSE LET t == m.types[CHOOSE x \in S : TRUE] IN
                       [ty |-> ty, lat |-> t.lat, lm |-> t.lm, sm |-> t.sm, known |-> TRUE]

\* ---------------------------------------------------------------- which operand, which roles
MemPos(ins) == {p \in DOMAIN ins.ops : ins.ops[p].k = "mem"}
FirstMem(ins) == CHOOSE p \in MemPos(ins) : \A q \in MemPos(ins) : p <= q
IsLoad(ins)  == \E p \in MemPos(ins) : ins.roles[p] \in {"s", "sd"}
IsStore(ins) == \E p \in MemPos(ins) : ins.roles[p] \in {"d", "sd"}
\* the operand that is loaded from: sources first, then operands read and written; same for stores
Mn(S) == CHOOSE p \in S : \A q \in S : p <= q
Pick(ins, first, second) ==
  LET A == {p \in MemPos(ins) : ins.roles[p] = first}
      B == {p \in MemPos(ins) : ins.roles[p] = second}
  IN ins.ops[IF A # {} THEN Mn(A) ELSE Mn(B)]
LoadOp(ins)  == Pick(ins, "s", "sd")
StoreOp(ins) == Pick(ins, "d", "sd")
RegForm(ins) == [p \in DOMAIN ins.ops |->
                   IF ins.ops[p].k = "mem" THEN [ins.ops[p] EXCEPT !.k = "rw"] ELSE ins.ops[p]]
\* register type = the class the register form declares at the (first) memory position
RegType(e, ins) == e.ops[FirstMem(ins)].c
\* a register form that declares "any register" there leaves the type open: every type of the model
RegTypes(m, e, ins) == IF RegType(e, ins) = "*" THEN {m.types[x].ty : x \in DOMAIN m.types} ELSE {RegType(e, ins)}

\* ---------------------------------------------------------------- row choice
RowMem(isa, r, D) == IF "RowIndexFlagsDropped" \in D /\ isa = "aarch64"
                     THEN [r.mem EXCEPT !.pre = "f", !.post = "f"] ELSE r.mem
ShapeV(isa, r, w, D) == MemMatch(isa, RowMem(isa, r, D), w)
TypeOk(isa, r, ty, D) == r.ty # "" /\ (r.ty = ty \/ ("A64TypeIgnored" \in D /\ isa = "aarch64"))
\* every resolution of the open shape matches: the set of row index sets that may "match the shape"
ShapeSets(isa, rows, w, D) ==
  LET Y == {x \in DOMAIN rows : ShapeV(isa, rows[x], w, D) = "Y"}
      O == {x \in DOMAIN rows : ShapeV(isa, rows[x], w, D) = "O"}
  IN {Y \cup X : X \in SUBSET O}
\* load: first row of the shape whose type is the register type, else first row of the shape,
\* else the default (row index 0)
LoadRows(isa, rows, w, ty, D) ==
  { LET T == {x \in S : TypeOk(isa, rows[x], ty, D)} IN
      IF T # {} THEN Mn(T) ELSE IF S # {} THEN Mn(S) ELSE 0 : S \in ShapeSets(isa, rows, w, D) }
\* store: first row of the shape whose type is the register type, else the default; rows without
\* a declared type are left open (F13)
StoreRows(isa, rows, w, ty, D) ==
  UNION { LET T == {x \in S : TypeOk(isa, rows[x], ty, D)}
              U == {x \in S : rows[x].ty = ""}
          IN IF T # {} THEN {Mn(T)} ELSE IF U # {} THEN {Mn(U), 0} ELSE {0} : S \in ShapeSets(isa, rows, w, D) }

\* ---------------------------------------------------------------- results
\* lu: the latency is FLAGGED as unknown (lt_unknown) - exactly when no latency is known, never for a known latency of 0
Unknown(np) == [unk |-> TRUE, lu |-> TRUE, tp |-> 0, lat |-> 0, lw |-> 0, pr |-> Zeros(np), uo |-> << >>]
\* an entry may declare no throughput / latency (-1): the value is then 0; the instruction counts as
\* unknown only if both are missing
NonNeg(x) == IF x < 0 THEN 0 ELSE x
OwnResult(m, e) == [unk |-> (e.tp < 0 /\ e.lat < 0), lu |-> (e.lat < 0), tp |-> NonNeg(e.tp), lat |-> NonNeg(e.lat), lw |-> NonNeg(e.lat),
                    pr |-> Row(e.u, 2, m.np), uo |-> e.u]

\* does the form store at all?  (AArch64: an operand that is read and written only because its
\* base register is updated is no store; "A64StoreDropped": the implementation's wider test)
StoreChoices(m, ins, D) ==
  IF ~IsStore(ins) THEN {FALSE}
  ELSE IF m.isa # "aarch64" THEN {TRUE}
  ELSE LET sd == {p \in MemPos(ins) : ins.roles[p] = "sd"}
           allIdx == \A p \in sd : ins.ops[p].pre = "t" \/ ins.ops[p].post = "t"
           pureDst == \E p \in MemPos(ins) : ins.roles[p] = "d"
       IN IF "A64StoreDropped" \in D THEN {~allIdx}
          ELSE IF pureDst \/ ~allIdx THEN {TRUE}
          ELSE {TRUE, FALSE}

\* the composed result for register form e, load row lr, store row sr (0 = default) on tables T
Composed(m, T, ins, e, ty, lr, sr, stores) ==
  LET tr == TypeRec(m, ty)
      ldu == IF IsLoad(ins) THEN (IF lr = 0 THEN T.ldd ELSE T.ld[lr].u) ELSE << >>
      stu == IF stores THEN (IF sr = 0 THEN T.std ELSE T.st[sr].u) ELSE << >>
      data == AddRows(Row(ldu, IF m.hasldm THEN tr.lm ELSE 2, m.np), Row(stu, IF m.hasstm THEN tr.sm ELSE 2, m.np))
  IN [unk |-> FALSE, lu |-> (e.lat < 0),
      tp |-> Mx(e.tp, MaxSeq(data)),
      lat |-> e.lat + (IF IsLoad(ins) THEN tr.lat ELSE 0),
      lw |-> e.lat,
      pr |-> AddRows(Row(e.u, 2, m.np), data),
      uo |-> e.u \o ldu \o stu]

\* tables after the instruction (only a deviation changes them)
After(T, ins, lr, sr, stores, D) ==
  IF "InPlaceRowExtension" \in D /\ IsLoad(ins) /\ IsStore(ins) /\ lr # 0
  THEN [T EXCEPT !.ld[lr].u = @ \o (IF stores THEN (IF sr = 0 THEN T.std ELSE T.st[sr].u) ELSE << >>)]
  ELSE T

Tables(m) == [ld |-> m.ld, ldd |-> m.ldd, st |-> m.st, std |-> m.std]

\* all <<result, tables'>> the specification allows for one instruction on tables T
StepSet(m, T, ins, D) ==
  LET own == FindAllowed(m.isa, m.entries, ins.n, ins.ops)
      hasmem == MemPos(ins) # {} /\ (IsLoad(ins) \/ IsStore(ins))
      reg == IF hasmem THEN FindAllowed(m.isa, m.entries, ins.n, RegForm(ins)) ELSE {0}
      ownRes == { <<OwnResult(m, m.entries[j]), T>> : j \in own \ {0} }
      unkRes == IF 0 \in own /\ 0 \in reg THEN { <<Unknown(m.np), T>> } ELSE {}
      cmpRes == IF 0 \notin own THEN {} ELSE
        UNION { UNION { LET e == m.entries[r]
                            LR == IF IsLoad(ins) THEN LoadRows(m.isa, T.ld, LoadOp(ins), ty, D) ELSE {0}
                            SR == IF IsStore(ins) THEN StoreRows(m.isa, T.st, StoreOp(ins), ty, D) ELSE {0}
                        IN { <<Composed(m, T, ins, e, ty, lr, sr, s), After(T, ins, lr, sr, s, D)>> :
                               lr \in LR, sr \in SR, s \in StoreChoices(m, ins, D) }
                      : ty \in RegTypes(m, m.entries[r], ins) }
              : r \in reg \ {0} }
  IN ownRes \cup unkRes \cup cmpRes

\* the results of an instruction analysed ALONE on the model's own tables (Level A reference)
Alone(m, ins) == { x[1] : x \in StepSet(m, Tables(m), ins, {}) }

\* observed result o agrees with specified result r
SameUops(a, b) == BagOf(a) = BagOf(b)
Agrees(r, o) == /\ r.unk = o.unk /\ r.lu = o.lu /\ r.tp = o.tp /\ r.lat = o.lat /\ r.lw = o.lw
                /\ r.pr = o.pr /\ SameUops(r.uo, o.uo)

\* ---------------------------------------------------------------- following a recorded kernel
\* Ts: set of table states consistent with the observations so far.  Returns 0 if the whole
\* kernel is accepted, else the (1-based) position of the first instruction that is not.
RECURSIVE FollowFrom(_, _, _, _, _, _)
FollowFrom(m, kernel, obs, D, k, Ts) ==
  IF k > Len(kernel) THEN 0
  ELSE LET nxt == UNION { { x[2] : x \in { y \in StepSet(m, T, kernel[k], D) : Agrees(y[1], obs[k]) } } : T \in Ts }
       IN IF nxt = {} THEN k ELSE FollowFrom(m, kernel, obs, D, k + 1, nxt)
Follow(m, kernel, obs, D) == FollowFrom(m, kernel, obs, D, 1, {Tables(m)})

\* which field of the observation no allowed result agrees with (diagnosis of a rejected position)
FieldClause(m, kernel, obs, k) ==
  LET R == Alone(m, kernel[k]) o == obs[k] IN
  IF \A r \in R : r.unk # o.unk THEN (IF o.unk THEN "flagged-unknown" ELSE "not-flagged-unknown")
  ELSE IF \A r \in R : r.lu # o.lu THEN (IF o.lu THEN "latency-flagged-unknown" ELSE "latency-not-flagged-unknown")
  ELSE IF \A r \in R : ~SameUops(r.uo, o.uo) THEN "uops"
  ELSE IF \A r \in R : r.pr # o.pr THEN "pressure"
  ELSE IF \A r \in R : r.tp # o.tp THEN "throughput"
  ELSE IF \A r \in R : r.lat # o.lat THEN "latency"
  ELSE IF \A r \in R : r.lw # o.lw THEN "latency_wo_load"
  ELSE IF \E r \in R : Agrees(r, o) THEN "depends-on-other-instructions"
  ELSE "combination"
=============================================================================
