CONSTANT NProcs = 2
CONSTANT NContents = 3
CONSTANT AtomicWrite = FALSE
CONSTANT TolerantRead = FALSE
CONSTANT ReadOnce = FALSE
CONSTANT RtServes = FALSE
SPECIFICATION TraceSpec
INVARIANT Check
POSTCONDITION AllConsumed
CHECK_DEADLOCK FALSE
