------------------------------ MODULE MC_Lookup ------------------------------
(***************************************************************************)
(* The entry scan of MachineModel.get_instruction + the suffix fall-backs  *)
(* of assign_tp_lt as a state machine (Level B), checked against the       *)
(* declarative FindAllowed of Lookup (Level A).                            *)
(*                                                                         *)
(* MODE "table": one single-operand entry x one written operand, for the   *)
(*   COMPLETE entry-kind x written-kind table of the ISA.                  *)
(* MODE "lists": entry lists of length <= MAXLEN over a small alphabet     *)
(*   (two mnemonics related by the suffix fall-back, duplicates, shadowing,*)
(*   wildcard-before-specific, different arities) x queries in lower,      *)
(*   upper and mixed case.                                                 *)
(* Every initial state is emitted (R2) with the set of allowed results.    *)
(***************************************************************************)
EXTENDS Lookup
CONSTANTS ISA, MODE, MAXLEN

K0 == [k |-> "", c |-> "", s |-> "", m |-> "", t |-> "", b |-> "", o |-> "", i |-> "",
       sc |-> "", pre |-> "", post |-> ""]
Reg(c, s, m) == [K0 EXCEPT !.k = "reg", !.c = c, !.s = s, !.m = m]
Imm(t) == [K0 EXCEPT !.k = "imm", !.t = t]
Idf == [K0 EXCEPT !.k = "id"]
Cc(t) == [K0 EXCEPT !.k = "cc", !.t = t]
Prf(t) == [K0 EXCEPT !.k = "prf", !.t = t]
Mem(b, o, i, sc, pre, post) ==
  [K0 EXCEPT !.k = "mem", !.b = b, !.o = o, !.i = i, !.sc = sc, !.pre = pre, !.post = post]

\* mixed-radix decoding helper: digit d (radices rs) of n
Dig(n, below, r) == (n \div below) % r

\* ---------------------------------------------------------------- x86 kinds
XRegE == <<"gpr", "xmm", "ymm", "zmm", "mm", "k", "*">>
XRegW == <<"gpr", "xmm", "ymm", "zmm", "mm", "k", "st">>
XB == <<"", "gpr", "*">>
XO == <<"", "imd", "id", "*">>
XI == <<"", "gpr", "*">>
XS == <<"1", "n", "*", "">>
XMemE(n) == Mem(XB[1 + Dig(n, 1, 3)], XO[1 + Dig(n, 3, 4)], XI[1 + Dig(n, 12, 3)], XS[1 + Dig(n, 36, 4)], "f", "f")
X86EK == [j \in 1..14 |-> Reg(XRegE[1 + ((j - 1) % 7)], "", IF j > 7 THEN "y" ELSE "")]
         \o <<Imm("int"), Imm("*"), Idf>>
         \o [n \in 1..144 |-> XMemE(n - 1)]
\* written memory operands: (base, offset, index, scale)
XMemW == << <<"gpr", "", "", "1">>, <<"gpr", "imd", "", "1">>, <<"gpr", "imd0", "", "1">>, <<"gpr", "id", "", "1">>,
            <<"gpr", "", "gpr", "1">>, <<"gpr", "", "gpr", "n">>, <<"gpr", "imd", "gpr", "1">>, <<"gpr", "imd", "gpr", "n">>,
            <<"gpr", "imd0", "gpr", "n">>, <<"gpr", "id", "gpr", "n">>,
            <<"", "", "gpr", "1">>, <<"", "", "gpr", "n">>, <<"", "imd", "gpr", "n">>, <<"", "id", "gpr", "n">>,
            <<"", "imd", "", "1">>, <<"", "imd0", "", "1">>,
            \* gather / scatter addresses: a vector register as index
            <<"gpr", "", "ymm", "n">>, <<"gpr", "imd", "xmm", "n">>, <<"gpr", "", "zmm", "1">> >>
X86WK == [j \in 1..7 |-> Reg(XRegW[j], "", "")]
         \o <<Reg("zmm", "", "y"), Reg("xmm", "", "y"), Imm("int"), Idf>>
         \o [j \in 1..Len(XMemW) |-> Mem(XMemW[j][1], XMemW[j][2], XMemW[j][3], XMemW[j][4], "f", "f")]

\* ---------------------------------------------------------------- AArch64 kinds
AScalar == <<"x", "w", "b", "h", "s", "d", "q">>
AVecE == <<"v", "z", "p", "*">>
AShE == <<"", "b", "h", "s", "d", "*">>
AVecW == <<"v", "z", "p">>
AShW == <<"", "b", "h", "s", "d">>
AB == <<"", "x", "*">>
AO == <<"", "imd", "id", "*">>
AI == <<"", "x", "w", "*">>
AS == <<"1", "n", "*", "">>
AF == <<"f", "t", "*">>
AMemE(n) == Mem(AB[1 + Dig(n, 1, 3)], AO[1 + Dig(n, 3, 4)], AI[1 + Dig(n, 12, 4)], AS[1 + Dig(n, 48, 4)],
                AF[1 + Dig(n, 192, 3)], AF[1 + Dig(n, 576, 3)])
A64EK == [j \in 1..7 |-> Reg(AScalar[j], "", "")]
         \o [j \in 1..24 |-> Reg(AVecE[1 + ((j - 1) % 4)], AShE[1 + ((j - 1) \div 4)], "")]
         \o <<Imm("int"), Imm("float"), Imm("double"), Imm("*"), Idf, Cc("EQ"), Cc("NE"), Cc("*"),
              Prf("*"), Prf("pldl1keep")>>
         \o [n \in 1..1728 |-> AMemE(n - 1)]
\* written memory operands: (offset, index, scale) x (pre, post)
AMemW == << <<"", "", "1">>, <<"imd", "", "1">>, <<"imd0", "", "1">>, <<"id", "", "1">>,
            <<"", "x", "1">>, <<"", "x", "n">>, <<"", "w", "1">>, <<"", "w", "n">> >>
APP == << <<"f", "f">>, <<"t", "f">>, <<"f", "t">> >>
A64WK == [j \in 1..7 |-> Reg(AScalar[j], "", "")]
         \o [j \in 1..15 |-> Reg(AVecW[1 + ((j - 1) % 3)], AShW[1 + ((j - 1) \div 3)], "")]
         \o <<Imm("int"), Imm("float"), Imm("double"), Idf, Cc("EQ"), Cc("NE"), Prf("pldl1keep")>>
         \o [j \in 1..24 |-> Mem("x", AMemW[1 + ((j - 1) % 8)][1], AMemW[1 + ((j - 1) % 8)][2],
                                  AMemW[1 + ((j - 1) % 8)][3], APP[1 + ((j - 1) \div 8)][1], APP[1 + ((j - 1) \div 8)][2])]

\* ---------------------------------------------------------------- alphabets
NOp  == <<"o", "p">>
NOpQ == IF ISA = "x86" THEN <<"o", "p", "q">> ELSE <<"o", "p", ".", "s">>

\* lists mode: operand lists of entries / queries
XG == Reg("gpr", "", "")
XMb == Mem("gpr", "", "", "1", "f", "f")
AX == Reg("x", "", "")
AMb == Mem("x", "", "", "1", "f", "f")
ListEOps == IF ISA = "x86"
  THEN << <<XG>>, <<Reg("*", "", "")>>, <<Reg("xmm", "", "")>>, <<XG, XG>>,
          <<Mem("*", "*", "*", "*", "f", "f")>>, <<XMb>> >>
  ELSE << <<AX>>, <<Reg("*", "", "")>>, <<Reg("v", "s", "")>>, <<AX, AX>>,
          <<Mem("*", "*", "*", "*", "*", "*")>>, <<AMb>> >>
ListQOps == IF ISA = "x86"
  THEN << <<XG>>, <<Reg("xmm", "", "")>>, <<Reg("k", "", "")>>, <<XG, XG>>, <<XMb>>,
          <<Mem("gpr", "imd", "gpr", "n", "f", "f")>>, << >> >>
  ELSE << <<AX>>, <<Reg("w", "", "")>>, <<Reg("v", "s", "")>>, <<Reg("v", "", "")>>, <<AX, AX>>, <<AMb>>,
          <<Mem("x", "imd", "", "1", "t", "f")>>, << >> >>
ListQNames == IF ISA = "x86"
  THEN << <<"o", "p">>, <<"O", "P">>, <<"o", "p", "q">>, <<"O", "P", "Q">>, <<"o", "P", "q">>, <<"o", "p", "Q">>,
          <<"o", "p", "q", "s">>, <<"o", "p", "s", "q">>, <<"o", "p", "x">>,
          <<"o", "p", "b">>, <<"o", "p", "w">>, <<"o", "p", "l">>, <<"o", "p", "t">> >>
  ELSE << <<"o", "p">>, <<"O", "P">>, <<"o", "p", ".", "s">>, <<"O", "p", ".", "S">>, <<"o", "p", ".", "d">>,
          <<"o", "p", ".", "s", ".", "x">>, <<"o", "p", "s">> >>

EK == IF ISA = "x86" THEN X86EK ELSE A64EK
WK == IF ISA = "x86" THEN X86WK ELSE A64WK

EntryAlpha == IF MODE = "table"
  THEN [j \in 1..Len(EK) |-> [n |-> NOp, ops |-> <<EK[j]>>]]
  ELSE [j \in 1..(2 * Len(ListEOps)) |->
          [n |-> IF j <= Len(ListEOps) THEN NOp ELSE NOpQ, ops |-> ListEOps[1 + ((j - 1) % Len(ListEOps))]]]
QNames == IF MODE = "table" THEN <<NOp>> ELSE ListQNames
QOps == IF MODE = "table" THEN [j \in 1..Len(WK) |-> <<WK[j]>>] ELSE ListQOps

\* ---------------------------------------------------------------- state machine
VARIABLES el,      \* the model: sequence of indices into EntryAlpha (file order)
          qn, qo,  \* the instruction: index of its mnemonic / operand list
          phase,   \* 1 = mnemonic as written, 2 = after the suffix fall-back
          pos,     \* scan position
          found,   \* result: entry position, 0 = none
          done
vars == <<el, qn, qo, phase, pos, found, done>>

Entries == [j \in 1..Len(el) |-> EntryAlpha[el[j]]]
QName == QNames[qn]
CurName == IF phase = 1 THEN QName ELSE Drop(ISA, QName)
Ops == QOps[qo]

Lists == IF MODE = "table" THEN { <<j>> : j \in 1..Len(EntryAlpha) }
         ELSE UNION { [1..len -> 1..Len(EntryAlpha)] : len \in 1..MAXLEN }

Init == /\ el \in Lists /\ qn \in 1..Len(QNames) /\ qo \in 1..Len(QOps)
        /\ phase = 1 /\ pos = 1 /\ found = 0 /\ done = FALSE

\* examine the entry at the scan position; an open point is resolved either way
TryEntry ==
  /\ ~done /\ pos <= Len(el)
  /\ LET e == Entries[pos] IN
       IF NameEq(e.n, CurName)
         THEN LET v == OpsMatch(ISA, e.ops, Ops) IN
              \E hit \in (IF v = "Y" THEN {TRUE} ELSE IF v = "N" THEN {FALSE} ELSE BOOLEAN) :
                 IF hit THEN found' = pos /\ done' = TRUE /\ pos' = pos
                        ELSE pos' = pos + 1 /\ UNCHANGED <<found, done>>
         ELSE pos' = pos + 1 /\ UNCHANGED <<found, done>>
  /\ UNCHANGED <<el, qn, qo, phase>>
DropSuffix ==
  /\ ~done /\ pos > Len(el) /\ phase = 1 /\ CanDrop(ISA, QName)
  /\ phase' = 2 /\ pos' = 1
  /\ UNCHANGED <<el, qn, qo, found, done>>
GiveUp ==
  /\ ~done /\ pos > Len(el) /\ (phase = 2 \/ ~CanDrop(ISA, QName))
  /\ done' = TRUE /\ found' = 0
  /\ UNCHANGED <<el, qn, qo, phase, pos>>
Next == TryEntry \/ DropSuffix \/ GiveUp
Spec == Init /\ [][Next]_vars

\* ---------------------------------------------------------------- Level A
SomeMust == \E i \in Cand(Entries, QName) : Must(ISA, Entries, i, Ops)
SomeMustDropped == CanDrop(ISA, QName) /\ \E i \in Cand(Entries, Drop(ISA, QName)) : Must(ISA, Entries, i, Ops)
SomeMay == (\E i \in Cand(Entries, QName) : May(ISA, Entries, i, Ops))
           \/ (CanDrop(ISA, QName) /\ \E i \in Cand(Entries, Drop(ISA, QName)) : May(ISA, Entries, i, Ops))

\* found iff some entry matches (names agree incl. fall-back, every operand agrees, equal count)
FoundIffSomeMatch ==
  done => /\ (SomeMust \/ SomeMustDropped) => found # 0
          /\ found # 0 => SomeMay
\* the first matching entry in file order supplies the data; the fall-back only when the
\* mnemonic as written has no matching entry
FirstMatchWins ==
  (done /\ found # 0) =>
     /\ \A j \in Cand(Entries, CurName) : j < found => ~Must(ISA, Entries, j, Ops)
     /\ phase = 2 => ~SomeMust
\* an entry is never applied to an instruction of another mnemonic, operand kind or count
NeverWrongKind ==
  (done /\ found # 0) =>
     /\ NameEq(Entries[found].n, CurName)
     /\ Len(Entries[found].ops) = Len(Ops)
     /\ \A p \in 1..Len(Ops) : Match(ISA, Entries[found].ops[p], Ops[p]) # "N"
\* the machine agrees with the declarative definition used by the trace specification
ResultAllowed == done => found \in FindAllowed(ISA, Entries, QName, Ops)
TypeOK == /\ phase \in 1..2 /\ pos \in 1..(Len(el) + 1) /\ found \in 0..Len(el)
          /\ (phase = 2 => CanDrop(ISA, QName))

\* the register form of the instruction: memory operands replaced by the register wildcard
RW == [K0 EXCEPT !.k = "rw"]
OpsRW == [p \in 1..Len(Ops) |-> IF Ops[p].k = "mem" THEN RW ELSE Ops[p]]

\* ---------------------------------------------------------------- R2: emit every initial state
IsInit == phase = 1 /\ pos = 1 /\ ~done
Emit == IsInit =>
  CSVWrite("%1$s", <<ToJson(
     [el |-> el, qn |-> qn, qo |-> qo,
      allowed |-> FindAllowed(ISA, Entries, QName, Ops),
      dev |-> FindAllowedDev(ISA, Entries, QName, Ops),
      scan1 |-> ScanOutcomes(ISA, Entries, QName, Ops),       \* get_instruction alone (no fall-back)
      rwa |-> FindAllowed(ISA, Entries, QName, OpsRW),        \* register form (C08) of the same instruction
      rwd |-> FindAllowedDev(ISA, Entries, QName, OpsRW),
      v |-> IF MODE = "table" THEN Match(ISA, Entries[1].ops[1], Ops[1]) ELSE "-"])>>, IOEnv.OUTFILE)
\* the alphabets, emitted once
EmitHeader == (IsInit /\ el = <<1>> /\ qn = 1 /\ qo = 1) =>
  CSVWrite("%1$s", <<ToJson([hdr |-> [entries |-> EntryAlpha, qnames |-> QNames, qops |-> QOps]])>>, IOEnv.HDRFILE)
=============================================================================
