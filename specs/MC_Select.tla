------------------------------ MODULE MC_Select ------------------------------
(* Exhaustive model of the marker scan (C11).  Every file
     prologue \o start marker \o body \o end marker \o epilogue
   with prologue/body/epilogue drawn from a pool of line kinds that contains the
   look-alikes (mov of another value, mov into another register, marker mov with
   missing / wrong / incomplete bytes) is an initial state; the scan of Select.tla
   (Level B, one action per line kind) runs on it; at the end the selected kernel
   must be a kernel the statement permits (Level A), stated twice: by construction
   (lines strictly between the markers) and through the declarative Allowed(f). *)
EXTENDS Select
CONSTANTS ISA, MaxPro, MaxBody, MaxEpi, Styles, EdgeCodes

ByteStyles == {"one", "sep", "split"}
BothStyles == ByteStyles \cup {"cmt", "mixed"}     \* a start and an end marker are present

Incomplete == [i \in 1..(NopLen(ISA) - 1) |-> i]     \* marker bytes with the last one missing
\* Bytes(Nop(ISA)) lets a look-alike mov be followed by the complete marker bytes; files in which a
\* pool line thereby forms an additional real marker are excluded in Init (MarkerCountAsBuilt)
Pool == { Ln("instr"), Ln("comment"), Ln("label"), Ln("directive"), Ln("movval"), Ln("movreg"),
          Ln("startmov"), Ln("endmov"), Bytes(<<0>>), Bytes(Incomplete), Bytes(Nop(ISA)) }
\* prologue and epilogue draw from the sub-pool named by EdgeCodes (keeps the space small)
EdgePool == { l \in Pool : Code(l) \in EdgeCodes }
SeqsUpTo(S, n) == UNION { [1..m -> S] : m \in 0..n }

Half == NopLen(ISA) \div 2
ByteLines(style) ==
  CASE style = "one"   -> << Bytes(Nop(ISA)) >>
    [] style = "sep"   -> [i \in 1..NopLen(ISA) |-> Bytes(<<i>>)]
    [] style = "split" -> << Bytes([i \in 1..Half |-> i]),
                             Bytes([i \in 1..(NopLen(ISA) - Half) |-> Half + i]) >>
StartMarker(style) ==
  CASE style \in ByteStyles          -> <<Ln("startmov")>> \o ByteLines(style)
    [] style = "mixed"               -> <<Ln("startmov")>> \o ByteLines("one")
    [] style \in {"cmt"}             -> <<Ln("begincmt")>>
    [] style = "startonly"           -> <<Ln("startmov")>> \o ByteLines("one")
    [] style \in {"none", "endonly"} -> <<>>
EndMarker(style) ==
  CASE style \in ByteStyles            -> <<Ln("endmov")>> \o ByteLines(style)
    [] style \in {"cmt", "mixed"}      -> <<Ln("endcmt")>>
    [] style = "endonly"               -> <<Ln("endmov")>> \o ByteLines("one")
    [] style \in {"none", "startonly"} -> <<>>

\* np / nb: lengths of prologue and body (the sections themselves are not kept in the state)
VARIABLES style, np, nb, file, st
\* only the markers put there by construction (a startmov/endmov of the pool followed by the
\* full marker bytes would be a second marker: such files are outside the statement)
MarkerCountAsBuilt ==
  /\ Cardinality(StartMarks(file, ISA)) = (IF style \in {"none", "endonly"} THEN 0 ELSE 1)
  /\ Cardinality(EndMarks(file, ISA)) = (IF style \in {"none", "startonly"} THEN 0 ELSE 1)
vars == <<style, np, nb, file, st>>

Init ==
  /\ style \in Styles
  /\ \E pro \in SeqsUpTo(EdgePool, MaxPro), body \in SeqsUpTo(Pool, MaxBody), epi \in SeqsUpTo(EdgePool, MaxEpi) :
       /\ file = pro \o StartMarker(style) \o body \o EndMarker(style) \o epi
       /\ np = Len(pro) /\ nb = Len(body)
  /\ MarkerCountAsBuilt
  /\ st = St0

Stay == UNCHANGED <<style, np, nb, file>>
SeeBeginComment == SeeBeginCommentG(file, st) /\ st' = SeeBeginCommentU(file, st) /\ Stay
SeeEndComment   == SeeEndCommentG(file, st)   /\ st' = SeeEndCommentU(file, st)   /\ Stay
SeeStartMov     == SeeStartMovG(file, st)     /\ st' = SeeStartMovU(file, st)     /\ Stay
SeeEndMov       == SeeEndMovG(file, st)       /\ st' = SeeEndMovU(file, st)       /\ Stay
SeeBytes        == SeeBytesG(file, st)        /\ st' = SeeBytesU(file, st)        /\ Stay
MatchDone       == MatchDoneG(file, st)       /\ st' = MatchDoneU(file, ISA, st)  /\ Stay
SeeOther        == SeeOtherG(file, st)        /\ st' = SeeOtherU(file, st)        /\ Stay
Stop            == StopG(file, st)            /\ st' = StopU(file, st)            /\ Stay
Next == SeeBeginComment \/ SeeEndComment \/ SeeStartMov \/ SeeEndMov \/ SeeBytes \/ MatchDone
        \/ SeeOther \/ Stop
Spec == Init /\ [][Next]_vars

Done == st.mode = "done"

TypeOK ==
  /\ st.idx \in 1..(Len(file) + 1) /\ st.start \in 0..(Len(file) + 1) /\ st.end \in 0..Len(file)
  /\ st.mode \in {"scan", "bytes", "done"} /\ st.pend \in {"-", "S", "E"}

\* ---- Level A, by construction
Lo == np + Len(StartMarker(style)) + 1
Hi == np + Len(StartMarker(style)) + nb
\* .byte lines at the beginning of the body directly follow the marker's own .byte lines
Lead == IF style \in ByteStyles \cup {"mixed", "startonly"}
        THEN Max({ m \in 0..nb : \A i \in 1..m : file[Lo + i - 1].k = "bytes" }) ELSE 0
StrictlyBetween == { Lo..Hi, (Lo + Lead)..Hi }

KernelIsStrictlyBetween == (Done /\ style \in BothStyles) => Result(file, st) \in StrictlyBetween
WholeFileOtherwise      == (Done /\ style = "none") => Result(file, st) = 1..Len(file)
\* the declarative reading and the construction agree (validates Allowed, which the trace
\* module applies to shipped and random files)
DeclarativeAgrees == (st = St0) =>
  LET a == Allowed(file, ISA) IN
  IF style \in BothStyles THEN ~a.free /\ a.ks = StrictlyBetween
  ELSE IF style = "none" THEN ~a.free /\ a.ks = { 1..Len(file) }
  ELSE a.free
\* look-alikes never set an index: whatever was found sits at the real markers
\* (the first kernel line is the first non-.byte line after the start marker; with a start marker
\* only, .byte lines of the epilogue may directly follow an all-.byte body)
LookAlikesInert == Done =>
  /\ \/ st.start = 0
     \/ /\ st.start >= Lo + Lead
        /\ \A p \in Lo..(st.start - 1) : file[p].k = "bytes"
        /\ (st.start = Lo + Lead \/ style = "startonly")
  /\ st.end \in {0, Hi + 1}
  /\ (style = "none") => (st.start = 0 /\ st.end = 0)
\* the scan does not look past the end marker once both markers were seen
StopsAtEndMarker == (Done /\ Both(st)) => st.idx <= Hi + 2
KernelHasNoMarkerLine == (Done /\ style \in BothStyles) =>
  \A p \in Result(file, st) : file[p].k \notin {"begincmt", "endcmt"} /\ (p >= Lo + Lead /\ p <= Hi)

\* ---- R2: one record per terminal state
Emit == Done =>
  LET a == Allowed(file, ISA) IN
  CSVWrite("%1$s", << ToJson([isa |-> ISA, style |-> style, f |-> Codes(file),
                               np |-> np, nb |-> nb,
                               free |-> a.free, ks |-> a.ks,
                               lb |-> Result(file, st)]) >>, IOEnv.OUTFILE)
=============================================================================
