---------------------------- MODULE Trace_Select ----------------------------
(* Batch validation of recorded implementation behaviour against Select.tla (C11).
   Case kinds:
     scan   a file (sequence of abstract lines, obtained by classifying a shipped or a
            seeded random file) and the line positions reduce_to_section / inspect kept;
            clause "kernel" = not a kernel the statement permits (Level A);
            clause "levelB" = permitted, but not what the literal scan yields (divergence only).
     lines  a --lines argument (items), the non-blank line numbers of the file and the line
            numbers the real inspect analysed; clause "lines".
     equal  the projected analyses of several variants of one base kernel (marked file,
            --lines naming the marked lines, file with only those lines, noise lines
            inserted); clause = first numeric field on which two variants with the same
            instruction sequence differ ("instrs" if the instruction sequences differ). *)
EXTENDS Select
Cases == ndJsonDeserialize(IOEnv.CASES)
VARIABLE tid

ScanClause(c) ==
  LET obs == ToSet(c.obs) IN
  IF ~KernelOK(c.f, c.isa, obs) THEN <<"kernel", "">>
  ELSE IF Len(c.f) <= 150 /\ Result(c.f, RunScan(c.f, c.isa, St0)) # obs THEN <<"levelB", "">>
  ELSE <<"ok", "">>

LinesClause(c) ==
  IF LinesExact(c.items, ToSet(c.present), ToSet(c.obs)) THEN <<"ok", "">> ELSE <<"lines", "">>

EqualClause(c) ==
  LET vs == c.vs IN
  IF \E i \in DOMAIN vs : vs[i].instrs # vs[1].instrs
  THEN <<"instrs", vs[CHOOSE i \in DOMAIN vs : vs[i].instrs # vs[1].instrs].name>>
  ELSE IF \E i \in DOMAIN vs : ~vs[i].noninstr_clean
  THEN <<"noninstr", vs[CHOOSE i \in DOMAIN vs : ~vs[i].noninstr_clean].name>>
  ELSE IF AnalysisIsFunctionOfInstructions(vs) THEN <<"ok", "">>
  ELSE LET i == CHOOSE i \in DOMAIN vs : ~SameAnalysis(vs[1], vs[i])
       IN <<FirstDiff(vs[1], vs[i]), vs[i].name>>

Clause(c) == CASE c.kind = "scan"  -> ScanClause(c)
               [] c.kind = "lines" -> LinesClause(c)
               [] c.kind = "equal" -> EqualClause(c)

Check == LET c == Cases[tid] cl == Clause(c) IN
         IF cl[1] = "ok" THEN TRUE ELSE PrintT(<<"REJECT", c.id, cl[1], cl[2]>>)
TraceInit == tid = 1
TraceNext == tid < Len(Cases) /\ tid' = tid + 1
TraceSpec == TraceInit /\ [][TraceNext]_tid
AllConsumed == TLCGet("stats").diameter = Len(Cases)
=============================================================================
