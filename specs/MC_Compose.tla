----------------------------- MODULE MC_Compose -----------------------------
(***************************************************************************)
(* Kernel-level state machine of ArchSemantics.add_semantics restricted to *)
(* what C08 talks about: one instruction after the other is looked up      *)
(* (LookupOwn), its memory operand replaced and the register form looked up*)
(* (LookupReg), a load and a store row picked from the model's tables      *)
(* (PickRows) and the numbers combined (Combine), or it is marked unknown  *)
(* (MarkUnknown).  The model's tables are part of the STATE, so that an    *)
(* implementation which modifies them while analysing a kernel (deviation  *)
(* "InPlaceRowExtension", F8) is a behaviour of the machine with DEVS # {} *)
(* and violates Inert / TablesUnchanged.  With DEVS = {} TLC proves the    *)
(* Level-A properties on the bounded space and emits every terminal state. *)
(***************************************************************************)
EXTENDS Compose
CONSTANTS ISA, MAXK, DEVS, MODELSET

K0 == [k |-> "", c |-> "", s |-> "", m |-> "", t |-> "", b |-> "", o |-> "", i |-> "",
       sc |-> "", pre |-> "", post |-> ""]
Reg(c) == [K0 EXCEPT !.k = "reg", !.c = c]
Mem(b, o, i, sc, pre, post) ==
  [K0 EXCEPT !.k = "mem", !.b = b, !.o = o, !.i = i, !.sc = sc, !.pre = pre, !.post = post]
X86 == ISA = "x86"

\* two addressing shapes, the any-shape wildcard, two register types
MA == IF X86 THEN Mem("gpr", "", "", "1", "f", "f") ELSE Mem("x", "", "", "1", "f", "f")
MB == IF X86 THEN Mem("gpr", "imd", "gpr", "n", "f", "f") ELSE Mem("x", "", "", "1", "f", "t")
MW == IF X86 THEN Mem("*", "*", "*", "*", "f", "f") ELSE Mem("*", "*", "*", "*", "f", "f")
MWP == Mem("*", "*", "*", "*", "f", "t")          \* AArch64: any post-indexed access
TG == IF X86 THEN "gpr" ELSE "x"
TV == IF X86 THEN "xmm" ELSE "d"
G == Reg(TG)
V == Reg(TV)

Nm(a, b, c) == <<a, b, c>>
U1(c, p) == << [c |-> c, p |-> p] >>
U2(c, p, c2, p2) == << [c |-> c, p |-> p], [c |-> c2, p |-> p2] >>

\* ---------------------------------------------------------------- the model's forms (file order)
Entries == <<
  [n |-> Nm("a", "l", "d"), ops |-> <<G, G>>, tp |-> 12000, lat |-> 24000, u |-> U1(12000, <<1, 2>>)],
  [n |-> Nm("a", "s", "t"), ops |-> <<G, G>>, tp |-> 6000,  lat |-> 12000, u |-> U1(12000, <<1>>)],
  [n |-> Nm("a", "r", "m"), ops |-> <<G, G>>, tp |-> 12000, lat |-> 12000, u |-> U1(12000, <<1, 2>>)],
  [n |-> Nm("v", "l", "d"), ops |-> <<V, V>>, tp |-> 6000,  lat |-> 36000, u |-> U1(12000, <<2>>)],
  [n |-> Nm("v", "r", "m"), ops |-> <<V, V>>, tp |-> 24000, lat |-> 48000, u |-> U2(12000, <<1, 2>>, 12000, <<2>>)],
  [n |-> Nm("o", "w", "n"), ops |-> IF X86 THEN <<MW, G>> ELSE <<G, [MW EXCEPT !.pre = "*", !.post = "*"]>>,
                            tp |-> 18000, lat |-> 60000, u |-> U2(12000, <<3>>, 6000, <<1, 2>>)],
  [n |-> Nm("o", "w", "n"), ops |-> <<G, G>>, tp |-> 12000, lat |-> 12000, u |-> U1(12000, <<1>>)] >>

\* ---------------------------------------------------------------- instruction alphabet
\* x86 (AT&T): sources first, destination last; AArch64: destination first
Ld(n, r, m) == IF X86 THEN [n |-> n, ops |-> <<m, r>>, roles |-> <<"s", "d">>]
                      ELSE [n |-> n, ops |-> <<r, m>>, roles |-> <<"d", "s">>]
St(n, r, m) == [n |-> n, ops |-> <<r, m>>, roles |-> <<"s", "d">>]
Rm(n, r, m) == [n |-> n, ops |-> <<r, m>>, roles |-> <<"s", "sd">>]
Ins == <<
  Ld(Nm("a", "l", "d"), G, MA), Ld(Nm("a", "l", "d"), G, MB),
  St(Nm("a", "s", "t"), G, MA), St(Nm("a", "s", "t"), G, MB),
  Rm(Nm("a", "r", "m"), G, MA), Rm(Nm("a", "r", "m"), G, MB),
  Ld(Nm("v", "l", "d"), V, MA), Ld(Nm("v", "l", "d"), V, MB),
  Rm(Nm("v", "r", "m"), V, MA), Rm(Nm("v", "r", "m"), V, MB),
  Ld(Nm("u", "n", "k"), G, MA),                                   \* neither form exists
  Ld(Nm("o", "w", "n"), G, MA),                                   \* has an entry of its own
  [n |-> Nm("a", "r", "m"), ops |-> <<G, G>>, roles |-> <<"s", "sd">>],   \* register form itself
  [n |-> Nm("u", "n", "k"), ops |-> <<G, G>>,
   roles |-> IF X86 THEN <<"s", "d">> ELSE <<"d", "s">>] >>               \* unknown, no memory

\* ---------------------------------------------------------------- table variants
LRow(mem, ty, j) == [mem |-> mem, ty |-> ty, u |-> U2(6000 * (j + 1), <<3>>, 12000, <<1, 2>>)]
SRow(mem, ty, j) == [mem |-> mem, ty |-> ty, u |-> U1(6000 * (j + 1), <<4>>)]
LdVar == IF X86
  THEN << << >>,
          <<LRow(MA, "", 1), LRow(MB, "", 2)>>,
          <<LRow(MW, TV, 3), LRow(MW, "", 4)>>,
          <<LRow(MA, TG, 5), LRow(MA, TV, 6), LRow(MB, TV, 7)>> >>
  ELSE << << >>,
          <<LRow(MA, "", 1), LRow(MB, "", 2)>>,
          <<LRow(MWP, "", 3), LRow(MW, TV, 4), LRow(MW, "", 5)>>,
          <<LRow(MA, TG, 5), LRow(MA, TV, 6), LRow(MB, TV, 7)>> >>
StVar == IF X86
  THEN << << >>,
          <<SRow(MA, "", 1), SRow(MB, "", 2)>>,
          <<SRow(MW, TG, 3), SRow(MW, TV, 4)>>,
          <<SRow(MA, TV, 5)>> >>
  ELSE << << >>,
          <<SRow(MA, "", 1), SRow(MB, "", 2)>>,
          <<SRow(MWP, TG, 6), SRow(MW, TG, 3), SRow(MW, TV, 4)>>,
          <<SRow(MA, TV, 5)>> >>
NMODELS == 32
Model(x) ==
  LET lv == 1 + ((x - 1) % 4)
      sv == 1 + (((x - 1) \div 4) % 4)
      mul == ((x - 1) \div 16) = 1
  IN [isa |-> ISA, np |-> 4, entries |-> Entries,
      ld |-> LdVar[lv], ldd |-> U1(12000, <<3>>),
      st |-> StVar[sv], std |-> U2(12000, <<4>>, 12000, <<1, 2>>),
      hasldm |-> mul, hasstm |-> mul,
      types |-> << [ty |-> TG, lat |-> 48000, lm |-> 2, sm |-> 2],
                   [ty |-> TV, lat |-> 72000, lm |-> 4, sm |-> 3] >>]

\* ---------------------------------------------------------------- state machine
VARIABLES mi,      \* the model (index)
          kern,    \* the kernel: sequence of indices into Ins
          pc,      \* instruction being analysed
          T,       \* the model's load/store tables (state!)
          out,     \* results assigned so far
          stage,   \* "own" | "reg" | "rows" | "combine"
          ri, lr, sr, sto
vars == <<mi, kern, pc, T, out, stage, ri, lr, sr, sto>>

M == Model(mi)
Cur == Ins[kern[pc]]
Kernels == UNION { [1..len -> 1..Len(Ins)] : len \in 1..MAXK }

Init == /\ mi \in MODELSET /\ kern \in Kernels
        /\ pc = 1 /\ T = Tables(Model(mi)) /\ out = << >> /\ stage = "own"
        /\ ri = 0 /\ lr = 0 /\ sr = 0 /\ sto = FALSE

Running == pc <= Len(kern)
Finish(res, T2) == /\ out' = Append(out, res) /\ T' = T2 /\ pc' = pc + 1 /\ stage' = "own"
                   /\ ri' = 0 /\ lr' = 0 /\ sr' = 0 /\ sto' = FALSE /\ UNCHANGED <<mi, kern>>

\* the instruction as written has an entry of its own -> its data apply
LookupOwn ==
  /\ Running /\ stage = "own"
  /\ \E j \in FindAllowed(ISA, M.entries, Cur.n, Cur.ops) :
       IF j # 0 THEN Finish(OwnResult(M, M.entries[j]), T)
       ELSE /\ stage' = "reg" /\ UNCHANGED <<mi, kern, pc, T, out, ri, lr, sr, sto>>
\* memory operands are replaced by the register wildcard and the register form is looked up
LookupReg ==
  /\ Running /\ stage = "reg" /\ MemPos(Cur) # {} /\ (IsLoad(Cur) \/ IsStore(Cur))
  /\ \E r \in FindAllowed(ISA, M.entries, Cur.n, RegForm(Cur)) :
       /\ r # 0 /\ ri' = r /\ stage' = "rows"
       /\ UNCHANGED <<mi, kern, pc, T, out, lr, sr, sto>>
\* neither form: flagged unknown, zero pressure and latency
MarkUnknown ==
  /\ Running /\ stage = "reg"
  /\ \/ MemPos(Cur) = {} \/ ~(IsLoad(Cur) \/ IsStore(Cur))
     \/ 0 \in FindAllowed(ISA, M.entries, Cur.n, RegForm(Cur))
  /\ Finish(Unknown(M.np), T)
\* rows of the CURRENT tables for the addressing shape and the register type
PickRows ==
  /\ Running /\ stage = "rows"
  /\ LET ty == RegType(M.entries[ri], Cur) IN
       /\ lr' \in (IF IsLoad(Cur) THEN LoadRows(ISA, T.ld, LoadOp(Cur), ty, DEVS) ELSE {0})
       /\ sr' \in (IF IsStore(Cur) THEN StoreRows(ISA, T.st, StoreOp(Cur), ty, DEVS) ELSE {0})
       /\ sto' \in StoreChoices(M, Cur, DEVS)
  /\ stage' = "combine" /\ UNCHANGED <<mi, kern, pc, T, out, ri>>
Combine ==
  /\ Running /\ stage = "combine"
  /\ Finish(Composed(M, T, Cur, M.entries[ri], RegType(M.entries[ri], Cur), lr, sr, sto),
            After(T, Cur, lr, sr, sto, DEVS))
Next == LookupOwn \/ LookupReg \/ MarkUnknown \/ PickRows \/ Combine
Spec == Init /\ [][Next]_vars

\* ---------------------------------------------------------------- Level A
\* every instruction gets the numbers it gets when analysed alone on the model as shipped:
\* composition equalities hold and no instruction changes the numbers of another one
\* (checked for the instruction just finished; earlier ones were checked in earlier states)
Fresh == IF stage = "own" /\ out # << >> THEN {Len(out)} ELSE {}
Inert == \A k \in Fresh : out[k] \in Alone(M, Ins[kern[k]])
TablesUnchanged == T = Tables(M)
UnknownIsZero == \A k \in Fresh : out[k].unk =>
                    /\ out[k].tp = 0 /\ out[k].lat = 0 /\ out[k].lw = 0 /\ out[k].pr = Zeros(M.np)
\* a form that has neither an own entry nor a register form is unknown; one that has either is not
UnknownIffNeither == \A k \in Fresh :
   LET ins == Ins[kern[k]]
       own == FindAllowed(ISA, M.entries, ins.n, ins.ops)
       reg == IF MemPos(ins) # {} THEN FindAllowed(ISA, M.entries, ins.n, RegForm(ins)) ELSE {0}
   IN /\ (out[k].unk => 0 \in own /\ 0 \in reg)
      /\ (~out[k].unk => own # {0} \/ reg # {0})
\* composed forms: pressure is at least the register form's, latency at least its latency
ComposedDominates == \A k \in Fresh :
   LET ins == Ins[kern[k]] IN
   (~out[k].unk /\ 0 \in FindAllowed(ISA, M.entries, ins.n, ins.ops)) =>
      \E r \in FindAllowed(ISA, M.entries, ins.n, RegForm(ins)) \ {0} :
         LET e == M.entries[r] IN
           /\ out[k].lw = e.lat /\ out[k].lat >= e.lat /\ out[k].tp >= e.tp
           /\ \A q \in 1..M.np : out[k].pr[q] >= Row(e.u, 2, M.np)[q]
           /\ Len(out[k].uo) >= Len(e.u)
TypeOK == /\ pc \in 1..(Len(kern) + 1) /\ Len(out) = pc - 1
          /\ stage \in {"own", "reg", "rows", "combine"}

\* ---------------------------------------------------------------- R2: terminal states
Done == pc > Len(kern)
Emit == Done =>
  CSVWrite("%1$s", <<ToJson([mi |-> mi, kern |-> kern, out |-> out])>>, IOEnv.OUTFILE)
EmitHeader == (pc = 1 /\ stage = "own" /\ kern = <<1>>) =>
  CSVWrite("%1$s", <<ToJson([mi |-> mi, model |-> M, ins |-> Ins])>>, IOEnv.HDRFILE)
=============================================================================
