---------------------------- MODULE MC_PortSched ----------------------------
(* Bounded instances of the balancer (R1) and the tables handed to the replay (R2).

   family   : the bounded family of the C02 statement: every ordered kernel of length <= 4
              (<= 3 when 2-cycle forms occur) over all single-micro-op forms on every non-empty
              subset of 3 ports -- 5355 kernels.  CapsReset = TRUE (the code as it is; the
              deviation cannot hurt single-micro-op forms beyond the granularity).
   multi    : forms with two micro-ops on every ordered pair of port subsets (plus the single
              ones), kernels of length <= 2; with CapsReset = FALSE FeasibleAll is an invariant,
              with CapsReset = TRUE TLC exhibits the two-pass counterexample (F1).
   Terminal states are written to IOEnv.OUTFILE as JSON (one record per kernel). *)
EXTENDS PortSched, Json, CSV, IOUtils

Subsets3 == << <<1>>, <<2>>, <<3>>, <<1, 2>>, <<1, 3>>, <<2, 3>>, <<1, 2, 3>> >>
Uop(c, s) == [c |-> c * UNIT, p |-> s, m |-> 2]
Seqs(n, m) == UNION { [1..len -> 1..m] : len \in 1..n }

\* ---------------------------------------------------------------- the C02 family
FamilyForms == [ k \in 1..14 |->
                  [tp |-> 1, uops |-> << Uop(IF k <= 7 THEN 1 ELSE 2, Subsets3[((k - 1) % 7) + 1]) >>] ]
AllOneCycle(k) == \A i \in DOMAIN k : k[i] <= 7
FamilyKernels == { k \in Seqs(4, 14) : Len(k) <= 3 \/ AllOneCycle(k) }
\* sub-family for the quick tier of Level B (Level A is evaluated on the whole family in both tiers)
SmallFamilyKernels == { k \in Seqs(3, 14) : Len(k) <= 2 \/ AllOneCycle(k) }

\* ---------------------------------------------------------------- two-micro-op forms
PairIdx == { <<a, b>> : a \in 1..7, b \in 1..7 }
PairSeq == LET RECURSIVE Enum(_)
               Enum(S) == IF S = {} THEN <<>>
                          ELSE LET x == CHOOSE y \in S : \A z \in S : (y[1] * 8 + y[2]) <= (z[1] * 8 + z[2])
                               IN <<x>> \o Enum(S \ {x})
           IN Enum(PairIdx)
Overlapping(pr) == /\ pr[1] # pr[2]
                   /\ ToSet(Subsets3[pr[1]]) \cap ToSet(Subsets3[pr[2]]) # {}
PairForm(pr) == [tp |-> 1, uops |-> << Uop(1, Subsets3[pr[1]]), Uop(1, Subsets3[pr[2]]) >>]
SingleForms == [ k \in 1..7 |-> [tp |-> 1, uops |-> << Uop(1, Subsets3[k]) >>] ]
MultiForms == SingleForms \o [ k \in 1..49 |-> PairForm(PairSeq[k]) ]
OverlapForms == SingleForms \o
                LET S == SelectSeq(PairSeq, Overlapping) IN [ k \in DOMAIN S |-> PairForm(S[k]) ]
\* a form without throughput data (shown, not summed) next to the others
MultiKernels == Seqs(2, Len(MultiForms))
OverlapKernels == Seqs(2, Len(OverlapForms))

\* quick tier: every single line, and a single-micro-op line on {1}, {1,2} or {1,2,3} followed by a two-micro-op line
QuickOverlapKernels == { k \in OverlapKernels : Len(k) = 1 \/ (k[1] \in {1, 4, 7} /\ k[2] > 7) }
OneLineKernels == { k \in OverlapKernels : Len(k) = 1 }

\* ---------------------------------------------------------------- R2 tables
Terminal == Done \/ Crashed
Flag(b) == IF b THEN 1 ELSE 0
Emit == Terminal =>
  CSVWrite("%1$s", <<ToJson([
      k      |-> kernel,
      rows   |-> press,
      tot    |-> Totals,
      crash  |-> crash,
      feas   |-> Flag(FeasibleAll),
      notworse |-> Flag(Bottleneck <= UniformBottleneck),
      nothall  |-> Flag(AtLeastHall(Bottleneck, KernelUops, STEP)),
      within15 |-> Flag(AtMostHallPlus(Bottleneck, KernelUops, 15 * STEP)),
      hall   |-> HallPair(KernelUops),
      uni    |-> UniformBottleneck ])>>, IOEnv.OUTFILE)
=============================================================================
