SPECIFICATION Spec
INVARIANT OnlyPipelineOrder
INVARIANT CompletesOnlyWithAllStages
CHECK_DEADLOCK FALSE
