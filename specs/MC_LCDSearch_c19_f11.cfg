CONSTANT KTab <- MC_KTab
CONSTANT Kernels <- K2
CONSTANT NWs = {1, 2}
CONSTANT Timeouts = {TRUE}
CONSTANT TickEnabled = TRUE
CONSTANT ReduceIdle = FALSE
CONSTANT DeadlineTestFirst = TRUE
SPECIFICATION Spec
INVARIANT WarnIffCut
