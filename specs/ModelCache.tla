----------------------------- MODULE ModelCache -----------------------------
(***************************************************************************)
(* Model-file caches of OSACA (property C17): pure definitions.            *)
(*                                                                         *)
(* One model file (a machine model or an ISA database) whose content is    *)
(* identified by a content id c \in Contents (the sha256 of the file is     *)
(* modelled as the identity: no collisions).  Two on-disk caches keyed by   *)
(* the hash: the companion file next to the model file and the home cache, *)
(* plus one in-process cache per process.  A cache file is a sequence of   *)
(* at most N cells (header, middle, tail, last byte); each cell remembers   *)
(* which data it was written from, so that truncation, interleaved in-place *)
(* writers and version mismatches are all representable.                   *)
(*                                                                         *)
(* Level B: Step(S, p) is the next step of MachineModel.__init__ /          *)
(* _get_cached / _write_in_cache for process p, one step per observable     *)
(* file-system interaction.  The deviations of today's code from the       *)
(* intended protocol are CONSTANT switches:                                *)
(*   AtomicWrite  = FALSE : InPlaceCacheWrite (open(final,'wb') + dump)    *)
(*   TolerantRead = FALSE : UnreadableCacheRaises (pickle.load unguarded)  *)
(*   ReadOnce     = FALSE : RehashAtWrite (file hashed again when the      *)
(*                          cache is written, parsed from a third read)    *)
(*   RtServes     = FALSE : the in-process cache is consulted but its       *)
(*                          value is always overwritten (today); TRUE is   *)
(*                          the variant "a hit returns immediately".       *)
(* Level A (what C17 states): a run never fails and returns the data of    *)
(* the content the file had during the run, whatever the cache state.      *)
(***************************************************************************)
EXTENDS Naturals, Sequences, FiniteSets, TLC, Json, CSV, IOUtils

CONSTANTS NProcs, NContents, AtomicWrite, TolerantRead, ReadOnce, RtServes

Procs    == 1..NProcs
Contents == 1..NContents
N        == 4          \* cells of a cache file: header, middle, tail, last byte
Version  == 1          \* MachineModel.INTERNAL_VERSION of the running code
Wheres   == {"comp", "home"}

\* ---------------------------------------------------------------- values (uniformly typed)
NoData      == [c |-> 0, v |-> 0]                 \* also: a hole / zero bytes in a file
Data(c)     == [c |-> c, v |-> Version]           \* loaded representation of content c
OldData(c)  == [c |-> c, v |-> 0]                 \* same, written by an older format version
Absent      == [ex |-> FALSE, cells |-> <<>>]
Cut(d, n)   == [ex |-> TRUE, cells |-> [i \in 1..n |-> d]]   \* first n cells of a file holding d
Whole(d)    == Cut(d, N)
Complete(f) == /\ f.ex
               /\ Len(f.cells) = N
               /\ f.cells[1].c # 0
               /\ \A i \in 1..N : f.cells[i] = f.cells[1]
Payload(f)  == f.cells[1]
Kind(f)     == IF ~f.ex THEN "absent" ELSE IF Complete(f) THEN "complete" ELSE "partial"
Max2(a, b)  == IF a >= b THEN a ELSE b
\* write data d at cell position i of an open file (a gap left by somebody else's
\* truncation is a hole)
Put(cells, i, d) == [j \in 1..Max2(Len(cells), i) |->
                        IF j = i THEN d ELSE IF j <= Len(cells) THEN cells[j] ELSE NoData]

\* ---------------------------------------------------------------- state record
\* yaml  : current content of the model file
\* comp, home : [Contents -> file]   dirW : data directory writable
\* per process: pc, key (hash computed by _get_cached), wkey (hash computed by _write_in_cache),
\* buf (data in memory), tgt (cache being written), pos (next cell), tmp (temporary file of the
\* atomic protocol), live (contents the file had during the current run), rt (in-process cache),
\* res (returned data).  starts/edits/envs bound the exploration.
InitState ==
  [ yaml |-> 1,
    comp |-> [h \in Contents |-> Absent],
    home |-> [h \in Contents |-> Absent],
    dirW |-> TRUE,
    pc   |-> [p \in Procs |-> "idle"],
    key  |-> [p \in Procs |-> 0],
    wkey |-> [p \in Procs |-> 0],
    buf  |-> [p \in Procs |-> NoData],
    tgt  |-> [p \in Procs |-> "comp"],
    pos  |-> [p \in Procs |-> 0],
    tmp  |-> [p \in Procs |-> <<>>],
    live |-> [p \in Procs |-> {}],
    rt   |-> [p \in Procs |-> NoData],
    res  |-> [p \in Procs |-> NoData],
    starts |-> 0, edits |-> 0, envs |-> 0 ]

GetFile(S, w, h)    == IF w = "comp" THEN S.comp[h] ELSE S.home[h]
SetFile(S, w, h, f) == IF w = "comp" THEN [S EXCEPT !.comp[h] = f] ELSE [S EXCEPT !.home[h] = f]

Running(S, p) == S.pc[p] \notin {"idle", "done", "failed"}
Quiet(S)      == \A p \in Procs : ~Running(S, p)

\* ---------------------------------------------------------------- process steps (Level B)
\* MachineModel.__init__: runtime-cache lookup, then _get_cached
Start(S, p) ==
  LET T == [S EXCEPT !.live[p] = {S.yaml}, !.starts = @ + 1, !.res[p] = NoData,
                     !.key[p] = 0, !.wkey[p] = 0, !.buf[p] = S.rt[p], !.pos[p] = 0, !.tmp[p] = <<>>]
  IN IF RtServes /\ S.rt[p].c # 0
       THEN [T EXCEPT !.pc[p] = "done", !.res[p] = S.rt[p]]
       ELSE [T EXCEPT !.pc[p] = "hash"]

Served(S, p, d) == [S EXCEPT !.pc[p] = "done", !.res[p] = d, !.rt[p] = d, !.buf[p] = d]

\* open + pickle.load of a cache file that exists()
ReadFrom(S, p, f, miss) ==
  IF Complete(f)
    THEN IF Payload(f).v = Version THEN Served(S, p, Payload(f))
         ELSE [S EXCEPT !.pc[p] = miss]                           \* internal_version mismatch
    ELSE IF TolerantRead THEN [S EXCEPT !.pc[p] = miss]
         ELSE [S EXCEPT !.pc[p] = "failed"]                       \* UnreadableCacheRaises

WriteCell(S, p) ==
  LET last == S.pos[p] = N
      T == IF AtomicWrite
             THEN [S EXCEPT !.tmp[p] = Append(@, S.buf[p])]
             ELSE LET f == GetFile(S, S.tgt[p], S.wkey[p])
                  IN SetFile(S, S.tgt[p], S.wkey[p],
                             [ex |-> TRUE, cells |-> Put(f.cells, S.pos[p], S.buf[p])])
  IN IF ~last THEN [T EXCEPT !.pos[p] = @ + 1]
     ELSE IF AtomicWrite THEN [T EXCEPT !.pos[p] = @ + 1, !.pc[p] = "rename"]
     ELSE [T EXCEPT !.pos[p] = @ + 1, !.pc[p] = "done", !.res[p] = S.buf[p], !.rt[p] = S.buf[p]]

Step(S, p) ==
  CASE S.pc[p] = "hash"   -> [S EXCEPT !.key[p] = S.yaml, !.pc[p] = "probeC"]
    [] S.pc[p] = "probeC" -> [S EXCEPT !.pc[p] = IF S.comp[S.key[p]].ex THEN "readC" ELSE "probeH"]
    [] S.pc[p] = "readC"  -> ReadFrom(S, p, S.comp[S.key[p]], "probeH")
    [] S.pc[p] = "probeH" -> [S EXCEPT !.pc[p] = IF S.home[S.key[p]].ex THEN "readH" ELSE "parse"]
    [] S.pc[p] = "readH"  -> ReadFrom(S, p, S.home[S.key[p]], "parse")
    [] S.pc[p] = "parse"  -> [S EXCEPT !.buf[p] = Data(IF ReadOnce THEN S.key[p] ELSE S.yaml),
                                       !.pc[p] = "rehash"]
    [] S.pc[p] = "rehash" -> [S EXCEPT !.wkey[p] = IF ReadOnce THEN S.key[p] ELSE S.yaml,
                                       !.pc[p] = "access"]
    [] S.pc[p] = "access" -> [S EXCEPT !.tgt[p] = IF S.dirW THEN "comp" ELSE "home", !.pc[p] = "open"]
    [] S.pc[p] = "open"   -> IF AtomicWrite
                               THEN [S EXCEPT !.tmp[p] = <<>>, !.pos[p] = 1, !.pc[p] = "write"]
                               ELSE [SetFile(S, S.tgt[p], S.wkey[p], [ex |-> TRUE, cells |-> <<>>])
                                       EXCEPT !.pos[p] = 1, !.pc[p] = "write"]   \* InPlaceCacheWrite
    [] S.pc[p] = "write"  -> WriteCell(S, p)
    [] S.pc[p] = "rename" -> [SetFile(S, S.tgt[p], S.wkey[p], [ex |-> TRUE, cells |-> S.tmp[p]])
                                EXCEPT !.pc[p] = "done", !.res[p] = S.buf[p], !.rt[p] = S.buf[p]]
    [] OTHER -> S

\* the process dies (kill, power loss): whatever it wrote stays
Crash(S, p)  == [S EXCEPT !.pc[p] = "idle", !.rt[p] = NoData, !.res[p] = NoData, !.live[p] = {}]
\* the process exits after a finished or failed run
Exit(S, p)   == [S EXCEPT !.pc[p] = "idle", !.rt[p] = NoData, !.live[p] = {}]

\* ---------------------------------------------------------------- environment
Edit(S, c)      == [S EXCEPT !.yaml = c, !.edits = @ + 1,
                             !.live = [p \in Procs |-> IF Running(S, p) THEN S.live[p] \cup {c} ELSE S.live[p]]]
Toggle(S)       == [S EXCEPT !.dirW = ~@, !.envs = @ + 1]
\* a run on another file with the same stem and content c populated the home cache
Foreign(S, c)   == [SetFile(S, "home", c, Whole(Data(c))) EXCEPT !.envs = @ + 1]
\* a cache of the current content written by an older format version
OldVersion(S, w)== [SetFile(S, w, S.yaml, Whole(OldData(S.yaml))) EXCEPT !.envs = @ + 1]
\* a cache file of the current content cut after n cells (left by an interrupted write)
Legacy(S, w, n) == [SetFile(S, w, S.yaml, Cut(Data(S.yaml), n)) EXCEPT !.envs = @ + 1]

\* ---------------------------------------------------------------- composite (coarse) actions
RECURSIVE RunOn(_, _)
RunOn(S, p) == IF Running(S, p) THEN RunOn(Step(S, p), p) ELSE S
Load(S, p)  == RunOn(Start(S, p), p)                 \* one complete MachineModel(...) call
\* run until n cells of the cache file are written, then die; a run that never writes completes
RECURSIVE RunUntilWritten(_, _, _)
RunUntilWritten(S, p, n) ==
  IF ~Running(S, p) THEN S
  ELSE IF S.pc[p] = "write" /\ S.pos[p] = n + 1 THEN Crash(S, p)
  ELSE RunUntilWritten(Step(S, p), p, n)
CrashLoad(S, p, n) == RunUntilWritten(Start(S, p), p, n)

\* ---------------------------------------------------------------- Level A
Failed(S, p)    == S.pc[p] = "failed"
ResultOK(S, p)  == S.res[p].v = Version /\ S.res[p].c \in S.live[p]
\* cache coherence (what keeps later runs correct): a readable current-version file under key h holds h
Coherent(S)     == \A h \in Contents : \A w \in Wheres :
                      LET f == GetFile(S, w, h)
                      IN (Complete(f) /\ Payload(f).v = Version) => Payload(f).c = h
\* which named deviation explains a failing run (used for known-finding signatures)
WhyFailed(S, p) ==
  LET fc == S.comp[S.key[p]]  fh == S.home[S.key[p]]
  IN IF S.key[p] # 0 /\ Kind(fc) = "partial" THEN "UnreadableCacheRaises:companion:cells=" \o ToString(Len(fc.cells))
     ELSE IF S.key[p] # 0 /\ Kind(fh) = "partial" THEN "UnreadableCacheRaises:home:cells=" \o ToString(Len(fh.cells))
     ELSE "unexplained"
=============================================================================
