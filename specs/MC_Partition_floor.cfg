CONSTANT KMax = 300
CONSTANT NWMax = 130
SPECIFICATION Spec
INVARIANT FloorCovers
CHECK_DEADLOCK FALSE
