--------------------------- MODULE Trace_ParseFile ---------------------------
(* Batch validation of parse_file observations (C09 / C10, line level).  One case per file:
   file = <<[kind, text], ...>> as written (kind "any" for files the harness did not write),
   out = what the real parser returned, projected to [lineno, text, kinds]; err # "" if the
   parser raised.  The clauses are ParseFile's own. *)
EXTENDS ParseFile
Cases == ndJsonDeserialize(IOEnv.CASES)
VARIABLE tid
Clause(c) == IF c.err # "" THEN "exception" ELSE FileClause(c.file, c.out)
Check == LET c == Cases[tid] cl == Clause(c) IN
         IF cl = "ok" THEN TRUE ELSE PrintT(<<"REJECT", c.id, cl>>)
TraceInit == tid = 1
TraceNext == tid < Len(Cases) /\ tid' = tid + 1
TraceSpec == TraceInit /\ [][TraceNext]_tid
AllConsumed == TLCGet("stats").diameter = Len(Cases)
=============================================================================
