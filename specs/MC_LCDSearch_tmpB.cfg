CONSTANT KTab <- MC_KTab
CONSTANT Kernels <- K4
CONSTANT NWs = {1,2,3,5}
CONSTANT Timeouts = {TRUE}
CONSTANT TickEnabled = FALSE
CONSTANT DeadlineTestFirst = TRUE
SPECIFICATION Spec
INVARIANT TypeOK
