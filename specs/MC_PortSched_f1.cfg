CONSTANT NP = 3
CONSTANT Passes = 2
CONSTANT CapsReset = TRUE
CONSTANT Forms <- OverlapForms
CONSTANT Kernels <- OneLineKernels
SPECIFICATION Spec
INVARIANT FeasibleAll
CHECK_DEADLOCK FALSE
