CONSTANT KTab <- MC_KTab
CONSTANT Kernels <- KTiny
CONSTANT NWs = {1, 2, 3}
CONSTANT Timeouts = {TRUE, FALSE}
CONSTANT TickEnabled = TRUE
CONSTANT ReduceIdle = FALSE
CONSTANT DeadlineTestFirst = FALSE
SPECIFICATION FairClock
PROPERTY AlwaysReturnsWithTimeout
CHECK_DEADLOCK FALSE
