----------------------------- MODULE MC_Partition -----------------------------
(* The static partition of the K root instructions over NW worker processes (LCDSearch!Slice) covers
   every root exactly once, in kernel order, for EVERY kernel length and worker count up to the
   bounds - a statement about integers only, checked by enumeration (one state per pair). It also
   holds for NW > K (the surplus workers get empty slices) and documents the load figures used by
   DESIGN 10.9: no slice is longer than Workload(K, NW), and at most NW slices are non-empty. *)
EXTENDS LCDSearch
CONSTANTS KMax, NWMax
VARIABLES k, nw
Init == k \in 1..KMax /\ nw \in 1..NWMax
Next == UNCHANGED <<k, nw>>
Spec == Init /\ [][Next]_<<k, nw>>
Covers      == PartitionOk(k, nw)
Balanced    == \A w \in 0..(nw - 1) : SliceLen(k, nw, w) <= Workload(k, nw)
Contiguous  == \A w \in 0..(nw - 1) : \A i \in 1..SliceLen(k, nw, w) : Slice(k, nw, w)[i] = SliceLo(k, nw, w) + i
NoneBeyondK == \A w \in 0..(nw - 1) : \A i \in 1..SliceLen(k, nw, w) : Slice(k, nw, w)[i] \in 1..k
\* negative controls: two plausible "simplifications" of the chunk size lose roots for some pair
FloorWorkload(K, NW) == IF K \div NW = 0 THEN 1 ELSE K \div NW
FloorCovers == LET W == FloorWorkload(k, nw) IN
               UNION { { i \in (w * W + 1)..Min2((w + 1) * W, k) : TRUE } : w \in 0..(nw - 1) } = 1..k
=============================================================================
