SPECIFICATION Spec
INVARIANT ClauseNamed
INVARIANT DefectsDetected
INVARIANT WellFormedHasCost
INVARIANT CostIsFeasible
INVARIANT CostSum
CONSTRAINT Emit
CHECK_DEADLOCK FALSE
