------------------------------ MODULE PortSched ------------------------------
(***************************************************************************)
(* Level B of C01/C02: the greedy port balancer as a state machine shaped  *)
(* like ArchSemantics.assign_optimal_throughput (one state per 0.01-cycle  *)
(* balancing step), in exact arithmetic on the 1/12000 lattice.            *)
(*                                                                         *)
(*   Uniform      every line gets the 1/N split of its micro-ops           *)
(*   BeginUop     lines are visited last to first, micro-ops in order; a   *)
(*                micro-op is balanced only if the rounded column sums of  *)
(*                its ports differ; its budget list `dl` ("differences")   *)
(*                is initialised                                           *)
(*   Move         one 0.01 step from the port with the largest rounded     *)
(*                column sum to the one with the smallest, followed by     *)
(*                Retire (a port of the *instruction row* that rounds to 0 *)
(*                is zeroed, its residue moved to the receiving port) and  *)
(*                Cap (a port whose budget is used up leaves the list)     *)
(*   EndPass      after the first line; Passes passes (the CLI makes 2)    *)
(*                                                                         *)
(* Named deviation CapsResetPerPass (constant CapsReset): the code         *)
(* re-initialises the budget of a micro-op to cycles/|ports| per port on   *)
(* every call although the instruction row it moves pressure out of has    *)
(* already been shifted by the previous call.  With CapsReset = FALSE the  *)
(* budget is the micro-op's own current allocation `alloc`, carried from   *)
(* pass to pass (the intended algorithm).                                  *)
(*                                                                         *)
(* The code's test `min(instr_ports) != 0.0` is a test on float residue:   *)
(* where the lattice value is exactly 0 the float may or may not be, so    *)
(* the model branches (rz).  Python exceptions the loop can run into       *)
(* (empty index list, misaligned lists) are the `crash` states.            *)
(***************************************************************************)
EXTENDS PortModel

CONSTANTS NP,         \* number of ports
          Forms,      \* <<[tp |-> 0/1, uops |-> <<[c, p, m], ...>>], ...>>
          Kernels,    \* set of kernels: sequences of form numbers
          Passes,     \* balancing passes
          CapsReset   \* TRUE = the code as it is (deviation CapsResetPerPass)

VARIABLES kernel,     \* the kernel under analysis
          press,      \* press[i] = pressure row of line i
          alloc,      \* alloc[i][u][q] = what micro-op u of line i has on port q (its budget)
          pc,         \* "uop" | "move" | "done" | "crash"
          pass, li, ui,
          act,        \* ports of the current micro-op still being balanced ("indices")
          dl,         \* budget list <<[q, v]>> ("differences"), normally aligned with act
          left,       \* remaining iterations of the inner loop
          crash,      \* "" or the Python exception the code runs into here
          colsum      \* exact column sums over the summed lines (kept incrementally)
vars == <<kernel, press, alloc, pc, pass, li, ui, act, dl, left, crash, colsum>>

Uops(i) == Forms[kernel[i]].uops
Lines == [ i \in DOMAIN kernel |-> [tp |-> Forms[kernel[i]].tp, row |-> press[i]] ]
\* rounded column sum as get_throughput_sum() computes it (upper neighbour at a tie)
RSum(q) == MaxSet(Round2(colsum[q]))
ColSumsExact == colsum = [ q \in 1..NP |-> ColSum(Lines, q) ]
Totals == [ q \in 1..NP |-> RSum(q) ]

FirstPos(s, v) == MinSet({ k \in DOMAIN s : s[k] = v })
Del(s, k) == SubSeq(s, 1, k - 1) \o SubSeq(s, k + 1, Len(s))
MinSeq(s) == MinSet(ToSet(s))
RoundLE0(x) == 2 * x < STEP            \* round(x, 2) <= 0
RoundEQ0(x) == 2 * Abs(x) < STEP       \* round(x, 2) == 0
Vals(d) == [ k \in DOMAIN d |-> d[k].v ]
Persist(al, d) == [ q \in 1..NP |-> IF \E k \in DOMAIN d : d[k].q = q
                                     THEN d[MinSet({ k \in DOMAIN d : d[k].q = q })].v ELSE al[q] ]

\* ---------------------------------------------------------------- Uniform
Init ==
  /\ kernel \in Kernels
  /\ press = [ i \in DOMAIN kernel |-> UniformRow(Uops(i), NP) ]
  /\ alloc = [ i \in DOMAIN kernel |->
                [ u \in DOMAIN Uops(i) |-> [ q \in 1..NP |-> Share(Uops(i)[u], q) ] ] ]
  /\ pc = IF Passes = 0 THEN "done" ELSE "uop"
  /\ pass = IF Passes = 0 THEN 0 ELSE 1
  /\ li = Len(kernel) /\ ui = 1
  /\ act = <<>> /\ dl = <<>> /\ left = 0 /\ crash = ""
  /\ colsum = [ q \in 1..NP |-> ColSum(Lines, q) ]

\* ---------------------------------------------------------------- BeginUop / EndPass
NextLine ==
  IF li > 1 THEN li' = li - 1 /\ ui' = 1 /\ pass' = pass /\ pc' = "uop"
  ELSE IF pass < Passes THEN li' = Len(kernel) /\ ui' = 1 /\ pass' = pass + 1 /\ pc' = "uop"
  ELSE li' = li /\ ui' = ui /\ pass' = pass /\ pc' = "done"

BeginUop ==
  /\ pc = "uop"
  /\ IF ui > Len(Uops(li))
     THEN NextLine /\ UNCHANGED <<kernel, press, alloc, act, dl, left, crash, colsum>>
     ELSE LET u  == Uops(li)[ui]
              ps == [ k \in DOMAIN u.p |-> RSum(u.p[k]) ]
          IN IF Summed(Lines) = {}
             THEN \* get_throughput_sum() is empty: itemgetter(...)([]) raises
                  /\ pc' = "crash" /\ crash' = "IndexError:no-summed-line"
                  /\ UNCHANGED <<kernel, press, alloc, pass, li, ui, act, dl, left, colsum>>
             ELSE IF Cardinality(ToSet(ps)) > 1
             THEN /\ pc' = "move"
                  /\ act' = u.p
                  /\ dl' = [ k \in DOMAIN u.p |->
                              [q |-> u.p[k],
                               v |-> IF CapsReset THEN u.c \div Len(u.p) ELSE alloc[li][ui][u.p[k]]] ]
                  /\ left' = (u.c * 100) \div UNIT
                  /\ UNCHANGED <<kernel, press, alloc, pass, li, ui, crash, colsum>>
             ELSE /\ ui' = ui + 1
                  /\ UNCHANGED <<kernel, press, alloc, pc, pass, li, act, dl, left, crash, colsum>>

\* ---------------------------------------------------------------- Move (+ Retire, Cap)
\* One iteration of the inner loop on row `row`; rz = "the float residue is exactly 0.0".
\* Result: [row, act, dl, keep (budget list before deletions, for alloc), crash]
Iter(row, rz) ==
  LET ps == [ k \in DOMAIN act |-> RSum(act[k]) ]
      mx == FirstPos(ps, MaxSeq(ps))
      mn == FirstPos(ps, MinSeq(ps))
  IN
  IF mx > Len(dl) \/ mn > Len(dl)
  THEN [row |-> row, act |-> act, dl |-> dl, keep |-> dl, crash |-> "IndexError:differences"]
  ELSE
  LET rowA == IF mx = mn THEN row ELSE [row EXCEPT ![act[mx]] = @ - STEP, ![act[mn]] = @ + STEP]
      dlA  == IF mx = mn THEN dl ELSE [dl EXCEPT ![mx].v = @ - STEP, ![mn].v = @ + STEP]
      ipA  == [ k \in DOMAIN act |-> rowA[act[k]] ]
      mval == MinSeq(ipA)
      retire  == RoundLE0(mval)
      residue == retire /\ (mval # 0 \/ ~rz)
      \* --- Retire: residue branch
      ipB   == [ipA EXCEPT ![mn] = @ + mval]
      mval2 == MinSeq(ipB)
      kdel  == FirstPos(ipB, mval2)
      dlB0  == [dlA EXCEPT ![mn].v = @ + mval2]
      rowB0 == [ q \in 1..NP |-> IF \E k \in DOMAIN act : act[k] = q
                                  THEN ipB[MinSet({ k \in DOMAIN act : act[k] = q })] ELSE rowA[q] ]
      zs    == { k \in DOMAIN act : RoundEQ0(rowB0[act[k]]) \/ rowB0[act[k]] < 0 }
  IN
  IF residue /\ kdel > Len(dlB0)
  THEN [row |-> rowA, act |-> act, dl |-> dlA, keep |-> dlA, crash |-> "IndexError:del-differences"]
  ELSE IF residue /\ zs = {}
  THEN [row |-> rowB0, act |-> act, dl |-> dlB0, keep |-> dlB0, crash |-> "IndexError:zero_index"]
  ELSE
  LET rowB == IF residue THEN [rowB0 EXCEPT ![act[MinSet(zs)]] = 0] ELSE rowA
      keep == IF residue THEN dlB0 ELSE dlA
      dlB  == IF residue THEN Del(dlB0, kdel) ELSE dlA
      actB == IF retire THEN SelectSeq(act, LAMBDA q : rowB[q] > 0) ELSE act
  IN
  IF actB = <<>>
  THEN [row |-> rowB, act |-> actB, dl |-> dlB, keep |-> keep, crash |-> "TypeError:itemgetter"]
  ELSE IF dlB = <<>>
  THEN [row |-> rowB, act |-> actB, dl |-> dlB, keep |-> keep, crash |-> "ValueError:min-empty"]
  ELSE
  \* --- Cap: never remove more than the budget
  LET dv   == Vals(dlB)
      cap  == RoundLE0(MinSeq(dv))
      kcap == FirstPos(dv, MinSeq(dv))
  IN
  IF cap /\ kcap > Len(actB)
  THEN [row |-> rowB, act |-> actB, dl |-> dlB, keep |-> keep, crash |-> "IndexError:del-indices"]
  ELSE
  LET actC == IF cap THEN Del(actB, kcap) ELSE actB
      dlC  == IF cap THEN Del(dlB, kcap) ELSE dlB
  IN
  IF actC = <<>>
  THEN [row |-> rowB, act |-> actC, dl |-> dlC, keep |-> keep, crash |-> "TypeError:itemgetter"]
  ELSE [row |-> rowB, act |-> actC, dl |-> dlC, keep |-> keep, crash |-> ""]

\* the only place where the float value is open: the smallest active entry is exactly 0 on the lattice
ResidueOpen(row) ==
  LET ps == [ k \in DOMAIN act |-> RSum(act[k]) ]
      mx == FirstPos(ps, MaxSeq(ps))
      mn == FirstPos(ps, MinSeq(ps))
      rowA == IF mx = mn THEN row ELSE [row EXCEPT ![act[mx]] = @ - STEP, ![act[mn]] = @ + STEP]
  IN MinSeq([ k \in DOMAIN act |-> rowA[act[k]] ]) = 0

Balanced == LET ps == [ k \in DOMAIN act |-> RSum(act[k]) ] IN Cardinality(ToSet(ps)) = 1

Move ==
  /\ pc = "move"
  /\ IF left = 0 \/ Len(act) = 1 \/ Balanced
     THEN \* loop over (or every further iteration is a no-op: max and min position coincide)
          /\ pc' = "uop" /\ ui' = ui + 1 /\ act' = <<>> /\ dl' = <<>> /\ left' = 0
          /\ UNCHANGED <<kernel, press, alloc, pass, li, crash, colsum>>
     ELSE \E rz \in (IF ResidueOpen(press[li]) THEN BOOLEAN ELSE {FALSE}) :
          \E r \in {Iter(press[li], rz)} :   \* (a bound variable: TLC evaluates Iter once)
          /\ press' = [press EXCEPT ![li] = r.row]
          /\ colsum' = IF Forms[kernel[li]].tp = 1
                       THEN [ q \in 1..NP |-> colsum[q] + r.row[q] - press[li][q] ] ELSE colsum
          /\ alloc' = [alloc EXCEPT ![li][ui] = Persist(@, r.keep)]
          /\ act' = r.act /\ dl' = r.dl
          /\ left' = left - 1
          /\ crash' = r.crash
          /\ pc' = IF r.crash = "" THEN "move" ELSE "crash"
          /\ UNCHANGED <<kernel, pass, li, ui>>

Next == BeginUop \/ Move
Spec == Init /\ [][Next]_vars

Done == pc = "done"
Crashed == pc = "crash"
\* ---------------------------------------------------------------- Level A on the model's state
PassesBegun == pass
FeasibleLine(i) ==
  Feasible(press[i], Uops(i), IF PassesBegun = 0 THEN 0 ELSE EpsOpt(PassesBegun, Uops(i)), NP)
\* while a micro-op is being balanced only the current line changes
FeasibleAll == IF pc = "move" THEN FeasibleLine(li) ELSE \A i \in DOMAIN kernel : FeasibleLine(i)
\* TotalsAreColumnSums on the model: the totals the balancer steers by are the rounded column sums
TotalsAreColumnSums == (pc # "move") => ColSumsExact
NoCrash == ~Crashed
KernelUops == LET S == Summed(Lines) IN
  Concat([ i \in DOMAIN kernel |-> IF i \in S THEN Uops(i) ELSE <<>> ])
UniformLines == [ i \in DOMAIN kernel |-> [tp |-> Forms[kernel[i]].tp, row |-> UniformRow(Uops(i), NP)] ]
UniformBottleneck == MaxSet({ MaxSet(Round2(ColSum(UniformLines, q))) : q \in 1..NP })
Bottleneck == MaxSeq(Totals)
OptNotWorse == Done => Bottleneck <= UniformBottleneck
NotBelowHall == Done => AtLeastHall(Bottleneck, KernelUops, STEP)
Within15 == Done => AtMostHallPlus(Bottleneck, KernelUops, 15 * STEP)
=============================================================================
