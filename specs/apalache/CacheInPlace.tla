---------------------------- MODULE CacheInPlace ----------------------------
(* The ORIGINAL protocol (open(final, "wb") and write in place) in the same vocabulary: the same
   candidate invariant is NOT inductive - Apalache returns the counterexample (a reader between
   Open and the last Write).  Kept as the negative control of the induction check.            *)
EXTENDS Integers
CONSTANTS
  \* @type: Set(Int);
  Proc,
  \* @type: Int;
  Cells
VARIABLES
  \* @type: Int;
  final,
  \* @type: Int -> Str;
  pc,
  \* @type: Int -> Int;
  seen
CInit == Proc = {1, 2, 3} /\ Cells = 4
Init == final = -1 /\ pc = [p \in Proc |-> "idle"] /\ seen = [p \in Proc |-> -2]
Open(p) == pc[p] = "idle" /\ pc' = [pc EXCEPT ![p] = "writing"] /\ final' = 0 /\ UNCHANGED seen
Write(p) == pc[p] = "writing" /\ final < Cells /\ final' = final + 1 /\ UNCHANGED <<pc, seen>>
Close(p) == pc[p] = "writing" /\ final = Cells /\ pc' = [pc EXCEPT ![p] = "idle"] /\ UNCHANGED <<final, seen>>
Read(p) == pc[p] = "idle" /\ seen' = [seen EXCEPT ![p] = final] /\ UNCHANGED <<final, pc>>
Next == \E p \in Proc : Open(p) \/ Write(p) \/ Close(p) \/ Read(p)
Safe == \A p \in Proc : seen[p] \in {-2, -1, Cells}
TypeOK == final \in -1..Cells /\ pc \in [Proc -> {"idle", "writing", "crashed"}] /\ seen \in [Proc -> {-2, -1, Cells}]
IndInv == TypeOK
IndInit == IndInv
=============================================================================
