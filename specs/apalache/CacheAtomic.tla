---------------------------- MODULE CacheAtomic ----------------------------
(* The cache-write protocol now in hw_model.py, reduced to what matters for "no reader ever sees
   a partial cache file" (C17, RunNeverFails / NoPartialVisible), for an UNBOUNDED number of steps:
     writer p:  OpenTmp(p) ; Write(p)* ; Rename(p)          (tmp file private to p, os.replace)
     reader p:  Read(p)  reads the final file in one step (it holds the open inode)
     Crash(p) at any point leaves p's tmp file behind, never touches the final file.
   Cells written so far are counted 0..Cells; the final file is either absent (-1) or holds
   `final` cells.  IndInv is inductive and implies Safe; checked by Apalache with
   --init=IndInit --inv=IndInv --length=1 (see harness/checks/c17.py: apalache_induction).     *)
EXTENDS Integers

CONSTANTS
  \* @type: Set(Int);
  Proc,
  \* @type: Int;
  Cells

VARIABLES
  \* @type: Int -> Int;
  tmp,        \* cells in p's temporary file, -1 = no tmp file
  \* @type: Int;
  final,      \* cells in the final cache file, -1 = absent
  \* @type: Int -> Str;
  pc,         \* "idle" | "writing" | "crashed"
  \* @type: Int -> Int;
  seen        \* what a reader got at its last Read: -2 nothing yet, -1 miss, else cells

CInit == Proc = {1, 2, 3} /\ Cells = 4

Init == /\ tmp = [p \in Proc |-> -1]
        /\ final = -1
        /\ pc = [p \in Proc |-> "idle"]
        /\ seen = [p \in Proc |-> -2]

OpenTmp(p) == /\ pc[p] = "idle"
              /\ pc' = [pc EXCEPT ![p] = "writing"]
              /\ tmp' = [tmp EXCEPT ![p] = 0]
              /\ UNCHANGED <<final, seen>>
Write(p) == /\ pc[p] = "writing" /\ tmp[p] < Cells
            /\ tmp' = [tmp EXCEPT ![p] = tmp[p] + 1]
            /\ UNCHANGED <<final, pc, seen>>
Rename(p) == /\ pc[p] = "writing" /\ tmp[p] = Cells
             /\ final' = tmp[p]
             /\ tmp' = [tmp EXCEPT ![p] = -1]
             /\ pc' = [pc EXCEPT ![p] = "idle"]
             /\ UNCHANGED seen
Crash(p) == /\ pc[p] = "writing"
            /\ pc' = [pc EXCEPT ![p] = "crashed"]
            /\ UNCHANGED <<tmp, final, seen>>
Read(p) == /\ pc[p] = "idle"
           /\ seen' = [seen EXCEPT ![p] = final]
           /\ UNCHANGED <<tmp, final, pc>>

Next == \E p \in Proc : OpenTmp(p) \/ Write(p) \/ Rename(p) \/ Crash(p) \/ Read(p)

\* ---- the property: whatever a reader got is nothing, a miss, or a COMPLETE file
Safe == \A p \in Proc : seen[p] \in {-2, -1, Cells}

\* ---- inductive invariant
TypeOK == /\ tmp \in [Proc -> -1..Cells]
          /\ final \in {-1, Cells}
          /\ pc \in [Proc -> {"idle", "writing", "crashed"}]
          /\ seen \in [Proc -> {-2, -1, Cells}]
IndInv == TypeOK /\ \A p \in Proc : (pc[p] = "idle" => tmp[p] = -1) /\ (pc[p] = "writing" => tmp[p] >= 0)
IndInit == IndInv
=============================================================================
