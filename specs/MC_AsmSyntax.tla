---------------------------- MODULE MC_AsmSyntax ----------------------------
(* Scan machine over the complete operand-kind lattice of one ISA (properties C09 / C10,
   operand level): every written operand of the lattice is a state.  TLC checks that the
   denotation Canon is well formed and satisfies the rules the statements spell out (scale 1
   when omitted, shift n => scale 2^n, lists/ranges expanded to their members, the value of a
   number is independent of the base it is written in, sp/zr aliases), and emits the table
   (written operand, allowed denotations) that is replayed on the real parser (R2). *)
EXTENDS AsmSyntax
CONSTANT ISA
L == Lattice(ISA)       \* constant level: evaluated once
VARIABLE op
Init == op \in L
Next == UNCHANGED op    \* every written operand is an initial state; nothing else happens
Spec == Init /\ [][Next]_op

C == CanonOp(ISA, op)

KindsOut == IF ISA = "x86" THEN {"reg", "imm", "ident", "mem"} ELSE {"reg", "imm", "fimm", "ident", "cond", "mem"}
CanonWellFormed == Len(C) >= 1 /\ \A i \in 1..Len(C) : C[i].k \in KindsOut
OneToOne == op.k \notin {"list", "range"} => Len(C) = 1

\* x86: scale 1 when omitted, otherwise as written; displacement/base/index present iff written
ScaleRuleX86 == (ISA = "x86" /\ op.k = "mem") =>
                   /\ C[1].scale \in {1, 2, 4, 8}
                   /\ (op.scale = 0 => C[1].scale = 1)
                   /\ (op.scale # 0 => C[1].scale = op.scale)
                   /\ Len(C[1].disp) = Len(op.disp) /\ C[1].base = op.base /\ C[1].index = op.index
\* AArch64: shift amount n gives scale 2^n, no amount gives 1; sp accepted as base
ScaleRuleA64 == (ISA = "aarch64" /\ op.k = "mem") =>
                   /\ C[1].scale \in {1, 2, 4, 8, 16}
                   /\ (op.amt = -1 => C[1].scale = 1)
                   /\ (op.amt = 3 => C[1].scale = 8)
                   /\ (C[1].pre <=> op.mode = "pre") /\ ((C[1].post # "") <=> op.mode = "post")
                   /\ (op.base.name = "sp" => C[1].base = [prefix |-> "x", name |-> "sp"])
\* lists and ranges denote their members, consecutively numbered, all with the list's lane index
ExpandRule == (op.k \in {"list", "range"}) =>
                 LET n == IF op.k = "list" THEN Len(op.elems) ELSE op.count
                     f == IF op.k = "list" THEN op.elems[1] ELSE op.first IN
                 /\ Len(C) = n
                 /\ \A i \in 1..n : /\ C[i].k = "reg" /\ C[i].name = ToString(f.num + i - 1)
                                    /\ C[i].index = op.index /\ C[i].prefix = f.prefix
                                    /\ C[i].shape = f.shape /\ C[i].lanes = f.lanes
\* a range and the list of the same members denote the same operands
RangeIsList == (op.k = "range") =>
                 C = CanonOp(ISA, [k |-> "list", elems |-> Consecutive(op.first, op.count, -1), index |-> op.index])
\* the value of a number does not depend on the base it is written in (checks the digit arithmetic
\* against the hand-written table NumMags), and -0 = 0
HexDecAgree == \A m \in NumMags : IntStr(FALSE, m.dec, 10) = IntStr(FALSE, m.hex, 16)
                                  /\ IntStr(FALSE, m.dec, 10) = DigitsToStr(m.dec)
                                  /\ (m.dec # <<0>> => IntStr(TRUE, m.hex, 16) = "-" \o DigitsToStr(m.dec))
NegZero == IntStr(TRUE, <<0>>, 10) = "0" /\ IntStr(TRUE, <<0, 0>>, 16) = "0"
ImmRule == (op.k = "imm") => C[1] = [k |-> "imm", val |-> IntStr(op.neg, op.ds, op.base)]
\* floating point: 1.5 = 15 * 10^-1, 10.010e+3 = 1001 * 10^1, 0.0 = 0
FloatExamples ==
  /\ CanonFImm(FImm(TRUE, FALSE, <<1>>, <<5>>, FALSE, FALSE, 0)) = [k |-> "fimm", neg |-> FALSE, digs |-> "15", exp |-> -1]
  /\ CanonFImm(FImm(TRUE, TRUE, <<1, 0>>, <<0, 1, 0>>, TRUE, FALSE, 3)) = [k |-> "fimm", neg |-> TRUE, digs |-> "1001", exp |-> 1]
  /\ CanonFImm(FImm(TRUE, TRUE, <<0>>, <<0>>, FALSE, FALSE, 0)) = [k |-> "fimm", neg |-> FALSE, digs |-> "", exp |-> 0]
  /\ CanonFImm(FImm(FALSE, FALSE, <<2>>, <<0, 0>>, FALSE, FALSE, 0)) = [k |-> "fimm", neg |-> FALSE, digs |-> "2", exp |-> 0]
  /\ CanonFImm(FImm(FALSE, FALSE, <<2>>, <<5>>, TRUE, TRUE, 1)) = [k |-> "fimm", neg |-> FALSE, digs |-> "25", exp |-> -2]
\* aliases of register 31
AliasRule == (ISA = "aarch64" /\ op.k = "reg" /\ op.num = -1) =>
                C[1].name = op.name /\ C[1].prefix = (IF op.prefix = "" THEN "x" ELSE op.prefix)
\* the open reading exists only for a bare decimal number in first position
AltRule == /\ (AltOp(ISA, op, 1) # {} => ISA = "x86" /\ op.k = "mem" /\ op.base = <<>> /\ op.index = <<>>)
           /\ AltOp(ISA, op, 2) = {}

\* R2: emit (written operand, denotation, alternative first-position denotations)
Emit == CSVWrite("%1$s", <<ToJson([ast |-> op, canon |-> C, alt |-> AltOp(ISA, op, 1)])>>, IOEnv.OUTFILE)
=============================================================================
