--------------------------- MODULE DepsAlphabet ---------------------------
(* Abstract instruction alphabet shared by MC_Deps, MC_CritPath and MC_LoopDeps: ops with
   per-operand roles (the specification's ISA semantic table), hidden flag operands, a zero
   idiom, a form following the default destination rule, a write-back load.  The harness
   renders exactly these ops through synthetic ISA databases (binding self-check in
   harness/deps_run.py compares its by-construction abstraction with KernelOf).          *)
EXTENDS Deps, SequencesExt
CONSTANTS Locs,        \* abstract register families, e.g. {"a", "b"}
          FlagDeps,    \* analyse with flag dependencies?
          OpsUsed      \* subset of DOMAIN Arity

Flag == "f:C"
\* op table: what an instruction with operand locations `a` reads and writes
\*   opa  s,s,d   opb s,sd   opc s,d (default rule)   opd d,s (irregular)   ope s,s -> flag
\*   opf  d <- flag          opg s,sd with zero idiom when both operands are equal
\*   oph  s       opj s,sd reading and writing the flag        wbl d, [base]! (write-back load)
Sem(op, a) ==
  CASE op = "opa" -> [R |-> {a[1], a[2]}, W |-> {a[3]}, WB |-> {}, FR |-> {}, FW |-> {}]
    [] op = "opb" -> [R |-> {a[1], a[2]}, W |-> {a[2]}, WB |-> {}, FR |-> {}, FW |-> {}]
    [] op = "opc" -> [R |-> {a[1]}, W |-> {a[2]}, WB |-> {}, FR |-> {}, FW |-> {}]
    [] op = "opd" -> [R |-> {a[2]}, W |-> {a[1]}, WB |-> {}, FR |-> {}, FW |-> {}]
    [] op = "ope" -> [R |-> {a[1], a[2]}, W |-> {}, WB |-> {}, FR |-> {}, FW |-> {Flag}]
    [] op = "opf" -> [R |-> {}, W |-> {a[1]}, WB |-> {}, FR |-> {Flag}, FW |-> {}]
    [] op = "opg" -> IF a[1] = a[2]
                     THEN [R |-> {}, W |-> {a[2]}, WB |-> {}, FR |-> {}, FW |-> {Flag}]
                     ELSE [R |-> {a[1], a[2]}, W |-> {a[2]}, WB |-> {}, FR |-> {}, FW |-> {Flag}]
    [] op = "oph" -> [R |-> {a[1]}, W |-> {}, WB |-> {}, FR |-> {}, FW |-> {}]
    [] op = "opj" -> [R |-> {a[1], a[2]}, W |-> {a[2]}, WB |-> {}, FR |-> {Flag}, FW |-> {Flag}]
    [] op = "wbl" -> [R |-> {a[2]}, W |-> {a[1]}, WB |-> {a[2]}, FR |-> {}, FW |-> {}]
    [] op = "nop" -> [R |-> {}, W |-> {}, WB |-> {}, FR |-> {}, FW |-> {}]
Arity == [opa |-> 3, opb |-> 2, opc |-> 2, opd |-> 2, ope |-> 2, opf |-> 1, opg |-> 2, oph |-> 1,
          opj |-> 2, wbl |-> 2, nop |-> 0]
Tuples(m) == [1..m -> Locs]
Alphabet == { [op |-> o, args |-> t] : o \in OpsUsed, t \in UNION { Tuples(m) : m \in 0..3 } }
              \cap { x \in [op : OpsUsed, args : UNION { Tuples(m) : m \in 0..3 }] :
                        Len(x.args) = Arity[x.op] /\ (x.op = "wbl" => x.args[1] # x.args[2]) }

AsSeq(S) == SetToSeq(S)
\* the abstract kernel (Deps.tla format) of an op sequence
KernelOf(ops) ==
  LET n == Len(ops) sem == [i \in 1..n |-> Sem(ops[i].op, ops[i].args)] IN
  [n |-> n,
   R  |-> [i \in 1..n |-> AsSeq(sem[i].R)],  W  |-> [i \in 1..n |-> AsSeq(sem[i].W)],
   WB |-> [i \in 1..n |-> AsSeq(sem[i].WB)], FR |-> [i \in 1..n |-> AsSeq(sem[i].FR)],
   FW |-> [i \in 1..n |-> AsSeq(sem[i].FW)],
   lat |-> [i \in 1..n |-> 12000], latwo |-> [i \in 1..n |-> 12000], lds |-> [i \in 1..n |-> FALSE],
   ST |-> [i \in 1..n |-> <<>>], LD |-> [i \in 1..n |-> <<>>], CH |-> [i \in 1..n |-> <<>>],
   pidx |-> 24000, fwd |-> 0, flagDeps |-> FlagDeps]

=============================================================================
