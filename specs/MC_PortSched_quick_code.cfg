CONSTANT NP = 3
CONSTANT Passes = 2
CONSTANT CapsReset = TRUE
CONSTANT Forms <- OverlapForms
CONSTANT Kernels <- QuickOverlapKernels
SPECIFICATION Spec
INVARIANT TotalsAreColumnSums
CONSTRAINT Emit
CHECK_DEADLOCK FALSE
