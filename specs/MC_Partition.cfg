CONSTANT KMax = 300
CONSTANT NWMax = 130
SPECIFICATION Spec
INVARIANT Covers
INVARIANT Balanced
INVARIANT Contiguous
INVARIANT NoneBeyondK
CHECK_DEADLOCK FALSE
