CONSTANT MaxLines = 4
CONSTANT Alphabet = {"blank:empty", "blank:ws", "comment:a", "comment:b", "label:plain", "label:comment", "directive:a", "directive:b", "instr:ops", "instr:comment", "instr:noops"}
SPECIFICATION Spec
INVARIANT InvOnePerNonBlank
INVARIANT InvLineNumbers
INVARIANT InvVerbatim
INVARIANT InvExactlyOneKind
INVARIANT InvExpected
INVARIANT InvCursor
INVARIANT BlankShifts
CONSTRAINT Emit
CHECK_DEADLOCK FALSE
