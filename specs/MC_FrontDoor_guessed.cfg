SPECIFICATION Spec
CONSTANT Given = ""
INVARIANT ChosenRight
INVARIANT AtMostOneRetry
CHECK_DEADLOCK FALSE
