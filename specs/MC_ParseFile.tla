---------------------------- MODULE MC_ParseFile ----------------------------
(* State machine shaped like BaseParser.parse_file: a cursor advances over the physical lines
   (lineno counts EVERY physical line), out grows only on non-blank lines, each classified by
   the first matching kind.  The file read so far is kept as a history variable so that the
   Level-A clauses of ParseFile can be stated over (file, out).  Every state is a file of its
   own (the graph is a tree), so emitting every state gives all files of <= MaxLines lines over
   the line alphabet, which are replayed on the real parsers (R2). *)
EXTENDS ParseFile
CONSTANTS MaxLines, Alphabet   \* Alphabet: set of abstract line tokens "<kind>:<variant>"
VARIABLES file, lineno, out
vars == <<file, lineno, out>>

KindOf(tok) == CASE tok \in {"blank:empty", "blank:ws"} -> "blank"
                 [] tok \in {"comment:a", "comment:b"} -> "comment"
                 [] tok \in {"label:plain", "label:comment"} -> "label"
                 [] tok \in {"directive:a", "directive:b"} -> "directive"
                 [] OTHER -> "instr"
Line(tok) == [kind |-> KindOf(tok), text |-> tok]

Init == file = <<>> /\ lineno = 0 /\ out = <<>>
\* a physical line is consumed: the counter always advances
Consume(tok) == /\ Len(file) < MaxLines
                /\ file' = Append(file, Line(tok))
                /\ lineno' = lineno + 1
Parsed(t, k) == [lineno |-> lineno + 1, text |-> t, kinds |-> <<k>>]
Blank     == \E t \in Alphabet : KindOf(t) = "blank" /\ Consume(t) /\ out' = out
Comment   == \E t \in Alphabet : KindOf(t) = "comment" /\ Consume(t) /\ out' = Append(out, Parsed(t, "comment"))
Label     == \E t \in Alphabet : KindOf(t) = "label" /\ Consume(t) /\ out' = Append(out, Parsed(t, "label"))
Directive == \E t \in Alphabet : KindOf(t) = "directive" /\ Consume(t) /\ out' = Append(out, Parsed(t, "directive"))
Instr     == \E t \in Alphabet : KindOf(t) = "instr" /\ Consume(t) /\ out' = Append(out, Parsed(t, "instr"))
Next == Blank \/ Comment \/ Label \/ Directive \/ Instr
Spec == Init /\ [][Next]_vars

\* Level B => Level A
InvOnePerNonBlank == OnePerNonBlank(file, out)
InvLineNumbers    == LineNumbers(file, out)
InvVerbatim       == Verbatim(file, out)
InvExactlyOneKind == ExactlyOneKind(file, out)
InvExpected       == out = Expected(file)
InvCursor         == lineno = Len(file)
\* the line number is NOT the index in out as soon as a blank line was seen (guards the spec
\* against degenerating into "number the parsed lines"): checked as a reachable witness
BlankShifts == (Len(out) >= 1 /\ \E i \in 1..Len(file) : file[i].kind = "blank" /\ i < out[Len(out)].lineno)
                  => out[Len(out)].lineno > Len(out)

Emit == CSVWrite("%1$s", <<ToJson([file |-> [i \in 1..Len(file) |-> file[i].text], out |-> out])>>, IOEnv.OUTFILE)
=============================================================================
