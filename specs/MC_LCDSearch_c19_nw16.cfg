CONSTANT KTab <- MC_KTab
CONSTANT Kernels <- K4
CONSTANT NWs = {16}
CONSTANT Timeouts = {TRUE}
CONSTANT TickEnabled = TRUE
CONSTANT ReduceIdle = TRUE
CONSTANT DeadlineTestFirst = TRUE
SPECIFICATION Spec
INVARIANT TypeOK
INVARIANT PartitionIsOk
INVARIANT ResultIndependentOfScheduleAndNW
INVARIANT SoundPartial
INVARIANT WholeRootPrefixes
INVARIANT CompleteWhenNotTimedOut
INVARIANT NoWarningWithoutTimeout
INVARIANT NoOrphans
INVARIANT NoLateWrites
