CONSTANT ISA = "x86"
CONSTANT MAXK = 2
CONSTANT DEVS = {"InPlaceRowExtension"}
CONSTANT MODELSET = {2}
SPECIFICATION Spec
INVARIANT Inert
CHECK_DEADLOCK FALSE
