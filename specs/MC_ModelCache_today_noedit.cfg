CONSTANT NProcs = 2
CONSTANT NContents = 2
CONSTANT AtomicWrite = FALSE
CONSTANT TolerantRead = TRUE
CONSTANT ReadOnce = FALSE
CONSTANT RtServes = FALSE
CONSTANT Sequential = FALSE
CONSTANT EditWhileBusy = FALSE
CONSTANT MaxStarts = 3
CONSTANT MaxEdits = 1
CONSTANT MaxEnvs = 1
CONSTANT AllowLegacy = TRUE
CONSTANT CrashAnywhere = TRUE
CONSTANT SameProcReload = TRUE
SPECIFICATION Spec
VIEW View
INVARIANT TypeOK
INVARIANT RunNeverFails
INVARIANT ResultIsContent
INVARIANT StaleNeverServed
CHECK_DEADLOCK FALSE
