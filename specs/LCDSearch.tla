------------------------------ MODULE LCDSearch ------------------------------
(***************************************************************************)
(* Pure definitions for the parallel loop-carried-dependency search of     *)
(* KernelDG.check_for_loopcarried_dep (properties C16, C19).               *)
(*                                                                         *)
(*  - the static partition of the K root instructions over NW workers,     *)
(*    exactly as the code computes it                                       *)
(*        workload = int((klen - 1) / num_cores) + 1                        *)
(*        slice(w) = kernel[w*workload : min((w+1)*workload, klen)]         *)
(*  - an abstract kernel (every line writes a register of its own and      *)
(*    reads the registers of the lines in src[i]), the graph of two        *)
(*    concatenated iterations, the simple paths root -> root+K a worker    *)
(*    collects for one root, and the cycle record (sorted member lines,    *)
(*    latency sum) the post-processing keeps for a path                    *)
(*  - the post-processing as a function of the SET of collected roots.     *)
(*                                                                         *)
(* Roots are positions 1..K in the kernel; workers are numbered 0..NW-1.   *)
(* Latencies are integers in units of 1/12000 cycle (DESIGN 3.2).          *)
(***************************************************************************)
EXTENDS Naturals, Sequences, FiniteSets, TLC

Min2(a, b) == IF a <= b THEN a ELSE b

\* ---------------------------------------------------------------- partition
Workload(K, NW)    == ((K - 1) \div NW) + 1
SliceLo(K, NW, w)  == w * Workload(K, NW)                       \* 0-based, inclusive
SliceHi(K, NW, w)  == Min2((w + 1) * Workload(K, NW), K)        \* 0-based, exclusive
SliceLen(K, NW, w) == IF SliceHi(K, NW, w) > SliceLo(K, NW, w)
                      THEN SliceHi(K, NW, w) - SliceLo(K, NW, w) ELSE 0   \* kernel[s:e] = [] when s >= e
Slice(K, NW, w)    == [i \in 1..SliceLen(K, NW, w) |-> SliceLo(K, NW, w) + i]

Iota(K) == [i \in 1..K |-> i]
ConcatSlices(K, NW, w0) ==
  LET C[w \in 0..NW] == IF w >= NW THEN << >> ELSE Slice(K, NW, w) \o C[w + 1] IN C[w0]
\* every root belongs to exactly one slice, slices are contiguous and in kernel order
PartitionOk(K, NW) == ConcatSlices(K, NW, 0) = Iota(K)

Range(s) == { s[i] : i \in DOMAIN s }
IsPrefix(s, t) == Len(s) <= Len(t) /\ \A i \in 1..Len(s) : s[i] = t[i]
\* the subsequence of s made of the elements that belong to the set S
Restrict(s, S) == SelectSeq(s, LAMBDA x : x \in S)

\* ---------------------------------------------------------------- abstract kernels
\* k = [n |-> K, src |-> <<SUBSET 1..K, ...>>, lat |-> <<Nat, ...>>]
\* Line i writes register R_i (nobody else does) and reads R_p for p \in src[i]; an edge
\* leaving line i has weight lat[i].  Nodes 1..n are the first iteration, n+1..2n the second.
Line(k, x) == ((x - 1) % k.n) + 1
Edge(k, x, y) ==
  LET i == Line(k, x)  j == Line(k, y) IN
  /\ x < y
  /\ i \in k.src[j]
  /\ \/ (x <= k.n) = (y <= k.n) /\ i < j        \* produced earlier in the same iteration
     \/ x <= k.n /\ y > k.n /\ i >= j           \* produced in the previous iteration (or by itself)

\* all paths x ~> t (the graph is acyclic and edges go forward: every path is simple)
PathsTo(k, x0, t) ==
  LET P[x \in 1..t] ==
        IF x = t THEN { <<t>> }
        ELSE UNION { { <<x>> \o p : p \in P[y] } : y \in { z \in (x + 1)..t : Edge(k, x, z) } }
  IN P[x0]

\* what a worker appends for root r: list(all_simple_paths(dg, r, r + offset))
RootPaths(k, r) == PathsTo(k, r, r + k.n)

SortedSeq(S) == [i \in 1..Cardinality(S) |-> CHOOSE a \in S : Cardinality({ b \in S : b < a }) = i - 1]
SumLat(k, p, i0) ==
  LET S[i \in 1..Len(p)] == IF i >= Len(p) THEN 0 ELSE k.lat[Line(k, p[i])] + S[i + 1] IN S[i0]

\* what the post-processing keeps of a path: source lines of its edges mapped back to the
\* first iteration and sorted (the de-duplication key and the dictionary key), latency sum
Cycle(k, p) == [key |-> SortedSeq({ Line(k, p[i]) : i \in 1..(Len(p) - 1) }), lat |-> SumLat(k, p, 1)]
CycOfRoot(k, r) == { Cycle(k, p) : p \in RootPaths(k, r) }

\* kernel table entry used by the state machine:
\*   n, cyc[r] = cycle records (or opaque cycle ids) of root r, np[r] = number of paths of root r
\* (TLC keeps [x \in S |-> e] lazy and does not cache it: cyc[r] enumerates the paths of root r on
\*  every application, so the state machine touches the table only in PostProcess and in the
\*  properties of terminal states)
Build(k) == [n   |-> k.n,
             cyc |-> [r \in 1..k.n |-> CycOfRoot(k, r)],
             np  |-> [r \in 1..k.n |-> Cardinality(RootPaths(k, r))]]

\* ---------------------------------------------------------------- post-processing
\* de-duplication set + sort: a function of the set of roots whose paths were collected
ResultOf(cyc, roots) == UNION { cyc[roots[i]] : i \in DOMAIN roots }
FullResult(e) == UNION { e.cyc[r] : r \in 1..e.n }        \* = what the sequential search returns

=============================================================================
