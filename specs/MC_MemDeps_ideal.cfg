CONSTANTS
  MaxMid = 2
  Disp <- DispDefault
  CopyChainNotResolved = FALSE
  PostIndexUnknown = FALSE
SPECIFICATION Spec
INVARIANT MustLink
INVARIANT MustNotLink
INVARIANT StoreEndsSearch
CONSTRAINT Emit
CHECK_DEADLOCK FALSE
