----------------------------- MODULE MC_LCDSearch -----------------------------
(* Exhaustive exploration of the parallel LCD search for small kernels: every worker count in
   NWs (0 stands for "more workers than kernel lines": K + 1), with and without a timeout,
   every interleaving of worker steps, coordinator steps and the moment the deadline passes.
   Every (kernel, worker count, timeout?) triple is an initial state; `par` never changes.   *)
EXTENDS LCDSearchSM, Json, CSV, IOUtils

CONSTANTS Kernels,       \* set of kernel ids <<family, K>>
          NWs,           \* set of worker counts; 0 means K + 1
          Timeouts,      \* subset of BOOLEAN: TRUE = finite timeout, FALSE = timeout -1
          TickEnabled,   \* BOOLEAN: may the deadline pass?
          ReduceIdle     \* BOOLEAN: hand-made symmetry reduction for workers with an empty slice (below)

U == 12000
LatOf(i) == <<1, 3, 5>>[(i % 3) + 1] * U
Pred(n, i, d) == ((i - 1 + 4 * n - d) % n) + 1          \* the line d positions earlier (cyclically)

\* kernel families (rendered 1:1 to assembly by harness/lcd_common.py: render_abstract)
Kern(fam, n) ==
  [n   |-> n,
   lat |-> [i \in 1..n |-> LatOf(i)],
   src |-> [i \in 1..n |->
             CASE fam = "chain"  -> {Pred(n, i, 1)}                      \* one cycle through all lines: K paths, one LCD
               [] fam = "accs"   -> {i}                                  \* K independent accumulators
               [] fam = "dense"  -> {Pred(n, i, 1), Pred(n, i, 2)}       \* many overlapping cycles
               [] fam = "mixed"  -> IF i % 3 = 0 THEN {}                 \* lines on no cycle (empty appends),
                                    ELSE IF i % 3 = 1 THEN {i, Pred(n, i, 1)} ELSE {Pred(n, i, 1), Pred(n, i, 3)}
               [] fam = "none"   -> {} ]]                                 \* no dependency at all: every append is empty

MC_KTab(id) == Build(Kern(id[1], id[2]))

D4     == { <<"dense", 4>> }
K4     == { <<"chain", 4>>, <<"dense", 4>>, <<"mixed", 4>> }
K3     == { <<"dense", 3>>, <<"mixed", 3>> }
K2     == { <<"dense", 2>> }
K6     == { <<"chain", 6>>, <<"accs", 6>>, <<"dense", 6>>, <<"mixed", 6>> }
K8     == { <<"dense", 8>>, <<"mixed", 8>> }
K1     == { <<"accs", 1>>, <<"none", 1>> }
KR2    == { <<"dense", 3>>, <<"mixed", 4>>, <<"none", 1>> }   \* graphs dumped for the replay (R2)
KSim   == { <<"dense", 8>>, <<"mixed", 8>>, <<"dense", 6>>, <<"mixed", 10>>, <<"chain", 12>> }   \* behaviours by simulation (R2, thorough)
KTiny  == K3 \cup K1 \cup D4
KSmall == K4 \cup K1 \cup { <<"mixed", 5>> }
KMid   == KSmall \cup K3 \cup { <<"dense", 5>>, <<"chain", 6>>, <<"accs", 6>>, <<"none", 3>> }   \* thorough tier
KMid19 == KSmall \cup K3 \cup { <<"dense", 5>>, <<"none", 3>> }   \* thorough tier with the deadline
KMany  == K6 \cup K8 \cup KSmall \cup { <<"none", 3>>, <<"dense", 7>> }

NWOf(id) == { n \in NWs : n > 0 } \cup (IF 0 \in NWs THEN { id[2] + 1 } ELSE {})

Init == \E id \in Kernels : \E nw \in NWOf(id) : \E to \in Timeouts :
           InitWith([kid |-> id, n |-> id[2], nw |-> nw, to |-> to])

\* Workers with an empty slice (NW > K) only exit; they are interchangeable and no property
\* mentions their identity, so with ReduceIdle they exit in index order (2^m subsets -> m + 1).
IdleOrderOk(w) == ReduceIdle /\ Len(Sl(w)) = 0 => \A v \in 0..(w - 1) : Len(Sl(v)) = 0 => wst[v] # "run"

Workers  == \E w \in W : IdleOrderOk(w) /\ WStep(w)
Deadline == TickEnabled /\ Tick

Next ==
  \/ StartAll
  \/ Workers
  \/ Deadline
  \/ Check \/ Sleep \/ Kill \/ JoinAll \/ Copy \/ PostProcess
  \/ Terminated

Spec == Init /\ [][Next]_vars

\* ---------------------------------------------------------------- liveness (C19: "returns within
\* the timeout plus a bounded overhead", as far as a model without clocks can say it)
Coordinator == StartAll \/ Check \/ Sleep \/ Kill \/ JoinAll \/ Copy \/ PostProcess
MaxW == 16
WStepOf(w) == w \in W /\ WStep(w)
\* (1) once the deadline has passed the coordinator alone reaches Done - whatever the workers do,
\*     even if they never take another step (an exponential search): at most Check, Kill, Copy,
\*     PostProcess remain.
FairCoordinator == Spec /\ WF_vars(Coordinator)
ReturnsAfterDeadline == expired ~> Done
\* (2) with a timeout and a clock that eventually strikes, the analysis always returns
FairClock == Spec /\ WF_vars(Coordinator) /\ WF_vars(Deadline)
AlwaysReturnsWithTimeout == par.to => <>Done
\* (3) without a timeout it returns if every worker keeps running
FairWorkers == Spec /\ WF_vars(Coordinator) /\ \A w \in 0..(MaxW - 1) : WF_vars(WStepOf(w))
AlwaysReturnsWhenWorkersFinish == <>Done

\* R2: the kernel table (abstract kernel, expected per-root cycles, expected full result)
EmitTable ==
  \A id \in Kernels :
     CSVWrite("%1$s", <<ToJson([fam |-> id[1], n |-> id[2],
                                src |-> [i \in 1..id[2] |-> SortedSeq(Kern(id[1], id[2]).src[i])],
                                lat |-> Kern(id[1], id[2]).lat,
                                np  |-> MC_KTab(id).np,
                                cyc |-> [r \in 1..id[2] |-> MC_KTab(id).cyc[r]],
                                full |-> FullResult(MC_KTab(id))])>>, IOEnv.OUTFILE)
AllPars == { [kid |-> id, n |-> id[2], nw |-> nw, to |-> to] : id \in Kernels, nw \in 0..64, to \in Timeouts }
FirstPar == CHOOSE p \in { q \in AllPars : q.nw \in NWOf(q.kid) } : TRUE
EmitOnce == (cpc = "start" /\ par = FirstPar) => EmitTable
=============================================================================
