CONSTANT MaxLine = 5
CONSTANT MaxItems = 2
SPECIFICATION Spec
INVARIANT ExpansionExact
INVARIANT NothingInvented
INVARIANT InclusiveEnds
CONSTRAINT Emit
CHECK_DEADLOCK FALSE
