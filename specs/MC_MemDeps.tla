------------------------------ MODULE MC_MemDeps ------------------------------
(* Level B for C06: the store -> load search of KernelDG.find_depending / is_memload with the
   register-change bookkeeping of _update_reg_changes, as a state machine over programs
       store [p + d0] ; <= MaxMid pointer operations ; load [r + d1]
   with pointer registers p, q.  The bookkeeping keeps per register a record
   [name, value] ("holds the value register `name` had at the store, plus value") or unknown.
   Two behaviours of the implementation are named deviations, switchable by constants:
     CopyChainNotResolved  a copy records the SOURCE register's name, not the origin the source
                           itself was copied from (mov p->q ; mov q->p' loses the link)
     PostIndexUnknown      a post-indexed access makes its base register unknown instead of
                           adding the immediate
   Level A (Deps.tla): MemMust => linked, linked => MemMay.  With both deviations FALSE the
   invariants hold; with a deviation TRUE TLC produces the witness that is replayed on the
   code (harness/checks/c06.py).                                                          *)
EXTENDS Deps, SequencesExt, Json, CSV, IOUtils
CONSTANTS MaxMid, Disp, CopyChainNotResolved, PostIndexUnknown

DispDefault == {-8, 0, 8, 16}
P == "p"  Q == "q"
PtrRegs == {P, Q}
MidOps == { [op |-> "add", r |-> r, src |-> r, v |-> v] : r \in PtrRegs, v \in {8, -8} }
     \cup { [op |-> "copy", r |-> rs[1], src |-> rs[2], v |-> 0] : rs \in { x \in PtrRegs \X PtrRegs : x[1] # x[2] } }
     \cup { [op |-> "clob", r |-> r, src |-> r, v |-> 0] : r \in PtrRegs }
     \cup { [op |-> "post", r |-> r, src |-> r, v |-> 8] : r \in PtrRegs }
     \cup { [op |-> "stsame", r |-> P, src |-> P, v |-> 0], [op |-> "stother", r |-> Q, src |-> Q, v |-> 0] }

VARIABLES d0, mids, lr, d1,      \* the program (fixed after Init)
          pc, st, ended, linked, phase
vars == <<d0, mids, lr, d1, pc, st, ended, linked, phase>>

Ident(r) == [u |-> FALSE, name |-> r, value |-> 0]
Unk == [u |-> TRUE, name |-> "", value |-> 0]

\* ---- the abstract kernel of the program, for the declarative side
StoreRef(b, d, t) == [b |-> b, x |-> "", s |-> 1, d |-> d, t |-> t]
InstrOf(m) ==
  CASE m.op = "add"  -> [R |-> <<m.r>>, W |-> <<m.r>>, WB |-> <<>>, ST |-> <<>>, LD |-> <<>>,
                         CH |-> << [r |-> m.r, kind |-> "add", src |-> m.r, v |-> m.v] >>]
    [] m.op = "copy" -> [R |-> <<m.src>>, W |-> <<m.r>>, WB |-> <<>>, ST |-> <<>>, LD |-> <<>>,
                         CH |-> << [r |-> m.r, kind |-> "copy", src |-> m.src, v |-> 0] >>]
    [] m.op = "clob" -> [R |-> <<>>, W |-> <<m.r>>, WB |-> <<>>, ST |-> <<>>, LD |-> <<>>, CH |-> <<>>]
    [] m.op = "post" -> [R |-> <<m.r>>, W |-> <<"t">>, WB |-> <<m.r>>, ST |-> <<>>,
                         LD |-> << StoreRef(m.r, 0, "post") >>,
                         CH |-> << [r |-> m.r, kind |-> "add", src |-> m.r, v |-> m.v] >>]
    [] m.op = "stsame"  -> [R |-> <<P>>, W |-> <<>>, WB |-> <<>>, ST |-> << StoreRef(P, d0, "first") >>, LD |-> <<>>, CH |-> <<>>]
    [] m.op = "stother" -> [R |-> <<Q>>, W |-> <<>>, WB |-> <<>>, ST |-> << StoreRef(Q, 64, "other") >>, LD |-> <<>>, CH |-> <<>>]
Prog == << [R |-> <<P>>, W |-> <<>>, WB |-> <<>>, ST |-> << StoreRef(P, d0, "first") >>, LD |-> <<>>, CH |-> <<>>] >>
        \o [i \in 1..Len(mids) |-> InstrOf(mids[i])]
        \o << [R |-> <<lr>>, W |-> <<"t">>, WB |-> <<>>, ST |-> <<>>, LD |-> << StoreRef(lr, d1, "ld") >>, CH |-> <<>>] >>
K == LET n == Len(Prog) IN
  [n |-> n, R |-> [i \in 1..n |-> Prog[i].R], W |-> [i \in 1..n |-> Prog[i].W], WB |-> [i \in 1..n |-> Prog[i].WB],
   FR |-> [i \in 1..n |-> <<>>], FW |-> [i \in 1..n |-> <<>>],
   lat |-> [i \in 1..n |-> 12000], latwo |-> [i \in 1..n |-> 12000], lds |-> [i \in 1..n |-> FALSE],
   ST |-> [i \in 1..n |-> Prog[i].ST], LD |-> [i \in 1..n |-> Prog[i].LD], CH |-> [i \in 1..n |-> Prog[i].CH],
   pidx |-> 12000, fwd |-> 0, flagDeps |-> FALSE]

Init == /\ d0 \in Disp /\ d1 \in Disp /\ lr \in PtrRegs
        /\ mids \in UNION { [1..m -> MidOps] : m \in 0..MaxMid }
        /\ pc = 1 /\ st = [r \in PtrRegs |-> Ident(r)] /\ ended = FALSE /\ linked = FALSE /\ phase = "scan"

\* ---- Level B: one action per kind of intervening instruction
Cur == mids[pc]
Bump == /\ phase = "scan" /\ pc <= Len(mids) /\ Cur.op = "add"
        /\ st' = [st EXCEPT ![Cur.r] = IF @.u THEN Unk ELSE [@ EXCEPT !.value = @ + Cur.v]]
        /\ pc' = pc + 1 /\ UNCHANGED <<d0, mids, lr, d1, ended, linked, phase>>
Copy == /\ phase = "scan" /\ pc <= Len(mids) /\ Cur.op = "copy"
        /\ LET s == st[Cur.src] IN
           st' = [st EXCEPT ![Cur.r] = IF s.u THEN Unk
                                        ELSE [u |-> FALSE,
                                              name |-> IF CopyChainNotResolved THEN Cur.src ELSE s.name,
                                              value |-> s.value]]
        /\ pc' = pc + 1 /\ UNCHANGED <<d0, mids, lr, d1, ended, linked, phase>>
Clobber == /\ phase = "scan" /\ pc <= Len(mids) /\ Cur.op = "clob"
           /\ st' = [st EXCEPT ![Cur.r] = Unk]
           /\ pc' = pc + 1 /\ UNCHANGED <<d0, mids, lr, d1, ended, linked, phase>>
PostIdx == /\ phase = "scan" /\ pc <= Len(mids) /\ Cur.op = "post"
           /\ st' = [st EXCEPT ![Cur.r] = IF PostIndexUnknown \/ @.u THEN Unk ELSE [@ EXCEPT !.value = @ + Cur.v]]
           /\ pc' = pc + 1 /\ UNCHANGED <<d0, mids, lr, d1, ended, linked, phase>>
SeeStore == /\ phase = "scan" /\ pc <= Len(mids) /\ Cur.op \in {"stsame", "stother"}
            /\ IF Cur.op = "stsame" THEN ended' = TRUE /\ phase' = "done" ELSE UNCHANGED <<ended, phase>>
            /\ pc' = pc + 1 /\ UNCHANGED <<d0, mids, lr, d1, st, linked>>
SeeLoad == /\ phase = "scan" /\ pc > Len(mids)
           /\ LET c == st[lr] IN
              linked' = (~c.u /\ c.name = P /\ d1 + c.value - d0 = 0)
           /\ phase' = "done" /\ UNCHANGED <<d0, mids, lr, d1, pc, st, ended>>
Next == Bump \/ Copy \/ Clobber \/ PostIdx \/ SeeStore \/ SeeLoad
Spec == Init /\ [][Next]_vars

Done == phase = "done"
N == Len(Prog)
\* ---- Level B => Level A
MustLink    == Done => (MemMust(K, 1, N) => linked)
MustNotLink == Done => (linked => MemMay(K, 1, N))
StoreEndsSearch == Done => (ended => ~linked /\ ~MemMay(K, 1, N))
\* intermediate post-indexed loads: the same analysis applies from the store to each of them
Emit == Done => CSVWrite("%1$s", <<ToJson([d0 |-> d0, mids |-> mids, lr |-> lr, d1 |-> d1,
                                           must |-> MemMust(K, 1, N), may |-> MemMay(K, 1, N), linkedB |-> linked])>>, IOEnv.OUTFILE)
=============================================================================
