----------------------------- MODULE Trace_Port -----------------------------
(* Batch validation of port-pressure observations recorded from the implementation
   (R3 of C01 and C02, and the Level-A verdict on every R2 replay).

   kind "c01": one snapshot of an analysed kernel
       np      number of ports
       passes  0 = uniform scheduling (exact), k > 0 = after k balancing passes
       lines   <<[tp, row, alts, (obs)]>>  tp = 1 iff the line has a non-zero throughput value,
               row = reported pressure, alts = the micro-op alternatives of the line
               (by construction of the synthetic model, or as reported for shipped models),
               obs = micro-op lists reported by the code (only when alts is by construction)
       totals  the per-port totals reported for the kernel
   kind "c02": bottlenecks of one kernel
       lines   <<[tp, alts]>> ; opt1 / opt2 = totals after one / two passes (absent if not run)
       family  1 iff the kernel belongs to the bounded family of the statement (Within15 applies)
       uni     (optional) totals reported under uniform scheduling, used as the reference bottleneck
   Every clause is a definition of PortModel.tla. *)
EXTENDS PortModel, Json, IOUtils
Cases == ndJsonDeserialize(IOEnv.CASES)
VARIABLE tid

Has(r, f) == f \in DOMAIN r

\* ---------------------------------------------------------------- C01
Eps(c, uops) == IF c.passes = 0 THEN 0 ELSE EpsOpt(c.passes, uops)
AltsRepresentable(l) == \A a \in DOMAIN l.alts : \A x \in DOMAIN l.alts[a] : Representable(l.alts[a][x])
\* micro-op list without the multiplier annotation (the code reports cycles and ports only)
Bare(alt) == [ x \in DOMAIN alt |-> [c |-> alt[x].c, p |-> alt[x].p] ]
\* clause of one line: some alternative must explain the row
LineClause(c, l) ==
  IF ~AltsRepresentable(l) THEN "unrepresentable"
  ELSE IF Has(l, "obs") /\ \E o \in DOMAIN l.obs : ~\E a \in DOMAIN l.alts : Bare(l.obs[o]) = Bare(l.alts[a])
       THEN "reported-uops-not-in-model"
  ELSE IF \E a \in DOMAIN l.alts : FeasClause(l.row, l.alts[a], Eps(c, l.alts[a]), c.np) = "ok"
       THEN (IF c.passes = 0 /\ ~\E a \in DOMAIN l.alts : l.row = UniformRow(l.alts[a], c.np)
             THEN "not-uniform-split" ELSE "ok")
  ELSE \* name the clause for the alternative the code says it selected, else for the first one
       LET sel == IF Has(l, "obs") /\ Len(l.obs) = 1 /\ \E a \in DOMAIN l.alts : Bare(l.alts[a]) = Bare(l.obs[1])
                  THEN MinSet({ a \in DOMAIN l.alts : Bare(l.alts[a]) = Bare(l.obs[1]) }) ELSE 1
       IN FeasClause(l.row, l.alts[sel], Eps(c, l.alts[sel]), c.np)
C01Clause(c) ==
  LET bad == { i \in DOMAIN c.lines : LineClause(c, c.lines[i]) # "ok" } IN
  IF bad # {} THEN LET i == MinSet(bad) IN <<LineClause(c, c.lines[i]), i>>
  ELSE IF ~TotalsOk(c.lines, c.totals, c.np) THEN <<"totals", BadTotalPort(c.lines, c.totals, c.np)>>
  ELSE <<"ok", 0>>

\* ---------------------------------------------------------------- C02
\* all ways of picking one alternative per summed line (only lines with several alternatives vary)
Multi(c) == { i \in Summed(c.lines) : Len(c.lines[i].alts) > 1 }
MaxAlt(c) == MaxSet({1} \cup { Len(c.lines[i].alts) : i \in Multi(c) })
Choices(c) == { f \in [ Multi(c) -> 1..MaxAlt(c) ] : \A i \in Multi(c) : f[i] <= Len(c.lines[i].alts) }
Pick(f, i) == IF i \in DOMAIN f THEN f[i] ELSE 1
RECURSIVE UopsOf(_, _, _)
UopsOf(c, f, S) == IF S = {} THEN <<>>
                   ELSE LET i == MinSet(S) IN c.lines[i].alts[Pick(f, i)] \o UopsOf(c, f, S \ {i})
KUops(c, f) == UopsOf(c, f, Summed(c.lines))
UniLines(c, f) == [ i \in DOMAIN c.lines |->
                     [tp |-> c.lines[i].tp,
                      row |-> IF c.lines[i].tp = 1 THEN UniformRow(c.lines[i].alts[Pick(f, i)], c.np)
                              ELSE [q \in 1..c.np |-> 0]] ]
\* bottleneck of uniform 1/N scheduling: upper neighbour at rounding ties, weakest over alternatives
UniBottleneck(c) ==
  MaxSet({ MaxSet(UNION { Round2(ColSum(UniLines(c, f), q)) : q \in 1..c.np }) : f \in Choices(c) })
\* reference: computed from the micro-ops, or (shipped models) the uniform totals the code reported
UniRef(c) == IF Has(c, "uni") THEN MaxSeq(c.uni) ELSE UniBottleneck(c)
Bott(t) == MaxSeq(t)
\* the optimum is a lower bound whichever alternatives are selected: weakest = some choice
NotBelowHall(c, t) == \E f \in Choices(c) : AtLeastHall(Bott(t), KUops(c, f), STEP)
Within15(c, t) == \E f \in Choices(c) : AtMostHallPlus(Bott(t), KUops(c, f), 15 * STEP)
C02Representable(c) == \A i \in DOMAIN c.lines : AltsRepresentable(c.lines[i])
C02Clause(c) ==
  IF ~C02Representable(c) THEN <<"unrepresentable", 0>>
  ELSE IF Has(c, "opt1") /\ Bott(c.opt1) > UniRef(c) THEN <<"worse-than-uniform", 1>>
  ELSE IF Has(c, "opt2") /\ Bott(c.opt2) > UniRef(c) THEN <<"worse-than-uniform", 2>>
  ELSE IF Has(c, "opt1") /\ ~NotBelowHall(c, c.opt1) THEN <<"below-optimum", 1>>
  ELSE IF Has(c, "opt2") /\ ~NotBelowHall(c, c.opt2) THEN <<"below-optimum", 2>>
  ELSE IF c.family = 1 /\ Has(c, "opt2") /\ ~Within15(c, c.opt2) THEN <<"not-within-0.15", 2>>
  ELSE <<"ok", 0>>

Clause(c) == IF c.kind = "c01" THEN C01Clause(c) ELSE C02Clause(c)
Check == LET c == Cases[tid] cl == Clause(c) IN
         IF cl[1] = "ok" THEN TRUE ELSE PrintT(<<"REJECT", c.id, cl[1], cl[2]>>)
TraceInit == tid = 1
TraceNext == tid < Len(Cases) /\ tid' = tid + 1
TraceSpec == TraceInit /\ [][TraceNext]_tid
AllConsumed == TLCGet("stats").diameter = Len(Cases)
=============================================================================
