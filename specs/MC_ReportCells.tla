--------------------------- MODULE MC_ReportCells ---------------------------
(* The cell rule of C13 on the value lattice: for every value v (units of 1/12000 cycle)
   from a dense range and a set of large values, and every number of shown digits d, the set
   of integers a cell may show.  Invariants: the set is never empty, has two elements exactly
   at an exact half, is a singleton otherwise, and is monotone in v.  The table is emitted and
   replayed on the real formatter by injecting the values into a kernel. *)
EXTENDS Report
CONSTANTS Dense, Large        \* Dense: 0..Dense ; Large: extra values
Vals == (0..Dense) \cup Large
VARIABLES v, d
\* TLC integers are 32 bit: only (v, d) whose products fit (the harness applies the same guard)
Fits(x, y) == x <= 500000000 \div Pow10(y)
Init == v \in Vals /\ d \in { y \in 0..3 : Fits(v, y) }
Next == UNCHANGED <<v, d>>
Spec == Init /\ [][Next]_<<v, d>>

NonEmpty   == RoundSet(d, v) # {}
TwoIffTie  == Cardinality(RoundSet(d, v)) = (IF IsTie(d, v) THEN 2 ELSE 1)
Monotone   == (v + 1 \in Vals /\ Fits(v + 1, d)) => Max(RoundSet(d, v)) <= Max(RoundSet(d, v + 1))
ExactOnGrid == ((v * Pow10(d)) % U = 0) => RoundSet(d, v) = { (v * Pow10(d)) \div U }
ZeroIsZero == RoundSet(d, 0) = {0}
Emit == CSVWrite("%1$s", << ToJson([v |-> v, d |-> d, ns |-> RoundSet(d, v)]) >>, IOEnv.OUTFILE)
=============================================================================
