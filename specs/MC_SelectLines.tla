--------------------------- MODULE MC_SelectLines ---------------------------
(* --lines expansion (C11).  Every --lines argument of up to MaxItems items over the
   line numbers 1..MaxLine (single numbers, inclusive ranges written a-b or a:b) is an
   initial state; the expansion loop of osaca.get_line_range (Level B: one step per item,
   appending to a list) runs on it; at the end the set of collected numbers must be exactly
   the set the argument names (Level A: Named). *)
EXTENDS Select
CONSTANTS MaxLine, MaxItems

Items == { [a |-> n, b |-> n, sep |-> ""] : n \in 1..MaxLine }
         \cup { [a |-> x, b |-> y, sep |-> s] : x \in 1..MaxLine, y \in 1..MaxLine, s \in {"-", ":"} }
Legal(it) == it.a <= it.b        \* the statement speaks of ranges a..b; a > b is left open
ArgSeqs == UNION { [1..m -> { it \in Items : Legal(it) }] : m \in 1..MaxItems }

VARIABLES items, pos, acc
vars == <<items, pos, acc>>

Init == items \in ArgSeqs /\ pos = 1 /\ acc = <<>>
AddSingle == /\ pos <= Len(items) /\ items[pos].sep = ""
             /\ acc' = Append(acc, items[pos].a) /\ pos' = pos + 1 /\ UNCHANGED items
AddRange  == /\ pos <= Len(items) /\ items[pos].sep # ""
             /\ acc' = acc \o [i \in 1..(items[pos].b - items[pos].a + 1) |-> items[pos].a + i - 1]
             /\ pos' = pos + 1 /\ UNCHANGED items
Next == AddSingle \/ AddRange
Spec == Init /\ [][Next]_vars

Done == pos > Len(items)
ExpansionExact == Done => ToSet(acc) = Named(items)
NothingInvented == ToSet(acc) \subseteq Named(items)
InclusiveEnds == Done => \A i \in DOMAIN items : items[i].a \in ToSet(acc) /\ items[i].b \in ToSet(acc)

Emit == Done => CSVWrite("%1$s", << ToJson([items |-> items, named |-> Named(items)]) >>, IOEnv.OUTFILE)
=============================================================================
