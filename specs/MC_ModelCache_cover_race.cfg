CONSTANT NProcs = 2
CONSTANT NContents = 2
CONSTANT AtomicWrite = FALSE
CONSTANT TolerantRead = FALSE
CONSTANT ReadOnce = FALSE
CONSTANT RtServes = FALSE
CONSTANT Sequential = FALSE
CONSTANT EditWhileBusy = FALSE
CONSTANT MaxStarts = 2
CONSTANT MaxEdits = 0
CONSTANT MaxEnvs = 0
CONSTANT AllowLegacy = FALSE
CONSTANT CrashAnywhere = FALSE
CONSTANT SameProcReload = FALSE
SPECIFICATION Spec
VIEW View
INVARIANT TypeOK
CONSTRAINT Emit
CHECK_DEADLOCK FALSE
