CONSTANT InPlaceMutation = TRUE
CONSTANT DeadlineOnProcessClock = FALSE
CONSTANT AgeLimit = 2
CONSTANT MaxAge = 0
CONSTANT ModelReused = FALSE
CONSTANT TreeKinds = 16
CONSTANT MaxLen = 2
SPECIFICATION Spec
INVARIANT TypeOK
INVARIANT ReportIsFunctionOfRequest
PROPERTY SharedUnchanged
PROPERTY LoadedGrows
CHECK_DEADLOCK FALSE
