CONSTANT NP = 3
CONSTANT Passes = 2
CONSTANT CapsReset = FALSE
CONSTANT Forms <- OverlapForms
CONSTANT Kernels <- OverlapKernels
SPECIFICATION Spec
INVARIANT FeasibleAll
INVARIANT TotalsAreColumnSums
CONSTRAINT Emit
CHECK_DEADLOCK FALSE
