CONSTANT ISA = "x86"
SPECIFICATION Spec
INVARIANT CanonWellFormed
INVARIANT OneToOne
INVARIANT ScaleRuleX86
INVARIANT ScaleRuleA64
INVARIANT ExpandRule
INVARIANT RangeIsList
INVARIANT HexDecAgree
INVARIANT NegZero
INVARIANT ImmRule
INVARIANT FloatExamples
INVARIANT AliasRule
INVARIANT AltRule
CONSTRAINT Emit
CHECK_DEADLOCK FALSE
