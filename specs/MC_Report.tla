------------------------------ MODULE MC_Report ------------------------------
(* The report as a small state machine that emits its blocks in the order of
   Frontend.full_analysis (Level B), for every combination of the five flags and three
   kernel shapes (no / some / only instructions without data).  Invariants: the emitted
   sequence is the closed form ExpectedBlocks, satisfies the Level-A block conditions, totals
   and the missing-data warning exclude each other, the warning states the number of
   unknown lines. *)
EXTENDS Report
CONSTANT NLines                      \* instruction lines of the abstract kernel
Shapes == {"known", "some", "all"}
UnkOf(sh) == CASE sh = "known" -> 0 [] sh = "some" -> 1 [] sh = "all" -> NLines

VARIABLES fl, shape, pc, blocks, stated
vars == <<fl, shape, pc, blocks, stated>>

Init ==
  /\ shape \in Shapes
  /\ fl \in [arch : BOOLEAN, big : BOOLEAN, ign : BOOLEAN, to : BOOLEAN, unk : {UnkOf(shape)}]
  /\ pc = "header" /\ blocks = <<>> /\ stated = -1

Go(next) == pc' = next /\ UNCHANGED <<fl, shape>>
Header      == pc = "header"  /\ blocks' = Append(blocks, "Header") /\ Go("archwarn") /\ UNCHANGED stated
ArchWarn    == pc = "archwarn" /\ ~fl.arch /\ blocks' = Append(blocks, "ArchWarn") /\ Go("lenwarn") /\ UNCHANGED stated
NoArchWarn  == pc = "archwarn" /\ fl.arch /\ Go("lenwarn") /\ UNCHANGED <<blocks, stated>>
LenWarn     == pc = "lenwarn" /\ fl.big /\ blocks' = Append(blocks, "LenWarn") /\ Go("table") /\ UNCHANGED stated
NoLenWarn   == pc = "lenwarn" /\ ~fl.big /\ Go("table") /\ UNCHANGED <<blocks, stated>>
Table       == pc = "table" /\ blocks' = Append(blocks, "Table") /\ Go("tail") /\ UNCHANGED stated
MissingWarn == pc = "tail" /\ ~fl.ign /\ fl.unk > 0
               /\ blocks' = Append(blocks, "MissingWarn") /\ stated' = fl.unk /\ Go("lcdwarn")
Totals      == pc = "tail" /\ (fl.ign \/ fl.unk = 0)
               /\ blocks' = Append(blocks, "Totals") /\ Go("lcdwarn") /\ UNCHANGED stated
LcdWarn     == pc = "lcdwarn" /\ fl.to /\ blocks' = Append(blocks, "LcdWarn") /\ Go("lcdlist") /\ UNCHANGED stated
NoLcdWarn   == pc = "lcdwarn" /\ ~fl.to /\ Go("lcdlist") /\ UNCHANGED <<blocks, stated>>
LcdList     == pc = "lcdlist" /\ blocks' = Append(blocks, "LcdList") /\ Go("done") /\ UNCHANGED stated
Next == Header \/ ArchWarn \/ NoArchWarn \/ LenWarn \/ NoLenWarn \/ Table \/ MissingWarn \/ Totals
        \/ LcdWarn \/ NoLcdWarn \/ LcdList
Spec == Init /\ [][Next]_vars

Done == pc = "done"
ClosedForm        == Done => blocks = ExpectedBlocks(fl)
LevelA            == Done => BlockViolations(fl, ToSet(blocks)) = {}
TotalsXorMissing  == Done => (("Totals" \in ToSet(blocks)) # ("MissingWarn" \in ToSet(blocks)))
NoTotalsUnlessIgnored == (Done /\ fl.unk > 0 /\ ~fl.ign) => "Totals" \notin ToSet(blocks)
WarningStatesNumber   == (Done /\ "MissingWarn" \in ToSet(blocks)) => stated = fl.unk
EachBlockOnce     == \A i, j \in DOMAIN blocks : blocks[i] = blocks[j] => i = j

Emit == Done => CSVWrite("%1$s", << ToJson([arch |-> fl.arch, big |-> fl.big, ign |-> fl.ign, to |-> fl.to,
                                             shape |-> shape, unk |-> fl.unk, blocks |-> blocks]) >>, IOEnv.OUTFILE)
=============================================================================
