CONSTANT InPlaceMutation = TRUE
CONSTANT DeadlineOnProcessClock = TRUE
CONSTANT AgeLimit = 2
CONSTANT MaxAge = 3
CONSTANT ModelReused = FALSE
CONSTANT TreeKinds = 16
CONSTANT MaxLen = 2
SPECIFICATION Spec
INVARIANT TypeOK
INVARIANT ReportIsFunctionOfRequest
CHECK_DEADLOCK FALSE
