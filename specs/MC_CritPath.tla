----------------------------- MODULE MC_CritPath -----------------------------
(* Level B for C04: longest-path relaxation in line order (the dependency graph is a DAG
   ordered by construction), with load stages as virtual predecessors and the execution
   latency of the last instruction added at the end; then the marked chain is picked by
   walking predecessors back.  Run on EVERY graph with N instructions, latencies from Lats
   (zero included), optional load stages, edge weight = producer latency without its load
   stage.  Terminal states must agree with the declarative longest chain of Deps.tla, which is
   itself cross-checked against a brute-force enumeration of all chains.                   *)
EXTENDS Deps, SequencesExt, Json, CSV, IOUtils
CONSTANTS N, Lats, LoadLat

AllPairs == { p \in (1..N) \X (1..N) : p[1] < p[2] }
VARIABLES E, lat, lds,        \* the graph (chosen in Init, then fixed)
          k,                  \* next instruction to relax
          arr,                \* arr[i]: longest chain length arriving at i (before it executes)
          pred,               \* predecessor on that chain: 0 none, -1 own load stage, else instruction
          best, marked, phase
vars == <<E, lat, lds, k, arr, pred, best, marked, phase>>

LatWo == lat
Lat   == [i \in 1..N |-> lat[i] + (IF lds[i] THEN LoadLat ELSE 0)]
G == [n |-> N, E |-> E, w |-> [e \in E |-> LatWo[e[1]]], lat |-> Lat, latwo |-> LatWo, lds |-> lds]
Exec(i) == LatWo[i]           \* the implementation's reading: the load stage is a node of its own
Finish(i) == arr[i] + Exec(i)

Init == /\ E \in SUBSET AllPairs /\ lat \in [1..N -> Lats] /\ lds \in [1..N -> BOOLEAN]
        /\ k = 1 /\ arr = [i \in 1..N |-> 0] /\ pred = [i \in 1..N |-> 0]
        /\ best = 0 /\ marked = <<>> /\ phase = "relax"

Relax == /\ phase = "relax" /\ k <= N
         /\ LET cands == { <<arr[p[1]] + G.w[p], p[1]>> : p \in { q \in E : q[2] = k } }
                         \cup (IF lds[k] THEN {<<LoadLat, -1>>} ELSE {})
                top == IF cands = {} THEN <<0, 0>>
                       ELSE CHOOSE c \in cands : \A d \in cands : d[1] <= c[1]
            IN arr' = [arr EXCEPT ![k] = top[1]] /\ pred' = [pred EXCEPT ![k] = top[2]]
         /\ k' = k + 1
         /\ UNCHANGED <<E, lat, lds, best, marked, phase>>
Pick == /\ phase = "relax" /\ k > N
        /\ LET last == CHOOSE i \in 1..N : \A j \in 1..N : Finish(j) <= Finish(i) IN
             /\ best' = Finish(last) /\ marked' = <<last>>
        /\ phase' = "walk" /\ UNCHANGED <<E, lat, lds, k, arr, pred>>
Walk == /\ phase = "walk" /\ pred[marked[1]] > 0
        /\ marked' = <<pred[marked[1]]>> \o marked
        /\ UNCHANGED <<E, lat, lds, k, arr, pred, best, phase>>
Stop == /\ phase = "walk" /\ pred[marked[1]] <= 0
        /\ phase' = "done" /\ UNCHANGED <<E, lat, lds, k, arr, pred, best, marked>>
Next == Relax \/ Pick \/ Walk \/ Stop
Spec == Init /\ [][Next]_vars

Done == phase = "done"
\* ---- brute force: every non-empty increasing chain, with and without its load stage
ChainLoVal(c) ==
  LET first == c[1] last == c[Len(c)] es == EdgeSum(G, c) IN
  IF lds[first]
  THEN (IF Len(c) = 1 THEN Lat[first] ELSE LoadLat + es + ExecLo(G, last))
  ELSE es + ExecLo(G, last)
BruteLo == Max({ ChainLoVal(Asc(S)) : S \in { T \in SUBSET (1..N) : T # {} /\ IsChain(G, Asc(T)) } })
\* ---- Level B => Level A
DeclarativeAgreesWithBruteForce == CPLo(G) = BruteLo
ValueIsLongestChain == Done => best \in CPAllowed(G) /\ best = CPLo(G)
MarkedIsChain       == Done => IsChain(G, marked) /\ best \in ChainLenVals(G, marked)
AtLeastEveryInstruction == Done => \A i \in 1..N : best >= Lat[i]
AtLeastEveryChain   == Done => \A S \in SUBSET (1..N) :
                          (S # {} /\ IsChain(G, Asc(S))) => best >= ChainLoVal(Asc(S))

\* ---- R2: emit every graph once with the specification's answer
Emit == Done => CSVWrite("%1$s", <<ToJson([n |-> N, E |-> SetToSeq(E), lat |-> lat, lds |-> lds,
                                           best |-> best, marked |-> marked])>>, IOEnv.OUTFILE)
=============================================================================
