------------------------------- MODULE Report -------------------------------
(***************************************************************************)
(* Agreement of OSACA's text report with its machine-readable output       *)
(* (property C13).  Pure definitions shared by MC_Report, MC_ReportCells   *)
(* and Trace_Report.                                                       *)
(*                                                                         *)
(* Numbers: values of the machine-readable output are integers in units of *)
(* 1/12000 cycle.  A cell of the text report is [d |-> digits after the    *)
(* point, n |-> the shown number times 10^d]; d = 9 marks a cell printed   *)
(* with full precision, whose n is already in units; d = -1 is a blank     *)
(* cell.                                                                   *)
(***************************************************************************)
EXTENDS Naturals, Integers, Sequences, FiniteSets, TLC, Json, CSV, IOUtils, Functions

U == 12000
Abs(x) == IF x < 0 THEN -x ELSE x
Pow10(d) == CASE d = 0 -> 1 [] d = 1 -> 10 [] d = 2 -> 100 [] d = 3 -> 1000 [] d = 4 -> 10000
ToSet(s) == { s[i] : i \in DOMAIN s }
Max(S) == CHOOSE x \in S : \A y \in S : y <= x
\* sum of a function's values (fold evaluated iteratively by TLC: kernels have hundreds of lines)
SumTo(f, n) == FoldFunction(LAMBDA a, b : a + b, 0, f)

Blank(c) == c.d = -1
Exact(c) == c.d = 9
\* the shown number is the value rounded to the shown digits; at an exact half either
\* neighbour is accepted (the float the code formats may sit on either side)
RoundOK(c, v) == IF Exact(c) THEN c.n = v ELSE 2 * Abs(c.n * U - v * Pow10(c.d)) <= U
\* all integers n with RoundOK([d, n], v)
RoundSet(d, v) == LET q == (v * Pow10(d)) \div U IN { n \in (q - 1)..(q + 1) : RoundOK([d |-> d, n |-> n], v) }
IsTie(d, v) == (2 * v * Pow10(d)) % U = 0 /\ ((2 * v * Pow10(d)) \div U) % 2 = 1
\* a cell must be shown for a non-zero value; a shown cell must be the rounded value
CellOK(c, v) == IF Blank(c) THEN v = 0 ELSE RoundOK(c, v)

(***************************************************************************)
(* Blocks of the report as a function of the run's flags                   *)
(*   arch  --arch was given          big  unmarked file of > 100 parsed    *)
(*   unk   number of instruction lines without performance data   lines    *)
(*   ign   --ignore-unknown          to   the LCD search timed out         *)
(***************************************************************************)
BlockNames == {"Header", "ArchWarn", "LenWarn", "Table", "MissingWarn", "Totals", "LcdWarn", "LcdList"}
Opt(cond, name) == IF cond THEN <<name>> ELSE <<>>
NoTotals(fl) == fl.unk > 0 /\ ~fl.ign
\* Level B: the order in which the code emits them
ExpectedBlocks(fl) ==
  <<"Header">> \o Opt(~fl.arch, "ArchWarn") \o Opt(fl.big, "LenWarn") \o <<"Table">>
  \o (IF NoTotals(fl) THEN <<"MissingWarn">> ELSE <<"Totals">>) \o Opt(fl.to, "LcdWarn") \o <<"LcdList">>
\* Level A: which blocks the statement demands / forbids (the LCD time-out warning is not
\* part of the statement of C13; it only has to agree between the two outputs)
BlockViolations(fl, bs) ==
     (IF "Header" \in bs /\ "Table" \in bs /\ "LcdList" \in bs THEN {} ELSE {"blocks:mandatory"})
  \cup (IF ("ArchWarn" \in bs) <=> ~fl.arch THEN {} ELSE {"blocks:ArchWarn"})
  \cup (IF ("LenWarn" \in bs) <=> fl.big THEN {} ELSE {"blocks:LenWarn"})
  \cup (IF ("MissingWarn" \in bs) <=> NoTotals(fl) THEN {} ELSE {"blocks:MissingWarn"})
  \cup (IF ("Totals" \in bs) <=> ~NoTotals(fl) THEN {} ELSE {"blocks:Totals"})

X86Archs == {"SNB", "IVB", "HSW", "BDW", "SKX", "CSX", "ICL", "ICX", "SPR", "ZEN1", "ZEN2", "ZEN3", "ZEN4"}
A64Archs == {"TX2", "N1", "A64FX", "TSV110", "A72", "M1", "V2"}
ArchISA(a) == IF a \in X86Archs THEN "x86" ELSE IF a \in A64Archs THEN "aarch64" ELSE "unknown"
=============================================================================
