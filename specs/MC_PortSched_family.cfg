CONSTANT NP = 3
CONSTANT Passes = 2
CONSTANT CapsReset = TRUE
CONSTANT Forms <- FamilyForms
CONSTANT Kernels <- FamilyKernels
SPECIFICATION Spec
INVARIANT FeasibleAll
INVARIANT TotalsAreColumnSums
INVARIANT OptNotWorse
INVARIANT NotBelowHall
INVARIANT Within15
CONSTRAINT Emit
CHECK_DEADLOCK FALSE
