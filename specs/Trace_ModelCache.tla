--------------------------- MODULE Trace_ModelCache ---------------------------
(* Batch validation of recorded cache histories (R2 replays of TLC paths and R3 seeded
   histories).  A case is [id, events]; an event is
     [a, p, x, nx, res, ck, hk]
   a  : what was done  - process step ("start", "reload", a step name, "free", "crash", "exit"),
        environment ("edit" x=content, "toggle", "foreign" x=content, "oldversion" x=1 comp/2 home,
        "legacy" p=cells x=1 comp/2 home) or a whole run ("load", "rload" one of several racing
        cold starts, "crashload" x=cells written before the process was killed)
   nx : what the implementation did next - name of the next step reached, "done", "failed",
        "crashed", "exited", "" (nothing to observe)
   res: content ids whose cache-less reference equals the result of the finished run
   ck, hk : observed kind of the companion / home cache file of the current content ("" = not observed)
   Level A is tracked from the events alone (current content y, contents lv[p] the file had while
   p ran) and gives REJECT lines; the Level-B machine (ModelCache.Step with the CONSTANT switches
   describing today's code) runs alongside, explains failures by the named deviation and yields
   DIVERGE lines when the implementation no longer follows it. *)
EXTENDS ModelCache

Cases == ndJsonDeserialize(IOEnv.CASES)
VARIABLE tid

StepNames == {"hash", "probeC", "readC", "probeH", "readH", "parse", "rehash", "access", "open",
              "write", "rename"}
RunKinds  == {"load", "rload", "crashload"}
ToSet(s)  == { s[i] : i \in DOMAIN s }
WCode(x)  == IF x = 1 THEN "comp" ELSE "home"

Acc0 == [S |-> InitState, y |-> 1, lv |-> [p \in Procs |-> {}],
         a |-> "ok", why |-> "", at |-> 0, b |-> "ok", bat |-> 0]

ModelAfter(S, e) ==
  CASE e.a \in {"start", "reload"} -> Start(S, e.p)
    [] e.a \in StepNames   -> Step(S, e.p)
    [] e.a = "free"        -> RunOn(S, e.p)
    [] e.a = "crash"       -> Crash(S, e.p)
    [] e.a = "exit"        -> Exit(S, e.p)
    [] e.a = "edit"        -> Edit(S, e.x)
    [] e.a = "toggle"      -> Toggle(S)
    [] e.a = "foreign"     -> Foreign(S, e.x)
    [] e.a = "oldversion"  -> OldVersion(S, WCode(e.x))
    [] e.a = "legacy"      -> Legacy(S, WCode(e.x), e.p)
    [] e.a \in {"load", "rload"} -> Load(S, e.p)
    [] e.a = "crashload"   -> CrashLoad(S, e.p, e.x)
    [] OTHER               -> S

PcName(S, p) == S.pc[p]
IsProcEvent(e) == e.a \in {"start", "reload", "free"} \cup StepNames \cup RunKinds

\* ---- Level A on one event -------------------------------------------------------------
LiveBefore(acc, e) ==
  IF e.a \in {"start", "reload"} \cup RunKinds THEN [acc.lv EXCEPT ![e.p] = {acc.y}]
  ELSE IF e.a = "edit" THEN [p \in Procs |-> IF acc.lv[p] # {} THEN acc.lv[p] \cup {e.x} ELSE {}]
  ELSE acc.lv
AClause(lv, e) ==
  IF ~IsProcEvent(e) THEN "ok"
  ELSE IF e.nx = "failed" THEN "run-failed"
  ELSE IF e.nx = "done" /\ ToSet(e.res) \cap lv[e.p] = {} THEN "wrong-content"
  ELSE "ok"
Why(T, e, cl) ==
  IF cl = "run-failed"
    THEN IF Failed(T, e.p) THEN WhyFailed(T, e.p)
         \* racing cold starts run unscheduled: some interleaving of an in-place writer and an
         \* intolerant reader fails (MC_ModelCache_today_fail), the sequential model run does not
         ELSE IF e.a = "rload" /\ ~AtomicWrite /\ ~TolerantRead THEN "UnreadableCacheRaises:racing-cold-start"
         ELSE "unexplained"
  ELSE IF cl = "wrong-content"
    THEN IF T.pc[e.p] = "done" /\ T.res[e.p].c \in ToSet(e.res)
           THEN IF T.res[e.p].v # Version THEN "OldVersionServed" ELSE "RehashAtWrite:stale-entry-served"
           ELSE "unexplained"
  ELSE ""
LiveAfter(lv, e) ==
  IF IsProcEvent(e) /\ e.nx \in {"done", "failed", "crashed", "exited"} THEN [lv EXCEPT ![e.p] = {}]
  ELSE IF e.a \in {"crash", "exit"} THEN [lv EXCEPT ![e.p] = {}]
  ELSE lv

\* ---- Level B on one event --------------------------------------------------------------
BClause(S, T, e) ==
  IF e.a \in StepNames /\ S.pc[e.p] # e.a THEN "step-order:" \o S.pc[e.p] \o "-vs-" \o e.a
  ELSE IF IsProcEvent(e) /\ e.a \notin {"crashload", "rload"} /\ e.nx # "" /\ e.nx # PcName(T, e.p)
    THEN "next:" \o PcName(T, e.p) \o "-vs-" \o e.nx
  ELSE IF e.ck # "" /\ e.ck # Kind(T.comp[T.yaml]) THEN "companion:" \o Kind(T.comp[T.yaml]) \o "-vs-" \o e.ck
  ELSE IF e.hk # "" /\ e.hk # Kind(T.home[T.yaml]) THEN "home:" \o Kind(T.home[T.yaml]) \o "-vs-" \o e.hk
  ELSE "ok"

Apply(acc, e, i) ==
  LET T   == ModelAfter(acc.S, e)
      lv1 == LiveBefore(acc, e)
      cl  == AClause(lv1, e)
      bc  == BClause(acc.S, T, e)
      T2  == IF e.a \in RunKinds /\ ~Running(T, e.p) THEN Exit(T, e.p) ELSE T
  IN [ S   |-> T2,
       y   |-> IF e.a = "edit" THEN e.x ELSE acc.y,
       lv  |-> LiveAfter(lv1, e),
       a   |-> IF acc.a = "ok" THEN cl ELSE acc.a,
       why |-> IF acc.a = "ok" /\ cl # "ok" THEN Why(T, e, cl) ELSE acc.why,
       at  |-> IF acc.a = "ok" /\ cl # "ok" THEN i ELSE acc.at,
       b   |-> IF acc.b = "ok" THEN bc ELSE acc.b,
       bat |-> IF acc.b = "ok" /\ bc # "ok" THEN i ELSE acc.bat ]

RECURSIVE Fold(_, _, _)
\* the IF forces TLC to evaluate the accumulator before recursing (operator arguments are lazy:
\* without it a history of ~35 events overflows the Java stack)
Fold(acc, ev, i) == IF i > Len(ev) THEN acc
                    ELSE LET nxt == Apply(acc, ev[i], i)
                         IN IF nxt.at >= 0 /\ nxt.S.starts >= 0 THEN Fold(nxt, ev, i + 1) ELSE acc

Verdict(c) == Fold(Acc0, c.events, 1)

Check == LET c == Cases[tid]
             v == Verdict(c)
             d == IF v.b = "ok" THEN TRUE ELSE PrintT(<<"DIVERGE", c.id, v.b, v.bat>>)
         IN IF v.a = "ok" THEN d ELSE d /\ PrintT(<<"REJECT", c.id, v.a, v.why, v.at>>)
TraceInit == tid = 1
TraceNext == tid < Len(Cases) /\ tid' = tid + 1
TraceSpec == TraceInit /\ [][TraceNext]_tid
AllConsumed == TLCGet("stats").diameter = Len(Cases)
=============================================================================
