CONSTANT ISA = "x86"
CONSTANT MODE = "lists"
CONSTANT MAXLEN = 2
SPECIFICATION Spec
INVARIANT TypeOK
INVARIANT FoundIffSomeMatch
INVARIANT FirstMatchWins
INVARIANT NeverWrongKind
INVARIANT ResultAllowed
CONSTRAINT Emit
CONSTRAINT EmitHeader
CHECK_DEADLOCK FALSE
