-------------------------------- MODULE Deps --------------------------------
(***************************************************************************)
(* Declarative (Level A) definitions for the dependency analyses of OSACA: *)
(*   C03  register dependency graph  = read-after-write relation with kill *)
(*   C06  store -> load dependencies through provably equal addresses      *)
(*   C04  critical path              = longest latency-weighted chain      *)
(*   C05  loop-carried dependencies  = cycles with exactly one wrap edge   *)
(*   C14  rotation invariance of the loop-carried dependencies             *)
(*                                                                         *)
(* An abstract kernel k is a record of sequences indexed by instruction    *)
(* position 1..k.n (JSON arrays, so "sets" arrive as sequences):           *)
(*   R, W, WB   register families read / written as a result / written by  *)
(*              base write-back (pre/post-index)                            *)
(*   FR, FW     condition flags read / written (only if k.flagDeps)        *)
(*   lat, latwo latency and latency without the separately modelled load   *)
(*   lds        TRUE iff the instruction has a separately modelled load    *)
(*              stage (a load node in front of it)                          *)
(*   ST, LD     memory references stored to / loaded from:                 *)
(*              [b, x : family or "", s : scale, d : displacement used for *)
(*               the address, t : text identifying the written operand]    *)
(*   CH         constant register changes [r, kind: "add"|"copy", src, v]  *)
(*   pidx, fwd  the model's write-back and store-forwarding latencies      *)
(* All cycle quantities are integers in units of 1/12000 cycle.            *)
(***************************************************************************)
EXTENDS Naturals, Integers, Sequences, FiniteSets, TLC

ToSet(s) == { s[i] : i \in DOMAIN s }
Max(S) == CHOOSE x \in S : \A y \in S : y <= x
Min(S) == CHOOSE x \in S : \A y \in S : x <= y

\* ------------------------------------------------------------------ accessors
Rd(k, i)    == ToSet(k.R[i]) \cup (IF k.flagDeps THEN ToSet(k.FR[i]) ELSE {})
WrRes(k, i) == ToSet(k.W[i]) \cup (IF k.flagDeps THEN ToSet(k.FW[i]) ELSE {})
WrWB(k, i)  == ToSet(k.WB[i])
Wr(k, i)    == WrRes(k, i) \cup WrWB(k, i)

\* two concatenated iterations of the loop body
Dbl(k) == [k EXCEPT !.n = 2 * k.n,
                    !.R = k.R \o k.R, !.W = k.W \o k.W, !.WB = k.WB \o k.WB,
                    !.FR = k.FR \o k.FR, !.FW = k.FW \o k.FW,
                    !.lat = k.lat \o k.lat, !.latwo = k.latwo \o k.latwo, !.lds = k.lds \o k.lds,
                    !.ST = k.ST \o k.ST, !.LD = k.LD \o k.LD, !.CH = k.CH \o k.CH]

\* ------------------------------------------------------------------ C03: read after write
Live(k, l, i, j) == \A m \in (i + 1)..(j - 1) : l \notin Wr(k, m)
Via(k, i, j, S)  == \E l \in S : l \in Rd(k, j) /\ Live(k, l, i, j)
ViaRes(k, i, j)  == Via(k, i, j, WrRes(k, i))
ViaWB(k, i, j)   == Via(k, i, j, WrWB(k, i))
RegLink(k, i, j) == i < j /\ (ViaRes(k, i, j) \/ ViaWB(k, i, j))

\* ------------------------------------------------------------------ C06: symbolic addresses
MemRegs(k) == UNION { {m.b, m.x} : m \in UNION { ToSet(k.ST[i]) \cup ToSet(k.LD[i]) : i \in 1..k.n } }
                 \cup UNION { {c.r, c.src} : c \in UNION { ToSet(k.CH[i]) : i \in 1..k.n } }
Unknown == [u |-> TRUE, o |-> "", d |-> 0]
Sym0(k) == [r \in MemRegs(k) |-> [u |-> FALSE, o |-> r, d |-> 0]]
\* effect of instruction m on the symbolic register state (simultaneous assignment)
StepSym(k, sig, m) ==
  [r \in MemRegs(k) |->
     IF \E c \in ToSet(k.CH[m]) : c.r = r
     THEN LET c == CHOOSE c \in ToSet(k.CH[m]) : c.r = r
              s == IF c.kind = "copy" THEN sig[c.src] ELSE sig[r]
          IN IF s.u THEN Unknown ELSE [u |-> FALSE, o |-> s.o, d |-> s.d + c.v]
     ELSE IF r \in ToSet(k.W[m]) \cup ToSet(k.WB[m]) THEN Unknown
     ELSE sig[r]]
\* register state after executing instructions i..m, relative to the values before i
RECURSIVE Sym(_, _, _)
Sym(k, i, m) == IF m < i THEN Sym0(k) ELSE StepSym(k, Sym(k, i, m - 1), m)

\* relation between the address stored to by s (at i) and loaded from by l (at j): "same", "diff", "unknown"
Comp(sig, sreg, lreg) ==      \* <<status, delta>> for one address register
  IF sreg = "" /\ lreg = "" THEN <<"same", 0>>
  ELSE IF sreg = "" \/ lreg = "" THEN <<"diff", 0>>
  ELSE IF sig[lreg].u THEN <<"unknown", 0>>
  ELSE IF sig[lreg].o # sreg THEN <<"diff", 0>>
  ELSE <<"same", sig[lreg].d>>
AddrRel(k, i, s, j, l) ==
  LET sig == Sym(k, i, j - 1)
      cb == Comp(sig, s.b, l.b)
      cx == Comp(sig, s.x, l.x)
      scaleDiff == s.x # "" /\ l.x # "" /\ s.s # l.s
  IN IF cb[1] = "diff" \/ cx[1] = "diff" \/ scaleDiff THEN "diff"
     ELSE IF cb[1] = "unknown" \/ cx[1] = "unknown" THEN "unknown"
     ELSE IF l.d + cb[2] + cx[2] * l.s - s.d = 0 THEN "same" ELSE "diff"
\* a later store to the same (written) operand ends the search
StoreEnds(k, i, s, j) == \E m \in (i + 1)..(j - 1) : \E s2 \in ToSet(k.ST[m]) : s2.t = s.t
MemMust(k, i, j) == i < j /\ \E s \in ToSet(k.ST[i]) : \E l \in ToSet(k.LD[j]) :
                       AddrRel(k, i, s, j, l) = "same" /\ ~StoreEnds(k, i, s, j)
MemMay(k, i, j)  == i < j /\ \E s \in ToSet(k.ST[i]) : \E l \in ToSet(k.LD[j]) :
                       AddrRel(k, i, s, j, l) \in {"same", "unknown"} /\ ~StoreEnds(k, i, s, j)

\* ------------------------------------------------------------------ the graph
Pairs(k)     == { p \in (1..k.n) \X (1..k.n) : p[1] < p[2] }
MustEdges(k) == { p \in Pairs(k) : RegLink(k, p[1], p[2]) \/ MemMust(k, p[1], p[2]) }
MayEdges(k)  == { p \in Pairs(k) : RegLink(k, p[1], p[2]) \/ MemMay(k, p[1], p[2]) }
\* weights the statement allows on edge i -> j (either reading where two links exist)
WeightAllowed(k, i, j) ==
     (IF ViaRes(k, i, j) THEN {k.latwo[i]} ELSE {})
\cup (IF ViaWB(k, i, j)  THEN {k.pidx} ELSE {})
\cup (IF MemMay(k, i, j) THEN {k.lat[i] + k.fwd, k.latwo[i] + k.fwd} ELSE {})
LoadStageWeight(k, i) == k.lat[i] - k.latwo[i]

\* ------------------------------------------------------------------ C04: longest chain
(* A graph g is [n, E : set of <<i, j>>, w : [E -> Int], lat, latwo, lds].  Chains run
   through instruction nodes in increasing order; a chain may start with the load stage
   of its first instruction.  Length = leading load stage (once) + edge weights +
   execution latency of the last instruction.  Where the statement is open -- a last
   instruction with a separately modelled load stage that the chain did not enter
   through -- both lat and latwo are admitted.                                        *)
Succ(g, i) == { j \in 1..g.n : <<i, j>> \in g.E }
ExecVals(g, j) == IF g.lds[j] THEN {g.lat[j], g.latwo[j]} ELSE {g.lat[j]}
\* f[i] = set of possible lengths of chains with >= 2 instructions that start at i (without its
\* load stage); built from the last instruction backwards (edges only go forward)
RECURSIVE BuildExt(_, _, _)
BuildExt(g, i, f) ==
  IF i = 0 THEN f
  ELSE BuildExt(g, i - 1,
         (i :> UNION { { g.w[<<i, j>>] + v : v \in ExecVals(g, j) \cup f[j] } : j \in Succ(g, i) }) @@ f)
ExtValsF(g) == BuildExt(g, g.n, <<>>)
ChainVals(g, f, i) ==      \* all chains starting at instruction i, with or without its load stage
     ExecVals(g, i) \cup f[i]
\cup (IF g.lds[i] THEN {g.lat[i]} \cup { (g.lat[i] - g.latwo[i]) + v : v \in f[i] } ELSE {})
AllChainVals(g) == LET f == ExtValsF(g) IN UNION { ChainVals(g, f, i) : i \in 1..g.n }
\* the smallest admissible reading: exec(last) = latwo when it has its own load stage
ExecLo(g, j) == IF g.lds[j] THEN g.latwo[j] ELSE g.lat[j]
RECURSIVE BuildLo(_, _, _)
BuildLo(g, i, f) ==
  IF i = 0 THEN f
  ELSE BuildLo(g, i - 1,
         (i :> LET S == { g.w[<<i, j>>] + Max({ExecLo(g, j), f[j]}) : j \in Succ(g, i) }
               IN IF S = {} THEN -1 ELSE Max(S)) @@ f)
ExtLoF(g) == BuildLo(g, g.n, <<>>)
ChainLo(g, f, i) == Max({ExecLo(g, i), f[i]}
                     \cup (IF g.lds[i] THEN {g.lat[i]} \cup (IF f[i] >= 0 THEN {g.lat[i] - g.latwo[i] + f[i]} ELSE {}) ELSE {}))
CPLo(g) == IF g.n = 0 THEN 0 ELSE LET f == ExtLoF(g) IN Max({ ChainLo(g, f, i) : i \in 1..g.n })
CPAllowed(g) == IF g.n = 0 THEN {0} ELSE LET lo == CPLo(g) IN { v \in AllChainVals(g) : v >= lo }
\* lengths admitted for one particular chain given as an increasing sequence of instructions
IsChain(g, c) == Len(c) >= 1 /\ \A t \in 1..(Len(c) - 1) : <<c[t], c[t + 1]>> \in g.E
EdgeSum(g, c) == LET RECURSIVE S(_)
                     S(t) == IF t >= Len(c) THEN 0 ELSE g.w[<<c[t], c[t + 1]>>] + S(t + 1)
                 IN S(1)
ChainLenVals(g, c) ==
  LET last == c[Len(c)] first == c[1] es == EdgeSum(g, c)
  IN  { es + v : v \in ExecVals(g, last) }
 \cup (IF g.lds[first] THEN (IF Len(c) = 1 THEN {g.lat[first]}
                             ELSE { (g.lat[first] - g.latwo[first]) + es + v : v \in ExecVals(g, last) })
       ELSE {})

\* ------------------------------------------------------------------ C05: loop-carried cycles
(* g2 is the graph of two concatenated iterations (2n nodes).  A loop-carried dependency is
   a set of instructions m1 < ... < mk with forward edges inside one iteration and the
   wrap edge mk -> m1 of the next iteration.                                            *)
Asc(S) == LET RECURSIVE A(_)
              A(T) == IF T = {} THEN <<>> ELSE LET m == Min(T) IN <<m>> \o A(T \ {m})
          IN A(S)
IsCycle(g2, n, S) ==
  LET c == Asc(S) IN
     S # {} /\ (\A t \in 1..(Len(c) - 1) : <<c[t], c[t + 1]>> \in g2.E)
            /\ <<c[Len(c)], c[1] + n>> \in g2.E
CycleLat(g2, n, S) ==
  LET c == Asc(S)
      RECURSIVE F(_)
      F(t) == IF t >= Len(c) THEN 0 ELSE g2.w[<<c[t], c[t + 1]>>] + F(t + 1)
  IN F(1) + g2.w[<<c[Len(c)], c[1] + n>>]
CyclesBySubsets(g2, n) == { S \in SUBSET (1..n) : IsCycle(g2, n, S) }
\* the same set, enumerated by extending ascending chains from the smallest member (used for
\* larger kernels, where 2^n subsets are too many)
RECURSIVE ChainsFrom(_, _, _, _, _)
ChainsFrom(g2, n, first, cur, S) ==
     (IF <<cur, first + n>> \in g2.E THEN {S} ELSE {})
\cup UNION { ChainsFrom(g2, n, first, j, S \cup {j}) : j \in { j \in (cur + 1)..n : <<cur, j>> \in g2.E } }
Cycles(g2, n) == UNION { ChainsFrom(g2, n, m, m, {m}) : m \in 1..n }
\* the second iteration repeats the first: edges inside it are the shifted edges of the first
Periodic(g2, n) ==
  \A i, j \in 1..n : i < j =>
      (<<i, j>> \in g2.E <=> <<i + n, j + n>> \in g2.E)
   /\ (<<i, j>> \in g2.E => g2.w[<<i, j>>] = g2.w[<<i + n, j + n>>])

\* ------------------------------------------------------------------ C14: rotation
RotSeq(s, r) == SubSeq(s, r + 1, Len(s)) \o SubSeq(s, 1, r)      \* move the first r elements to the end
Rot(k, r) == [k EXCEPT !.R = RotSeq(k.R, r), !.W = RotSeq(k.W, r), !.WB = RotSeq(k.WB, r),
                       !.FR = RotSeq(k.FR, r), !.FW = RotSeq(k.FW, r), !.lat = RotSeq(k.lat, r),
                       !.latwo = RotSeq(k.latwo, r), !.lds = RotSeq(k.lds, r),
                       !.ST = RotSeq(k.ST, r), !.LD = RotSeq(k.LD, r), !.CH = RotSeq(k.CH, r)]
\* position p of the rotated kernel holds original instruction MapBack(p)
MapBack(n, r, p) == ((p - 1 + r) % n) + 1

\* ------------------------------------------------------------------ graphs from abstract kernels
\* deterministic choice of one admissible weight per edge (smallest) -- used by the MC modules
GraphOf(k) == LET E == MustEdges(k) IN
  [n |-> k.n, E |-> E, w |-> [e \in E |-> Min(WeightAllowed(k, e[1], e[2]))],
   lat |-> k.lat, latwo |-> k.latwo, lds |-> k.lds]
=============================================================================
