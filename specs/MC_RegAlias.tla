----------------------------- MODULE MC_RegAlias -----------------------------
(* Scan machine over the complete register file of one ISA: every ordered pair of
   register names is a state; TLC checks that dependence is an equivalence relation
   with the family sizes the C12 statement lists, and emits the table (R2). *)
EXTENDS RegAlias
\* ---------------------------------------------------------------- scan machine
\* Level B: the table is produced by scanning all ordered pairs (this is what the replay
\* harness does on the implementation); the state is the current pair.
CONSTANT ISA
R == Regs(ISA)   \* constant-level: evaluated once
VARIABLES ra, rb
vars == <<ra, rb>>

Init == ra \in R /\ rb \in R
Next == UNCHANGED vars   \* every ordered pair is an initial state; nothing else happens
Spec == Init /\ [][Next]_vars

Reflexive == Overlap(ra, ra)
Symmetric == Overlap(ra, rb) <=> Overlap(rb, ra)
\* transitivity is checked against every third register in each state
Transitive == \A c \in R : Overlap(ra, rb) /\ Overlap(rb, c) => Overlap(ra, c)
FamiliesSeparate == (ra.fam # rb.fam) => ~Overlap(ra, rb)
NamesOk == \A a, b \in R : a.name = b.name => a = b
\* expected family sizes (C12 statement): 5 names for a/b/c/d, 4 for sp/bp/si/di/r8-15,
\* 3 per vector number, 1 for mm/k; AArch64: 2 per gp number, 7 per vector number, 1 per predicate
FamilySizeOk ==
  LET n == Cardinality({ b \in R : Overlap(ra, b) }) IN
  IF ISA = "x86" THEN n \in {1, 3, 4, 5} ELSE n \in {1, 2, 7}

\* R2: emit the table row of every register (state constraint, evaluated once per state)
Emit == (ra = rb) =>
          CSVWrite("%1$s", <<ToJson([isa |-> ra.isa, name |-> ra.name, fam |-> ra.fam,
                                     deps |-> {b.name : b \in { x \in R : Overlap(ra, x) }}])>>, IOEnv.OUTFILE)
=============================================================================
