--------------------------- MODULE Trace_RegAlias ---------------------------
(* Batch validation of observations recorded from the implementation:
   one case per (register, case mode): the set of register names the code reports
   as dependent.  TLC recomputes the set from RegAlias and names the failing clause. *)
EXTENDS RegAlias
Cases == ndJsonDeserialize(IOEnv.CASES)
VARIABLE tid
RegOf(c) == CHOOSE r \in Regs(c.isa) : r.name = c.name
ToSet(s) == { s[i] : i \in DOMAIN s }
Clause(c) ==
  LET exp == { b.name : b \in Dependents(RegOf(c)) }
      obs == ToSet(c.deps)
      all == { b.name : b \in Regs(c.isa) }
  IN IF ~(\E r \in Regs(c.isa) : r.name = c.name) THEN "unknown-register"
     ELSE IF c.name \notin obs THEN "not-reflexive"
     ELSE IF \E n \in exp : n \notin obs THEN "missing-dependence"
     ELSE IF \E n \in obs : n \notin exp THEN "spurious-dependence"
     ELSE IF c.asked # Cardinality(all) THEN "incomplete-scan"
     ELSE "ok"
Check == LET c == Cases[tid] cl == Clause(c) IN
         IF cl = "ok" THEN TRUE ELSE PrintT(<<"REJECT", c.id, cl>>)
TraceInit == tid = 1
TraceNext == tid < Len(Cases) /\ tid' = tid + 1
TraceSpec == TraceInit /\ [][TraceNext]_tid
AllConsumed == TLCGet("stats").diameter = Len(Cases)
=============================================================================
