--------------------------- MODULE Trace_AsmSyntax ---------------------------
(* Batch validation of parse_line / parse_file observations of instruction lines (C09 / C10,
   operand level).  One case per rendered instruction line:
     isa, mnem, ops  = the written instruction (AST of AsmSyntax),
     obs             = [err, mnem, ops] projected from what the real parser returned.
   TLC computes the denotation with AsmSyntax's own Canon and names the first failing clause:
   <<"REJECT", id, clause, operand position (flat), expected operand (JSON), observed operand (JSON)>>. *)
EXTENDS AsmSyntax
Cases == ndJsonDeserialize(IOEnv.CASES)
VARIABLE tid

RECURSIVE FirstDiff(_, _, _)
FirstDiff(a, b, i) == IF i > Len(a) \/ i > Len(b) THEN 0 ELSE IF a[i] # b[i] THEN i ELSE FirstDiff(a, b, i + 1)

Verdict(c) ==
  LET exp == CanonOps(c.isa, c.ops)
      obs == c.obs.ops IN
  IF c.obs.err # "" THEN <<"exception", 0, "", "">>
  ELSE IF c.obs.kinds # <<"instr">> THEN <<"not-an-instruction", 0, "", "">>
  ELSE IF c.obs.mnem # c.mnem THEN <<"mnemonic", 0, "", "">>
  ELSE IF obs \in AllowedOps(c.isa, c.ops) THEN <<"ok", 0, "", "">>
  ELSE IF Len(obs) # Len(exp) THEN <<"operand-count", Len(obs), "", "">>
  ELSE LET i == FirstDiff(exp, obs, 1) IN
       IF exp[i].k # obs[i].k THEN <<"operand-kind", i, ToJson(exp[i]), ToJson(obs[i])>>
       ELSE <<"operand-value", i, ToJson(exp[i]), ToJson(obs[i])>>
Check == LET c == Cases[tid] v == Verdict(c) IN
         IF v[1] = "ok" THEN TRUE ELSE PrintT(<<"REJECT", c.id, v[1], v[2], v[3], v[4]>>)
TraceInit == tid = 1
TraceNext == tid < Len(Cases) /\ tid' = tid + 1
TraceSpec == TraceInit /\ [][TraceNext]_tid
AllConsumed == TLCGet("stats").diameter = Len(Cases)
=============================================================================
