----------------------------- MODULE MC_FrontDoor -----------------------------
(* The front door of Osaca.tla on its own: every sequence of front-door events over a small
   alphabet (two ISAs, three architectures, named / not named) is offered to Step; TLC shows
   that whatever Step lets through up to "parsed" has chosen
     - the named architecture, or the default of the detected ISA, or - after exactly one
       failed parse of a guessed architecture - the default of the other ISA,
     - the parser of the ISA the architecture's MODEL FILE declares,
   and that a run with a named architecture never retries.                                *)
EXTENDS Osaca
CONSTANT Given            \* "" or an architecture
IsaOf == [zen1 |-> "x86", spr |-> "x86", v2 |-> "aarch64"]
Defaults == [x86 |-> "spr", aarch64 |-> "v2"]
FD == [on |-> TRUE, given |-> Given, defaults |-> Defaults, isaOf |-> IsaOf, timeout |-> 10]
Alphabet ==    { [ev |-> "detect", isa |-> i] : i \in {"x86", "aarch64"} }
          \cup { [ev |-> "parser", arch |-> a, isa |-> i] : a \in {"zen1", "spr", "v2", "nosuch"}, i \in {"x86", "aarch64"} }
          \cup { [ev |-> "parsefail", isa |-> i] : i \in {"x86", "aarch64"} }
          \cup { [ev |-> "parse", isa |-> i, lines |-> <<1, 2>>] : i \in {"x86", "aarch64"} }
VARIABLES s, hist
vars == <<s, hist>>
Init == s = Init1(FALSE, FALSE, FD) /\ hist = <<>>
Offer(e) == /\ ~IsFailed(s) /\ s.stage # "parsed" /\ Len(hist) < 7
            /\ LET t == Step(s, e) IN ~IsFailed(t) /\ s' = t /\ hist' = Append(hist, e.ev)
Next == \E e \in Alphabet : Offer(e)
Spec == Init /\ [][Next]_vars
ChosenRight ==
  s.stage = "parsed" =>
     /\ s.isa = IsaOf[s.arch]
     /\ Given # "" => (s.arch = Given /\ ~s.retried)
     /\ (Given = "" /\ ~s.retried) => s.arch = Defaults[s.detected]
     /\ (Given = "" /\ s.retried) => s.arch = Defaults[OtherIsa(s.detected)]
AtMostOneRetry == Cardinality({ i \in DOMAIN hist : hist[i] = "parsefail" }) <= 1
\* vacuity: both ways of getting through are reachable (checked as violated "never" properties by the harness? no:
\* stated as reachability witnesses through -coverage of the action; see DESIGN 10.18)
=============================================================================
