---------------------------- MODULE Trace_Lookup ----------------------------
(* Batch validation of lookups recorded from the implementation (C07, R2 + R3).
   One case = one call of the lookup (MachineModel.get_instruction with the suffix fall-backs of
   assign_tp_lt, or assign_tp_lt itself):
     isa, qn (mnemonic as written, one-character strings), qops (written operand kinds),
     entries (candidate model entries in FILE order: n = name, ops = kinds),
     served (position of the entry whose data was applied, 0 = reported unknown).
   The verdict is FindAllowed of Lookup.tla; the clause names what went wrong. *)
EXTENDS Lookup
Cases == ndJsonDeserialize(IOEnv.CASES)
VARIABLE tid

Clause(c) ==
  LET ents == c.entries
      ok  == FindAllowed(c.isa, ents, c.qn, c.qops)
      dev == FindAllowedDev(c.isa, ents, c.qn, c.qops)
  IN IF c.served \notin (0..Len(ents)) THEN "bad-case"
     ELSE IF c.served \in ok THEN "ok"
     ELSE IF c.served \in dev THEN "dev-suffix-case"
     ELSE IF c.served = 0 THEN "must-match-not-found"
     ELSE LET e == ents[c.served]
              own == NameEq(e.n, c.qn)
              drp == CanDrop(c.isa, c.qn) /\ NameEq(e.n, Drop(c.isa, c.qn))
          IN IF ~(own \/ drp) THEN "wrong-mnemonic"
             ELSE IF Len(e.ops) # Len(c.qops) THEN "wrong-count"
             ELSE IF OpsMatch(c.isa, e.ops, c.qops) = "N" THEN "wrong-kind"
             ELSE IF ~own /\ (\E i \in Cand(ents, c.qn) : Must(c.isa, ents, i, c.qops)) THEN "fallback-shadows-own"
             ELSE "earlier-must-match"
\* the first candidate (own name first, then the fall-back name) that had to be applied: 0 = none
Blame(c) ==
  LET ents == c.entries
      m1 == {i \in Cand(ents, c.qn) : Must(c.isa, ents, i, c.qops)}
      m2 == IF CanDrop(c.isa, c.qn)
              THEN {i \in Cand(ents, Drop(c.isa, c.qn)) : Must(c.isa, ents, i, c.qops)} ELSE {}
      Min(S) == CHOOSE x \in S : \A y \in S : x <= y
  IN IF m1 # {} THEN Min(m1) ELSE IF m2 # {} THEN Min(m2) ELSE 0
Check == LET c == Cases[tid] cl == Clause(c) IN
         IF cl = "ok" THEN TRUE ELSE PrintT(<<"REJECT", c.id, cl, Blame(c)>>)
TraceInit == tid = 1
TraceNext == tid < Len(Cases) /\ tid' = tid + 1
TraceSpec == TraceInit /\ [][TraceNext]_tid
AllConsumed == TLCGet("stats").diameter = Len(Cases)
=============================================================================
