#!/bin/sh
# Offline setup: nothing to build (Python harness + TLA+ specs); verify the tools are there.
set -e
cd "$(dirname "$0")"
mkdir -p .work evidence replays
command -v java >/dev/null
test -f /opt/veriftools/tla/tla2tools.jar
/venv/bin/python -c "import networkx, pyparsing, ruamel.yaml"
echo "setup ok"
