#!/bin/bash
# usage: tools/seed_recheck.sh <seeded-dir-name> [check ids... (default: the property of the seed)]
# Re-applies /verif/seeded/<name>/patch.diff to a scratch worktree of the CURRENT /repo HEAD and re-runs the quick
# check(s) with the current harness; appends the result to the directory's eval.log (the last entry per check counts).
NAME=$1; shift
D=/verif/seeded/$NAME
CHECKS="$@"; [ -z "$CHECKS" ] && CHECKS=${NAME:0:3}
WT=/tmp/wt-recheck-$$
git -C /repo worktree add --detach $WT HEAD >/dev/null 2>&1 || exit 3
HEADID=$(git -C /repo log --format=%h -1)
if ! git -C $WT apply $D/patch.diff 2>/dev/null; then
  if ! (cd $WT && git apply -3 $D/patch.diff >/dev/null 2>&1) || grep -rq '^<<<<<<< ' $WT/osaca 2>/dev/null; then
    echo "recheck head=$HEADID: patch no longer applies to the repaired tree (context changed by later fix: commits); earlier evaluation stands" >> $D/eval.log
    git -C /repo worktree remove --force $WT; exit 0
  fi
fi
if [ -f $D/demo.py ]; then
  ( cd $WT && PYTHONPATH=$WT timeout 600 /venv/bin/python $D/demo.py >/dev/null 2>&1 ); echo "recheck head=$HEADID demo_patched_rc=$?" >> $D/eval.log
fi
for c in $CHECKS; do
  VERIF_REPO=$WT /verif/check $c --tier quick > /tmp/seed_recheck_$NAME.$c.out 2>&1; rc=$?
  echo "check=$c rc=$rc violations=$(grep -c '^VIOLATION' /tmp/seed_recheck_$NAME.$c.out) first=$(grep -m1 'signature=' /tmp/seed_recheck_$NAME.$c.out | cut -c1-200)" >> $D/eval.log
done
rm -f $WT/tests/test_files/*.copy.s
git -C /repo worktree remove --force $WT
