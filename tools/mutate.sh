#!/bin/bash
# usage: tools/mutate.sh <worktree> <file> <python-replace-expr old> <new> -- <check ids...>
# applies a single textual mutation in the worktree, runs the given checks against it, reverts.
WT=$1; F=$2; OLD=$3; NEW=$4; shift 5
python3 - "$WT/$F" "$OLD" "$NEW" <<'PY' || exit 3
import sys
p,old,new=sys.argv[1:4]
s=open(p).read()
if s.count(old)!=1:
    print("pattern count", s.count(old)); sys.exit(3)
open(p,'w').write(s.replace(old,new))
PY
for c in "$@"; do
  VERIF_REPO=$WT /verif/check $c --tier quick 2>&1 | grep -E "VIOLATION|signature|quick:|MACHINERY|KNOWN" | head -6
  echo "rc=$? check=$c"
done
git -C $WT checkout -- .
