#!/bin/bash
# usage: tools/seed_eval.sh <outdir> <n> <name> <check ids...>
# Confirms a seeded change (demo passes clean / fails patched / baseline suite passes) in a scratch
# worktree, runs the given checks against it and stores it under /verif/seeded/<name>/.
OUT=$1; N=$2; NAME=$3; shift 3
WT=/tmp/wt-eval-$$
git -C /repo worktree add --detach $WT HEAD >/dev/null 2>&1 || exit 3
res=/tmp/seed_eval_$NAME.log; : > $res
( cd $WT && PYTHONPATH=$WT /venv/bin/python $OUT/demo$N.py >/dev/null 2>&1 ); echo "demo_clean_rc=$?" | tee -a $res
git -C $WT apply $OUT/patch$N.diff || { echo "patch does not apply" | tee -a $res; git -C /repo worktree remove --force $WT; exit 3; }
( cd $WT && PYTHONPATH=$WT /venv/bin/python $OUT/demo$N.py >/dev/null 2>&1 ); echo "demo_patched_rc=$?" | tee -a $res
/venv/bin/python /verif/tools/baseline_check.py $WT 2>&1 | tail -1 | tee -a $res
for c in "$@"; do
  VERIF_REPO=$WT /verif/check $c --tier quick > /tmp/seed_eval_$NAME.$c.out 2>&1; rc=$?
  echo "check=$c rc=$rc violations=$(grep -c '^VIOLATION' /tmp/seed_eval_$NAME.$c.out) first=$(grep -m1 'signature=' /tmp/seed_eval_$NAME.$c.out | cut -c1-200)" | tee -a $res
done
mkdir -p /verif/seeded/$NAME
cp $OUT/patch$N.diff /verif/seeded/$NAME/patch.diff; cp $OUT/demo$N.py /verif/seeded/$NAME/demo.py; cp $OUT/meta$N.json /verif/seeded/$NAME/meta_agent.json
cp $res /verif/seeded/$NAME/eval.log
rm -f $WT/tests/test_files/*.copy.s
git -C /repo worktree remove --force $WT
