#!/usr/bin/env python3
"""Table for DESIGN.md from /verif/benign/<name>/{meta_agent.json,eval.log}: which checks (if any) reported a
property-preserving change.  A `note.txt` in the directory (what was found and corrected) is appended."""
import json, os, re
HERE = os.path.dirname(os.path.dirname(os.path.abspath(__file__)))
root = os.path.join(HERE, "benign")
for name in sorted(os.listdir(root)):
    d = os.path.join(root, name)
    if not os.path.exists(os.path.join(d, "eval.log")):
        continue
    try:
        meta = json.load(open(os.path.join(d, "meta_agent.json")))
    except Exception:
        meta = {}
    log = open(os.path.join(d, "eval.log")).read()
    res = {}
    for m in re.finditer(r"check=(C\d+) rc=(\d+) violations=(\d+)", log):
        res[m.group(1)] = (int(m.group(2)), int(m.group(3)))     # the last entry per check counts (re-runs are appended)
    bad = sorted(c for c, (rc, v) in res.items() if rc != 0 or v)
    note = ""
    if os.path.exists(os.path.join(d, "note.txt")):
        note = " " + open(os.path.join(d, "note.txt")).read().strip().replace("\n", " ")
    print("| `%s` | %s | %d | %s |%s" % (name, (meta.get("summary") or "")[:120].replace("|", "/"), len(res),
                                        ", ".join("%s (exit %d)" % (c, res[c][0]) for c in bad) or "none", note))
