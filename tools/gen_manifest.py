#!/usr/bin/env python3
"""Regenerates /verif/MANIFEST.json from the table below (keeps it schema-valid)."""
import json, os
HERE = os.path.dirname(os.path.dirname(os.path.abspath(__file__)))
PROPS = [json.loads(l)["id"] for l in open(os.path.join(HERE, "properties.jsonl"))]

CHECKS = {
 "C12": dict(
   category="model_checking",
   text="TLC enumerates every ordered pair of register names of both ISAs (MC_RegAlias: equivalence relation, family sizes), "
        "the emitted table is replayed on is_reg_dependend_of for all ordered pairs x 3 case modes x 2 operand constructions, and "
        "the recorded observations are validated by TLC (Trace_RegAlias). The space is finite, so this is exhaustive.",
   design_ref="5/C12", technique="TLA+ table spec + TLC exhaustive enumeration + replay and trace validation on the real parsers",
   note="Trusts RegAlias.tla's name tables (written from the architecture manuals) and the 20-line operand construction in harness/checks/c12.py."),
}

def main():
    checks = []
    for pid in PROPS:
        if pid not in CHECKS:
            continue
        c = CHECKS[pid]
        checks.append({
            "property_id": pid,
            "quick_cmd": "./check %s --tier quick" % pid,
            "thorough_cmd": "./check %s --tier thorough" % pid,
            "evidence_file": "/verif/evidence/%s.json" % pid,
            "replay_cmd_template": "./check %s --replay {path}" % pid,
            "engine": "tlc",
            "level_claimed": {"category": c["category"], "text": c["text"], "design_ref": c["design_ref"]},
            "level_note": c["note"],
            "technique": c["technique"],
        })
    na = [{"property_id": p, "reason": NA.get(p, "check not built yet in this round (specification planned in DESIGN.md section 5); not claimed")}
          for p in PROPS if p not in CHECKS]
    m = {
        "version": 1,
        "setup_cmd": "./setup.sh",
        "hooks": {
            "guard": "OSACA_VERIF_TRACE",
            "enable": "no in-repo hooks: checks import osaca from /repo's working tree in fresh interpreters and observe public API boundaries; module-level collaborators are substituted from outside",
            "baseline_off_cmd": "cd /repo && /venv/bin/python -m pytest -ra -q -p no:cacheprovider --timeout=900 --continue-on-collection-errors",
            "source_commits": [],
            "add_only": True,
        },
        "engines": [
            {"name": "tlc", "path": "/verif/specs", "serves_properties": [c["property_id"] for c in checks],
             "kind_free_text": "explicit TLA+ specifications checked with TLC 1.8 (exhaustive + batch trace validation), bound to the code by replay and recorded traces (harness/)"},
        ],
        "checks": checks,
        "not_applicable": na,
        "notes": "See DESIGN.md. Findings repaired or recorded are in known_findings.json.",
    }
    with open(os.path.join(HERE, "MANIFEST.json"), "w") as f:
        json.dump(m, f, indent=1)
    print("MANIFEST.json: %d checks, %d not_applicable" % (len(checks), len(na)))

NA = {}
if __name__ == "__main__":
    main()
