#!/usr/bin/env python3
"""Regenerates /verif/MANIFEST.json from the table below (keeps it schema-valid)."""
import json, os
HERE = os.path.dirname(os.path.dirname(os.path.abspath(__file__)))
PROPS = [json.loads(l)["id"] for l in open(os.path.join(HERE, "properties.jsonl"))]

CHECKS = {
 "C03": dict(
   category="model_checking",
   text="MC_Deps: TLC runs the forward scan with kill (shaped like find_depending) on every kernel <= 3 instructions over an abstract op alphabet "
        "(roles, hidden flags, zero idiom, default-rule form, write-back load) and checks scanned edges = declarative RAW relation (Deps.tla). "
        "The enumerated kernels are rendered through synthetic ISA databases for both ISAs and analysed by the real KernelDG; random kernels <= 12 lines over random "
        "role tables and a curated real vocabulary on shipped models follow; every observed graph (one and two iterations, weights) is validated by TLC (Trace_Deps).",
   design_ref="5/C03", technique="TLA+ scan state machine vs declarative RAW (TLC exhaustive) + replay of enumerated kernels + TLC trace validation of observed graphs",
   note="Trusts the by-construction abstraction of generated instructions (role tables in harness/deps_common.py, vocab.py; self-checked against the TLA+ op table) and the projection of dg edges."),
 "C04": dict(
   category="model_checking",
   text="MC_CritPath: relaxation in line order + chain pick on every graph with <= 4 instructions, zero latencies, load stages and ties equals the declarative longest chain, itself cross-checked "
        "against brute-force chain enumeration. Every enumerated graph is rendered as a kernel with exactly that dependency graph and analysed by the real code; random kernels, the MC_Deps kernels and all "
        "shipped example/test kernels on shipped models follow; TLC validates value in CPAllowed, marked lines form a chain, cells sum to the total. Since the fifth session the synthetic shape table has a store, so that models declaring hidden_loads flag composed loads as hidden (load stage must survive); whole-run traces carry the front-door events of Osaca.tla.",
   design_ref="5/C04", technique="TLA+ longest-chain spec (TLC exhaustive on small graphs) + replay of all enumerated graphs + TLC trace validation",
   note="Where the statement is open (exec latency of a last instruction with separately modelled load stage) both readings are admitted."),
 "C05": dict(
   category="model_checking",
   text="MC_LoopDeps: path-extension search with de-duplication over two concatenated iterations (shaped like check_for_loopcarried_dep) equals the declarative winding-number-1 cycles on every kernel "
        "<= 3 instructions; the enumerated kernels, random kernels <= 10 lines (also located beyond line 1000) and shipped kernels are analysed by the real code and TLC validates the reported LCD set, "
        "latencies, uniqueness, periodicity of the doubled graph and the summary maximum.",
   design_ref="5/C05", technique="TLA+ cycle spec + path-search state machine (TLC exhaustive) + TLC trace validation of reported LCDs",
   note="LCD column marks of the text report are covered by C13; here get_loopcarried_dependencies() and the summary value are observed."),
 "C06": dict(
   category="model_checking",
   text="MC_MemDeps: every program store;<=2 pointer ops;load over add/sub, copy, clobber, post-index, later stores and displacements {-8,0,8,16}: the register-change bookkeeping (Level B) links exactly "
        "when Deps.tla's symbolic addresses are provably equal; all enumerated programs are rendered for both ISAs (real mnemonics on shipped models, made-up mnemonics on synthetic ISA DBs) and analysed by "
        "KernelDG; random longer programs with index registers, scales, pre/post-indexed accesses on every shipped model; TLC validates MustEdges <= observed <= MayEdges and the forwarding weight. Synthetic models write latencies as integers too and one ISA's model per run forwards in a fractional number of cycles (finding F49).",
   design_ref="5/C06", technique="TLA+ symbolic-address spec + bookkeeping state machine (TLC exhaustive) + replay of all enumerated programs + TLC trace validation",
   note="Unknown (clobbered) addresses admit either outcome; aliasing between different register names is not claimed."),
 "C14": dict(
   category="model_checking",
   text="MC_LoopDeps invariant RotationInvariant (declarative cycles of every rotation, mapped back, equal the original's) on all kernels <= 3 instructions; on the real code generated kernels (2-8 lines, and 50-57 lines through the multi-process search) and every shipped "
        "kernel are analysed at offset 0 and at rotation offsets (all offsets in thorough) and TLC validates that the rotated LCD set mapped back (members, latencies) and the LCD figure equal what it computes "
        "from the unrotated observed graph.",
   design_ref="5/C14", technique="TLA+ rotation theorem checked by TLC + metamorphic runs of the real code validated by TLC",
   note="Rotation is performed on the selected kernel lines (labels/directives move with the lines)."),

 "C17": dict(
   category="model_checking",
   text="TLC exhaustively checks MC_ModelCache (2 processes, 2 contents, 4-cell cache files, crashes at any step, concurrent edits, read-only directory, foreign / old-version / legacy-partial cache files): "
        "the protocol now in the code (atomic write, tolerant read, read once) satisfies RunNeverFails, ResultIsContent, StaleNeverServed, NoPartialVisible; the configurations with the former deviations give the "
        "counterexamples that were reproduced on the code (F10, F24). A transition cover of the sequential-history and two-cold-starter graphs is executed on real loader processes held at every file-system interaction, "
        "and seeded API-level histories over 13 model files are validated by Trace_ModelCache.",
   design_ref="5/C17, 10.3", technique="TLA+ cache protocol spec with named deviations + TLC exhaustive checking + TLC-emitted transition cover replayed on real loader processes + batch trace validation",
   note="Trusts the hook wrappers in harness/cache_common.py (substituted Path/open/os/pickle of hw_model inside the child), sha256 modelled as injective, setpriv for the read-only directory, projection of a report to a content id."),
 "C18": dict(
   category="model_checking",
   text="TLC enumerates all 585 call histories of length <= 3 over 8 analysis request kinds (and all histories <= 2 over 14 kinds incl. --db-check, --import, two --lines selections, two kernels on the multi-process search) and checks that each report is a function of the request and shared state is unchanged (with the deviations model-reuse + in-place mutation it "
        "produces the history <rmw, rmw>). Every history is replayed in one interpreter state (fork tree) through osaca.osaca.run and compared element-wise with fresh-process reports; seeded histories <= 12 are validated by Trace_Session, among them aged processes (step Work: more CPU and wall time than the search limit before the analyses; "
        "negative control MC_Session_procclock).",
   design_ref="5/C18, 10.3", technique="TLA+ session spec + TLC enumeration of all histories + fork-tree replay in one interpreter + batch trace validation",
   note="TLC acts mainly as enumerator/evaluator here (DESIGN section 8); a fork() continuation is taken to be the same interpreter state."),

 "C09": dict(
   category="model_checking",
   text="TLC enumerates the x86 operand-kind lattice (676 written operands: all registers, immediates dec/hex/+- up to 64 bit, all base/index/displacement combinations x scales) checking the Canon rules, and all files <= 4 lines over the "
        "line alphabet against a scan machine shaped like parse_file (OnePerNonBlank, LineNumbers, Verbatim, ExactlyOneKind). Every emitted operand and file is rendered with seeded layouts and parsed by the real parser; seeded random "
        "instructions and files and the repository's .s files follow; every observation is decided by TLC (Trace_AsmSyntax / Trace_ParseFile).",
   design_ref="5/C09, 10.4", technique="TLA+ surface-AST/denotation spec + line-scan state machine; TLC enumeration, render-parse-project replay, batch trace validation",
   note="Trusts harness/asm_render.py (AST -> text), the projection in parsers_common.py, TLC; only lower-case register names are rendered; shifted registers / relocations are outside the statement."),
 "C10": dict(
   category="model_checking",
   text="As C09 for AArch64: 792 written operands including register lists/ranges, SVE and predicate registers, floats, condition codes, shifts 0-4, pre/post index; files <= 4 lines; seeded random instructions (memory/condition/label last) "
        "and files; repository files; all decided by TLC.",
   design_ref="5/C10, 10.4", technique="TLA+ surface-AST/denotation spec + line-scan state machine; TLC enumeration, render-parse-project replay, batch trace validation",
   note="Same trusted base as C09."),
 "C20": dict(
   category="model_checking",
   text="TLC checks a state machine shaped like import_benchmark_output against Snap / Merged / StopsAtMalformed / EveryFormEmitted on a measurement grid around the 5 % windows and on all files <= 3 entries (thorough <= 4, 408k states) over 3 forms; "
        "the grid files and a seeded sample of the emitted files are imported through the real `osaca --import` entry point on zen1/n1(/tx2), the emitted stream is read back as plain YAML and TLC decides every import; seeded random files cover all "
        "documented operand codes of both ISAs, corrupted asmbench structure, mnemonics already present in the target model.",
   design_ref="5/C20, 10.4", technique="TLA+ import state machine + TLC exhaustive on small files + replay through the CLI + batch trace validation",
   note="Both readings of 'within 5 %' are admitted, both outcomes exactly on a window edge; trusts file rendering, the YAML projection, the README operand-code table as transcribed in Decode."),

 "C07": dict(
   category="model_checking",
   text="TLC exhaustive on MC_Lookup (entry scan TryEntry/DropSuffix/GiveUp; FoundIffSomeMatch, FirstMatchWins, NeverWrongKind, ResultAllowed against the declarative three-valued Match) over the complete operand-kind x kind table of both ISAs "
        "(4 347 + 93 757 pairs) and all entry lists <= 2 (thorough <= 3: 1.2M + 0.68M states). Every initial state is emitted with its allowed result set and replayed on synthetic YAML models through get_instruction, assign_tp_lt and assign_src_dst "
        "with operands produced by the real parsers; Trace_Lookup batch-validates seeded random models and every entry of every shipped model (thorough: all 14 491, with near-miss mutants) in file order read from the YAML text. The written memory kinds include gather / scatter addresses (vector index register).",
   design_ref="5/C07, 10.5", technique="TLA+ three-valued matching spec + entry-scan state machine; TLC exhaustive kind tables and entry lists, replay on synthetic models, batch trace validation of every shipped entry",
   note="Trusts harness/lookup_common.py (kind <-> YAML / assembly text, projection of loaded entries, file order from the YAML text) and the get_instruction spy; ten open points of the statement are nondeterministic in the spec (Lookup.tla header)."),
 "C08": dict(
   category="model_checking",
   text="TLC exhaustive on the kernel-level machine MC_Compose with the model's load/store tables as state: 32 table variants x kernels <= 2 (thorough: + kernels of 3 on 8 models) x 14 forms per ISA; invariants Inert, TablesUnchanged, UnknownIsZero, "
        "UnknownIffNeither, ComposedDominates; a run with the former deviation InPlaceRowExtension must violate Inert and its counterexample kernel is replayed on the code. Every terminal state is replayed on rendered models through add_semantics; "
        "Trace_Compose follows recorded kernels from random synthetic models and a curated vocabulary on shipped models with the tables as state. Random models also write symbols as displacement, and every distinct line is analysed once more alone on a fresh model object (the composition is a function of instruction and model).",
   design_ref="5/C08, 10.5", technique="TLA+ composition spec with model tables as state + TLC exhaustive + replay on rendered models + batch trace validation",
   note="Open points: untyped store rows (F13), the type of '*'-class register forms, AArch64 rmw through an indexed operand; on AArch64 composition is exercised almost only on synthetic models (real memory instructions have own entries)."),

 "C01": dict(
   category="model_checking",
   text="TLC model-checks PortSched (the greedy balancer as a state machine: Uniform, BeginPass, Move, Retire, EndPass with per-micro-op budgets carried across passes) on all kernels <= 2 over single- and two-micro-op forms on every pair of subsets of 3 ports: "
        "FeasibleAll (Hall condition over unions of micro-op port sets) and TotalsAreColumnSums are invariants; the configuration with the former deviation CapsResetPerPass exhibits the two-pass counterexample. Every emitted kernel is replayed on the code through "
        "a synthetic YAML model (rows match the Level-B terminal rows exactly); snapshots of random synthetic models (2-6 ports, multi-character names incl. names that concatenate two one-character names, alternatives) and shipped models x corpus kernels at five stages (uniform, pass 1, pass 2, API and dict/CLI) are validated by TLC (Trace_Port); whole-run traces (Osaca.tla) check totals = column sums. The random models also compose read-modify-write forms (register form + load x multiplier + store x multiplier).",
   design_ref="5/C01, 10.6", technique="TLA+ Level-A feasibility (Hall) + Level-B balancer state machine, TLC exhaustive with terminal-state emission, replay, batch trace validation",
   note="Trusts harness/port_common.py rendering and projection onto the 1/12000 lattice; Level B does not model PickAlternative (alternatives are covered at Level A only)."),
 "C02": dict(
   category="model_checking",
   text="TLC enumerates the 5 355-kernel family with its Hall optimum and model-checks the balancer on it (OptNotWorse, NotBelowHall, Within15: largest gap 0.12 cy after two passes); all 5 355 kernels are replayed on the code and a sample through the real CLI with a synthetic model in a private HOME, plus long kernels whose reported bottleneck is bounded by cycles/ports and by the uniform split; "
        "TLC decides the clauses on observed totals of random synthetic and shipped models.",
   design_ref="5/C02, 10.6", technique="TLA+ Hall-optimum spec + balancer state machine, TLC exhaustive on the stated family, full replay, batch trace validation",
   note="Trusts the Hall bound as the exact optimum of the fractional restricted-assignment problem (max-flow/min-cut) and the positional parser of the CLI totals row."),
 "C11": dict(
   category="model_checking",
   text="TLC explores the marker scan exhaustively (MC_Select: prologue/body/epilogue over 11 line kinds incl. look-alike movs and complete/incomplete/wrong marker bytes, 5-8 marker styles, both ISAs: 0.39M states quick, 2.7M thorough) and the --lines expansion (MC_SelectLines); "
        "every emitted file is rendered in seeded layouts and replayed on parse_file + reduce_to_section / get_line_range / inspect --lines; shipped and random long files and the four input variants (marked / --lines / only-those-lines / noise-inserted) of every shipped kernel x model "
        "are validated by TLC (Trace_Select); whole-run traces (Osaca.tla) check that the analysed kernel is exactly the selected one. Whole-run traces validate the front door of inspect (Osaca.tla: detect / parser / parsefail events, MC_FrontDoor): parser, markers and model are those of the named architecture, or of the default of the detected ISA, or after one failed parse of the other ISA.",
   design_ref="5/C11, 10.7", technique="TLA+ scan machine + declarative kernel definition, exhaustive TLC, emitted-state replay, batch trace validation",
   note="Trusts the text tables and regex classifier in selrep_common.py, report_parse.py, the recording stand-ins for KernelDG/Frontend; files with a single, repeated or reversed marker are left open."),
 "C13": dict(
   category="model_checking",
   text="TLC explores the report as a block-emitting machine over the flag cube x kernel shapes (MC_Report) and the cell rounding relation on the 1/12000 lattice (MC_ReportCells); all 96 flag combinations are realised by real runs and the emitted value table is injected into really analysed kernels; "
        "real reports (API + CLI/--yaml-out, all models, fixed/optimal, --ignore-unknown, default arch, large kernels, unknown mnemonics, sums >= 10 and >= 100, LCD time-out) are parsed back and validated clause by clause by TLC (Trace_Report); whole-run traces (Osaca.tla) tie the summary to the graph stage. The injection runs give every second kernel latencies of quarter cycles; files at the threshold of the large-kernel warning contain non-instruction lines; the user warnings are clauses of Osaca.tla's front door.",
   design_ref="5/C13, 10.7", technique="TLA+ block machine + cell-rounding relation, exhaustive TLC, replay, batch trace validation of parsed reports",
   note="Trusts harness/report_parse.py (column layout taken from the report's own header) and the projection to (digits, integer) cells; the LCD time-out warning is not in the statement (only text/dict agreement is Level A)."),
 "C15": dict(
   category="model_checking",
   text="TLC checks WellFormed => CostDefined on a 2 735-shape entry lattice (every injected defect detected and named); well-formed shapes are costed by the real code; every shipped entry, table row and default (12 826, exported by an independent plain-YAML load) is validated by TLC "
        "(well-formedness, cost = observed average_port_pressure, loaded entry lists = alias-expanded export, --db-check counts = counts TLC computes); the analysis path is run on every loaded entry in thorough. "
        "Whole-pipeline runs: the own rendering and the memory variants (composition path) of every entry that lacks data and one entry per shape of the others go through the real CLI entry point (default and --fixed) - no exception is an allowed outcome; "
        "--db-check is also run after an import and an analysis in the same process.",
   design_ref="5/C15, 10.6", technique="TLA+ entry well-formedness / cost definitions evaluated by TLC over all exported entries + costing by the real code",
   note="TLC acts as evaluator of a data property (DESIGN section 8); the syntactic entry encoder in port_common.py is trusted; bdw/csx/skx are skipped as the property says."),

 "C16": dict(
   category="model_checking",
   text="TLC explores the coordinator/worker state machine of check_for_loopcarried_dep (LCDSearchSM: StartAll, WStep, Tick, Check, Sleep, Kill, JoinAll, Copy, PostProcess) exhaustively - every interleaving, NW in {1,2,3,5,16,K+1}, poll loop and no timeout; "
        "terminal result = sequential result, partition exact. A transition cover of the dumped state graph plus simulated behaviours for larger K/NW is replayed on the REAL coordinator and worker code under a deterministic virtual-process scheduler (Process/Manager/cpu_count/time/os "
        "substituted from outside) with the state compared after every action. Real fork runs (kernels at and above the 50-line threshold, worker counts {1,2,3,5,16,>K}, seeded delays) and CLI repeats are validated by Trace_LCDSearch against the sequential search. "
        "Partition sweep: MC_Partition proves Slice covers every root exactly once for all K <= 160 (300) and NW <= 72 (130); the real coordinator runs with virtual workers on 170 (2600) (length 50-140, 1-70 workers) pairs over kernels whose one-instruction cycles sit at the slice boundaries, validated by Trace_Partition.",
   design_ref="5/C16, 10.9", technique="TLA+ state machine + TLC exhaustive/simulation + transition-cover replay under virtual processes + trace validation of real multi-process runs",
   note="Trusts the fakes in harness/vproc.py (SIGKILL semantics, atomic list request), the log projection in lcd_common.py and the abstract-kernel renderer; exhaustive for K <= 6, sampled above; quick replays a seeded sample of the cover paths."),
 "C19": dict(
   category="model_checking",
   text="Same state machine with the deadline able to pass at any moment (Tick): SoundPartial, CompleteWhenNotTimedOut, NoOrphans, NoLateWrites, WarnIffCut are invariants of the protocol now in the code; the configuration with the former deviation DeadlineTestFirst gives the WarnIffCut "
        "counterexample that was replayed on the code (F11). The transition cover is replayed with virtual time; real runs on kernel_x86_long_LCD.s and generated dense kernels with timeouts {0,1,2,generous,-1} measure wall time (in-run calibration, confirm-on-rerun), children left, report warning <=> flag, "
        "partial results subset of the untimed result (or TLC-checked genuine cycles); the sequential path (< 50 lines) is timed with a per-root delay and judged by abandoned enumerations.",
   design_ref="5/C19, 10.9", technique="TLA+ state machine with timeout + TLC exhaustive + transition-cover replay with virtual time + measured real runs validated by TLC",
   note="The wall-clock bound is measured, not modelled; the post-deadline overhead of copying and post-processing many paths is a recorded finding (F39, load-dependent)."),
 "C12": dict(
   category="model_checking",
   text="TLC enumerates every ordered pair of register names of both ISAs (MC_RegAlias: equivalence relation, family sizes), "
        "the emitted table is replayed on is_reg_dependend_of for all ordered pairs x 3 case modes x 2 operand constructions, and "
        "the recorded observations are validated by TLC (Trace_RegAlias). The space is finite, so this is exhaustive.",
   design_ref="5/C12", technique="TLA+ table spec + TLC exhaustive enumeration + replay and trace validation on the real parsers",
   note="Trusts RegAlias.tla's name tables (written from the architecture manuals) and the 20-line operand construction in harness/checks/c12.py."),
}

def main():
    checks = []
    for pid in PROPS:
        if pid not in CHECKS:
            continue
        c = CHECKS[pid]
        checks.append({
            "property_id": pid,
            "quick_cmd": "./check %s --tier quick" % pid,
            "thorough_cmd": "./check %s --tier thorough" % pid,
            "evidence_file": "/verif/evidence/%s.json" % pid,
            "replay_cmd_template": "./check %s --replay {path}" % pid,
            "engine": "tlc",
            "level_claimed": {"category": c["category"], "text": c["text"], "design_ref": c["design_ref"]},
            "level_note": c["note"],
            "technique": c["technique"],
        })
    na = [{"property_id": p, "reason": NA.get(p, "check not built yet in this round (specification planned in DESIGN.md section 5); not claimed")}
          for p in PROPS if p not in CHECKS]
    m = {
        "version": 1,
        "setup_cmd": "./setup.sh",
        "hooks": {
            "guard": "OSACA_VERIF_TRACE",
            "enable": "no in-repo hooks: checks import osaca from /repo's working tree in fresh interpreters and observe public API boundaries; module-level collaborators are substituted from outside",
            "baseline_off_cmd": "cd /repo && /venv/bin/python -m pytest -ra -q -p no:cacheprovider --timeout=900 --continue-on-collection-errors",
            "source_commits": [],
            "add_only": True,
        },
        "engines": [
            {"name": "tlc", "path": "/verif/specs", "serves_properties": [c["property_id"] for c in checks],
             "kind_free_text": "explicit TLA+ specifications checked with TLC 1.8 (exhaustive + batch trace validation), bound to the code by replay and recorded traces (harness/)"},
        ],
        "checks": checks,
        "not_applicable": na,
        "notes": "See DESIGN.md. Findings repaired or recorded are in known_findings.json.",
    }
    with open(os.path.join(HERE, "MANIFEST.json"), "w") as f:
        json.dump(m, f, indent=1)
    print("MANIFEST.json: %d checks, %d not_applicable" % (len(checks), len(na)))

NA = {}
if __name__ == "__main__":
    main()
