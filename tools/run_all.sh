#!/bin/bash
# runs every check's quick (or $1) tier on /repo and prints one summary line per property
TIER=${1:-quick}
cd "$(dirname "$0")/.."
for p in $(python3 -c "import json;print(' '.join(c['property_id'] for c in json.load(open('MANIFEST.json'))['checks']))"); do
  out=$(./check $p --tier $TIER 2>&1); rc=$?
  echo "$p rc=$rc $(echo "$out" | grep -c '^VIOLATION') violations; $(echo "$out" | grep -c '^KNOWN-FINDING') known; $(echo "$out" | tail -1 | cut -c1-160)"
done
