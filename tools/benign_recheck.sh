#!/bin/bash
# usage: tools/benign_recheck.sh <outdir> <n> <name> <check ids...> : re-runs some checks against a property-preserving
# change (after the machinery was corrected) and appends the result to /verif/benign/<name>/eval.log
OUT=$1; N=$2; NAME=$3; shift 3
WT=/tmp/wt-brecheck-$$
git -C /repo worktree add --detach $WT HEAD >/dev/null 2>&1 || exit 3
git -C $WT apply $OUT/patch$N.diff || { git -C /repo worktree remove --force $WT; exit 3; }
for c in "$@"; do
  VERIF_REPO=$WT /verif/check $c --tier quick > /tmp/benign_recheck_$NAME.$c.out 2>&1; rc=$?
  echo "recheck after correction: check=$c rc=$rc violations=$(grep -c '^VIOLATION' /tmp/benign_recheck_$NAME.$c.out) first=$(grep -m1 'signature=' /tmp/benign_recheck_$NAME.$c.out | cut -c1-200) last=$(tail -1 /tmp/benign_recheck_$NAME.$c.out | cut -c1-160)" >> /verif/benign/$NAME/eval.log
done
rm -f $WT/tests/test_files/*.copy.s
git -C /repo worktree remove --force $WT
