#!/usr/bin/env python3
"""Prints the consolidated findings table (markdown) from known_findings.json + known_findings.d/*.json."""
import json, os, glob, re
HERE = os.path.dirname(os.path.dirname(os.path.abspath(__file__)))
rows = {}
for p in [os.path.join(HERE, "known_findings.json")] + sorted(glob.glob(os.path.join(HERE, "known_findings.d", "*.json"))):
    for f in json.load(open(p)).get("findings", []):
        k = f["id"]
        r = rows.setdefault(k, {"props": set(), "status": f["status"], "commit": f.get("commit", ""), "what": f.get("what", "")})
        r["props"].add(f["property"])
        if f["status"] == "known":
            r["status"] = "known"
def key(k):
    m = re.match(r"F(\d+)(\w*)", k)
    return (int(m.group(1)), m.group(2)) if m else (999, k)
print("| id | properties | status | /repo commit | what failed |")
print("|---|---|---|---|---|")
for k in sorted(rows, key=key):
    r = rows[k]
    print("| %s | %s | %s | %s | %s |" % (k, " ".join(sorted(r["props"])), r["status"], (r["commit"] or "")[:7] if r["status"] == "fixed" else "-", r["what"].replace("|", "/")[:230]))
