#!/bin/bash
# usage: tools/benign_eval.sh <outdir> <n> <name> [check ids... (default: all 20)]
# Applies a property-preserving change in a scratch worktree of /repo HEAD, confirms that the pinned
# suite still passes and runs the quick checks against it: every check must exit 0 without a VIOLATION
# line (a report here is a FALSE ALARM of the machinery). Result: /verif/benign/<name>/{patch.diff,meta_agent.json,eval.log}
OUT=$1; N=$2; NAME=$3; shift 3
CHECKS="$@"; [ -z "$CHECKS" ] && CHECKS="C01 C02 C03 C04 C05 C06 C07 C08 C09 C10 C11 C12 C13 C14 C15 C16 C17 C18 C19 C20"
WT=/tmp/wt-benign-$$
git -C /repo worktree add --detach $WT HEAD >/dev/null 2>&1 || exit 3
res=/tmp/benign_eval_$NAME.log; : > $res
git -C $WT apply $OUT/patch$N.diff || { echo "patch does not apply" | tee -a $res; git -C /repo worktree remove --force $WT; exit 3; }
/venv/bin/python /verif/tools/baseline_check.py $WT 2>&1 | tail -1 | tee -a $res
for c in $CHECKS; do
  VERIF_REPO=$WT /verif/check $c --tier quick > /tmp/benign_eval_$NAME.$c.out 2>&1; rc=$?
  echo "check=$c rc=$rc violations=$(grep -c '^VIOLATION' /tmp/benign_eval_$NAME.$c.out) first=$(grep -m1 'signature=' /tmp/benign_eval_$NAME.$c.out | cut -c1-240) last=$(tail -1 /tmp/benign_eval_$NAME.$c.out | cut -c1-200)" | tee -a $res
done
mkdir -p /verif/benign/$NAME
cp $OUT/patch$N.diff /verif/benign/$NAME/patch.diff; cp $OUT/meta$N.json /verif/benign/$NAME/meta_agent.json
cp $res /verif/benign/$NAME/eval.log
rm -f $WT/tests/test_files/*.copy.s
git -C /repo worktree remove --force $WT
