#!/usr/bin/env python3
"""Builds /verif/seeded/<name>/meta.json from the seeding agent's meta and the evaluation log
written by tools/seed_eval.sh, and prints the table for DESIGN.md."""
import json, os, re, sys
HERE = os.path.dirname(os.path.dirname(os.path.abspath(__file__)))
root = os.path.join(HERE, "seeded")
rows = []
for name in sorted(os.listdir(root)):
    d = os.path.join(root, name)
    if not os.path.isdir(d) or not os.path.exists(os.path.join(d, "eval.log")):
        continue
    agent = {}
    if os.path.exists(os.path.join(d, "meta_agent.json")):
        try:
            agent = json.load(open(os.path.join(d, "meta_agent.json")))
        except Exception:
            agent = {}
    log = open(os.path.join(d, "eval.log")).read()
    clean = re.search(r"demo_clean_rc=(\d+)", log)
    patched = re.search(r"demo_patched_rc=(\d+)", log)
    base = "missing: []" in log
    checks = {}
    for m in re.finditer(r"check=(C\d+) rc=(\d+) violations=(\d+) first=(.*)", log):
        checks[m.group(1)] = {"exit": int(m.group(2)), "violation_lines": int(m.group(3)), "first_signature": m.group(4).strip()[:240]}
    caught = sorted(c for c, v in checks.items() if v["exit"] == 1)
    meta = {
        "property": agent.get("property", name.split("-")[0]),
        "summary": agent.get("summary", ""),
        "needs_to_manifest": agent.get("needs_to_manifest", ""),
        "files_changed": agent.get("files_changed", []),
        "confirmed": {"demo_exit_clean": int(clean.group(1)) if clean else None,
                      "demo_exit_patched": int(patched.group(1)) if patched else None,
                      "pinned_suite_still_passes": base},
        "what_was_run": ["scratch worktree of /repo HEAD; demo.py before and after `git apply patch.diff`",
                         "tools/baseline_check.py <worktree> (42 stable tests)",
                         "VERIF_REPO=<worktree> ./check <id> --tier quick for: " + ", ".join(sorted(checks))],
        "checks": checks,
        "caught_by": caught,
    }
    disp = os.path.join(d, "disposition.json")
    verdict = ", ".join(caught) or "MISSED"
    if os.path.exists(disp):
        meta.update(json.load(open(disp)))
        if not caught:
            verdict = "- (" + meta["disposition"] + ")"
    json.dump(meta, open(os.path.join(d, "meta.json"), "w"), indent=1)
    rows.append((name, meta["property"], verdict, agent.get("summary", "")[:110]))
for r in rows:
    print("| `%s` | %s | %s | %s |" % r)
