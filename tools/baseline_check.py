#!/usr/bin/env python3
"""Runs the repository's pinned suite (guard off) and checks every stable_pass test of
/root/.vp/BASELINE.json passes.  Usage: tools/baseline_check.py [repo_dir]"""
import json, subprocess, sys, tempfile, xml.etree.ElementTree as ET, os
repo = sys.argv[1] if len(sys.argv) > 1 else "/repo"
base = json.load(open("/root/.vp/BASELINE.json"))
out = tempfile.mktemp(suffix=".xml")
subprocess.run(["/venv/bin/python", "-m", "pytest", "-ra", "-q", "-p", "no:cacheprovider", "--timeout=900",
                "--continue-on-collection-errors", "--junitxml=" + out], cwd=repo,
               stdout=subprocess.DEVNULL, stderr=subprocess.DEVNULL)
passed = set()
for tc in ET.parse(out).getroot().iter("testcase"):
    if not any(ch.tag in ("failure", "error", "skipped") for ch in tc):
        passed.add(tc.get("classname") + "::" + tc.get("name"))
os.unlink(out)
missing = [t for t in base["stable_pass"] if t not in passed]
print("stable_pass: %d, passing now: %d, missing: %s" % (len(base["stable_pass"]), len(base["stable_pass"]) - len(missing), missing))
sys.exit(1 if missing else 0)
