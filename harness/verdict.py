"""Verdicts, replay files, known findings and evidence files."""
import hashlib
import json
import os
import re
import sys
import time

VERIF = os.path.dirname(os.path.dirname(os.path.abspath(__file__)))
EVIDENCE = os.path.join(VERIF, "evidence")
_alt = os.environ.get("VERIF_REPO")
if _alt and os.path.realpath(_alt) != "/repo":
    # a run against a scratch copy (seeded or benign change) must not overwrite the evidence of /repo itself
    EVIDENCE = os.path.join(VERIF, ".work", "evidence-of-scratch-trees", os.path.basename(os.path.realpath(_alt)))
REPLAYS = os.path.join(VERIF, "replays")
KNOWN = os.path.join(VERIF, "known_findings.json")


def load_known():
    """known_findings.json plus every known_findings.d/*.json (same format)."""
    out = []
    paths = [KNOWN] if os.path.exists(KNOWN) else []
    d = os.path.join(VERIF, "known_findings.d")
    if os.path.isdir(d):
        paths += sorted(os.path.join(d, f) for f in os.listdir(d) if f.endswith(".json"))
    for p in paths:
        with open(p) as f:
            out += json.load(f).get("findings", [])
    return out


class Run:
    """One execution of one check.  Collects coverage, decides VIOLATION vs KNOWN-FINDING,
    writes the evidence file and yields the exit code."""

    def __init__(self, pid, tier="quick", seed=0, level="model_checking"):
        self.pid = pid
        self.tier = tier
        self.seed = int(seed)
        self.level = level
        self.t0 = time.time()
        self.states = 0
        self.transitions = 0
        self.mc_runs = []
        self.traces = 0
        self.evaluations = 0
        self.nontrivial = set()
        self.samples = []
        self.assumptions = []
        self.extra = {}
        self.violations = []  # (signature, what, replay)
        self.known_hits = {}  # finding id -> count
        self.known = [k for k in load_known() if k.get("property") == pid]
        self.rule = ""
        self.divergences = []
        self.exhaustive = None

    # ---- coverage -------------------------------------------------------------------
    def add_mc(self, r, label=None):
        self.states += r.distinct
        self.transitions += r.transitions
        d = r.as_dict()
        if label:
            d["label"] = label
        if r.coverage:
            d["actions_covered"] = {k: v[0] for k, v in r.coverage.items()}
        self.mc_runs.append(d)

    def add_traces(self, n):
        self.traces += n

    def add_eval(self, n=1):
        self.evaluations += n

    def mark(self, key):
        self.nontrivial.add(key if isinstance(key, str) else json.dumps(key, sort_keys=True))

    def sample(self, obj, limit=6):
        if len(self.samples) < limit:
            self.samples.append(obj)

    def note(self, key, value):
        self.extra[key] = value

    def assume(self, text):
        if text not in self.assumptions:
            self.assumptions.append(text)

    def divergence(self, kind, obj):
        """Level-B (algorithm shape) or model divergence: recorded, never a violation."""
        if len(self.divergences) < 20:
            self.divergences.append({"kind": kind, "case": obj})
        self.extra["divergence_count"] = self.extra.get("divergence_count", 0) + 1

    # ---- verdicts -------------------------------------------------------------------
    def _match_known(self, signature):
        for k in self.known:
            if k.get("status") != "known":
                continue
            if signature in k.get("signatures", []):
                return k
            rx = k.get("signature_regex")
            if rx and re.fullmatch(rx, signature):
                return k
        return None

    def fail(self, signature, what, case):
        """Report a property violation observed on the implementation.
        `signature` identifies the failing input / call site / history class."""
        k = self._match_known(signature)
        if k is not None:
            self.known_hits.setdefault(k["id"], {"finding": k, "count": 0, "first": what})
            self.known_hits[k["id"]]["count"] += 1
            return "known"
        if len(self.violations) >= 25:
            self.violations.append((signature, what, None))
            return "violation"
        os.makedirs(os.path.join(REPLAYS, self.pid), exist_ok=True)
        body = json.dumps(
            {"property": self.pid, "signature": signature, "what": what, "seed": self.seed,
             "tier": self.tier, "case": case},
            indent=1, sort_keys=True, default=str,
        )
        h = hashlib.sha1(body.encode()).hexdigest()[:12]
        path = os.path.join(REPLAYS, self.pid, h + ".json")
        with open(path, "w") as f:
            f.write(body)
        self.violations.append((signature, what, path))
        return "violation"

    def finish(self):
        wall = time.time() - self.t0
        for fid, h in sorted(self.known_hits.items()):
            print("KNOWN-FINDING: property=%s %s: %s (observed %d time(s); e.g. %s)" % (
                self.pid, fid, h["finding"].get("what", ""), h["count"], h["first"]))
        seen = set()
        for sig, what, path in self.violations:
            if path is None:
                continue
            print("VIOLATION property=%s replay=%s" % (self.pid, path))
            if sig not in seen:
                print("  signature=%s :: %s" % (sig, what))
                seen.add(sig)
        cov = {
            "states": self.states,
            "transitions": self.transitions,
            "traces_validated_against_impl": self.traces,
            "evaluations": max(self.evaluations, self.traces),
            "distinct_nontrivial": len(self.nontrivial),
            "rule": self.rule,
            "samples": self.samples if self.samples else [],
            "model_checking_runs": self.mc_runs,
            "known_findings_observed": {k: v["count"] for k, v in self.known_hits.items()},
            "conformance_divergences": self.divergences,
        }
        if self.exhaustive is not None:
            cov["exhaustive"] = bool(self.exhaustive)
        cov.update(self.extra)
        ev = {
            "property_id": self.pid,
            "tier": self.tier,
            "seed": self.seed,
            "level": self.level,
            "coverage": cov,
            "assumptions": self.assumptions,
            "wall_s": round(wall, 2),
            "violations": len(self.violations),
        }
        os.makedirs(EVIDENCE, exist_ok=True)
        tmp = os.path.join(EVIDENCE, self.pid + ".json.tmp")
        with open(tmp, "w") as f:
            json.dump(ev, f, indent=1, sort_keys=True, default=str)
        os.replace(tmp, os.path.join(EVIDENCE, self.pid + ".json"))
        print("%s %s: states=%d transitions=%d impl_traces=%d nontrivial=%d violations=%d known=%d wall=%.1fs" % (
            self.pid, self.tier, self.states, self.transitions, self.traces, len(self.nontrivial),
            len(self.violations), len(self.known_hits), wall))
        sys.stdout.flush()
        return 1 if self.violations else 0
