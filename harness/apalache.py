"""Apalache (symbolic model checker) runs for inductive invariants: unbounded-step safety of small
integer/set protocols.  Optional tool: a missing binary is noted, never a failure."""
import os
import shutil
import subprocess
import tempfile
import time

SPECS = os.path.join(os.path.dirname(os.path.dirname(os.path.abspath(__file__))), "specs", "apalache")


def _run(module, args, timeout=400):
    out = tempfile.mkdtemp(prefix="apa-")     # removed again below
    t0 = time.time()
    try:
        p = subprocess.run(["apalache-mc", "check", "--out-dir=" + out] + args + [module + ".tla"], cwd=SPECS,
                           stdout=subprocess.PIPE, stderr=subprocess.STDOUT, timeout=timeout)
        text = p.stdout.decode("utf-8", "replace")
    except subprocess.TimeoutExpired:
        text = "TIMEOUT"
    finally:
        shutil.rmtree(out, ignore_errors=True)
    for leftover in ("detailed.log",):
        try:
            os.unlink(os.path.join(SPECS, leftover))
        except OSError:
            pass
    verdict = "ok" if "EXITCODE: OK" in text else ("error" if "EXITCODE: ERROR" in text else "unknown")
    return verdict, round(time.time() - t0, 1)


def cache_induction(run):
    """CacheAtomic: Init => IndInv, IndInv /\\ Next => IndInv' (so Safe holds for any number of steps);
    CacheInPlace (the former protocol) must fail the same obligation (negative control)."""
    if shutil.which("apalache-mc") is None:
        run.note("apalache", "apalache-mc not on PATH: inductive-invariant obligations skipped")
        return
    res = {}
    res["CacheAtomic: Init => IndInv"] = _run("CacheAtomic", ["--cinit=CInit", "--init=Init", "--inv=IndInv", "--length=0"])
    res["CacheAtomic: IndInv /\\ Next => IndInv'"] = _run("CacheAtomic", ["--cinit=CInit", "--init=IndInit", "--inv=IndInv", "--length=1"])
    res["CacheAtomic: IndInv => Safe"] = _run("CacheAtomic", ["--cinit=CInit", "--init=IndInit", "--inv=Safe", "--length=0"])
    res["CacheInPlace (negative control, must fail)"] = _run("CacheInPlace", ["--cinit=CInit", "--init=IndInit", "--inv=IndInv", "--length=1"])
    run.note("apalache_inductive_invariant", {k: {"verdict": v[0], "wall_s": v[1]} for k, v in res.items()})
    ok = all(res[k][0] == "ok" for k in res if "negative" not in k) and res["CacheInPlace (negative control, must fail)"][0] == "error"
    run.note("apalache_obligations_discharged", bool(ok))
    if not ok:
        # the protocol specification is ours: an undischarged obligation is a defect of the machinery
        raise RuntimeError("Apalache obligations not discharged: %r" % res)
