"""Whole-run traces of osaca.osaca.inspect: one event per pipeline stage, recorded by wrapping
the stage entry points FROM OUTSIDE (no edits under /repo).  The trace is validated against
specs/Osaca.tla (conjunction of the stage post-conditions + stage order)."""
import contextlib
import copy
import io
import os

from harness.deps_common import units

_EVENTS = None
_DEPTH = {"bal": 0}


def _emit(ev, **kw):
    if _EVENTS is not None:
        d = {"ev": ev}
        d.update(kw)
        _EVENTS.append(d)


def _rows(kernel):
    return [[units(round(v, 9)) for v in ins.port_pressure] for ins in kernel]


@contextlib.contextmanager
def installed():
    """Install the wrappers; yields the event list."""
    global _EVENTS
    import osaca.osaca as oo
    from osaca.frontend import Frontend
    from osaca.parser import ParserAArch64, ParserX86ATT
    from osaca.semantics import ArchSemantics, KernelDG

    saved = []

    def wrap(obj, name, make):
        orig = getattr(obj, name)
        saved.append((obj, name, orig))
        setattr(obj, name, make(orig))

    def _model_name(mm):
        # the model FILE the semantics work with (shipped models do not all carry an arch_code)
        path = getattr(mm, "_path", None)
        return os.path.basename(str(path))[:-4].lower() if path and str(path).endswith(".yml") else "?"

    def _pisa(parser):
        return "aarch64" if isinstance(parser, ParserAArch64) else "x86" if isinstance(parser, ParserX86ATT) else "?"

    def mk_parse(orig):
        def parse_file(self, *a, **k):
            try:
                res = orig(self, *a, **k)
            except Exception:
                _emit("parsefail", isa=_pisa(self))
                raise
            _emit("parse", lines=[l.line_number for l in res], isa=_pisa(self))
            return res
        return parse_file

    def mk_reduce(orig):
        def reduce_to_section(kernel, isa):
            res = orig(kernel, isa)
            _emit("select", mode="markers", kernel=[l.line_number for l in res], isa=str(isa).lower())
            return res
        return reduce_to_section

    # the front door of `inspect`: ISA heuristics (only without --arch) and the choice of the parser
    def mk_detect(orig):
        def detect_ISA(file_content):
            res = orig(file_content)
            _emit("detect", isa=str(res).lower())
            return res
        return staticmethod(detect_ISA)

    def mk_getparser(orig):
        def get_asm_parser(arch):
            res = orig(arch)
            _emit("parser", arch=str(arch).lower(), isa=_pisa(res))
            return res
        return get_asm_parser

    def mk_range(orig):
        def get_line_range(s):
            res = orig(s)
            _emit("lines", wanted=sorted(set(int(x) for x in res)))
            return res
        return get_line_range

    def mk_sem(orig):
        def add_semantics(self, kernel):
            res = orig(self, kernel)
            _emit("semantics", kernel=[l.line_number for l in kernel], rows=_rows(kernel),
                  tp=[units(l.throughput) for l in kernel], lat=[units(l.latency) for l in kernel],
                  latwo=[units(l.latency_wo_load if l.latency_wo_load is not None else l.latency) for l in kernel],
                  lds=[bool("performs_load" in l.flags and "is_load_instruction" not in l.flags) for l in kernel],
                  ports=len(self._machine_model.get_ports()),
                  arch=_model_name(self._machine_model), isa=str(self._machine_model.get_ISA()).lower())
            return res
        return add_semantics

    def mk_bal(orig):
        def assign_optimal_throughput(self, kernel, start=0):
            _DEPTH["bal"] += 1
            try:
                res = orig(self, kernel, start)
            finally:
                _DEPTH["bal"] -= 1
            if _DEPTH["bal"] == 0:   # the recursive exploration of alternatives is internal
                _emit("balance", rows=_rows(kernel))
            return res
        return assign_optimal_throughput

    def mk_dg(orig):
        def create_DG(self, kernel, flag_dependencies=False):
            dg = orig(self, kernel, flag_dependencies)
            nodes = [l.line_number for l in kernel]
            E, LE = [], []
            for s, d in dg.edges:
                w = units(dg.edges[s, d]["latency"])
                if int(s) != s:
                    LE.append([int(s), w])
                else:
                    E.append([s, d, w])
            _emit("graph", nodes=nodes, E=sorted(E), LE=sorted(LE), flagDeps=bool(flag_dependencies))
            return dg
        return create_DG

    def mk_lcd(orig):
        def check_for_loopcarried_dep(self, kernel, timeout=10, flag_dependencies=False):
            res = orig(self, kernel, timeout, flag_dependencies)
            _emit("lcd", lcd=[[units(v["latency"]), [int(d.line_number) for d, _ in v["dependencies"]]] for v in res.values()],
                  timedOut=bool(self.timed_out), timeout=int(timeout))
            return res
        return check_for_loopcarried_dep

    def mk_cp(orig):
        def get_critical_path(self):
            res = orig(self)
            _emit("cp", marked=[x.line_number for x in res], cells=[[x.line_number, units(x.latency_cp)] for x in res])
            return res
        return get_critical_path

    def mk_dict(orig):
        def full_analysis_dict(self, *a, **k):
            res = orig(self, *a, **k)
            s = res["Summary"]
            ports = res["Target"]["Ports"]
            _emit("dict", cp=units(s["CriticalPath"]), lcd=units(s["LCD"]),
                  totals=[units(s["PortPressure"][p]) for p in ports], warnings=list(res["Warnings"]),
                  target=str(res["Target"]["Name"]).lower())
            return res
        return full_analysis_dict

    wrap(ParserX86ATT, "parse_file", mk_parse)
    wrap(ParserAArch64, "parse_file", mk_parse)
    wrap(oo, "reduce_to_section", mk_reduce)
    saved.append((oo.BaseParser, "detect_ISA", oo.BaseParser.__dict__["detect_ISA"]))
    setattr(oo.BaseParser, "detect_ISA", mk_detect(oo.BaseParser.detect_ISA))
    wrap(oo, "get_asm_parser", mk_getparser)
    wrap(oo, "get_line_range", mk_range)
    wrap(ArchSemantics, "add_semantics", mk_sem)
    wrap(ArchSemantics, "assign_optimal_throughput", mk_bal)
    wrap(KernelDG, "create_DG", mk_dg)
    wrap(KernelDG, "check_for_loopcarried_dep", mk_lcd)
    wrap(KernelDG, "get_critical_path", mk_cp)
    wrap(Frontend, "full_analysis_dict", mk_dict)
    _EVENTS = []
    try:
        yield _EVENTS
    finally:
        for obj, name, orig in reversed(saved):
            setattr(obj, name, orig)
        _EVENTS = None


def trace_inspect(argv, workdir):
    """Run `osaca <argv> --yaml-out F` in-process with the wrappers installed.
    Returns (events, report_text, yaml_path)."""
    import osaca.osaca as oo

    yml = os.path.join(workdir, "out-%d.yml" % os.getpid())
    with installed() as events:
        parser = oo.create_parser()
        args = parser.parse_args(list(argv) + ["--yaml-out", yml])
        oo.check_arguments(args, parser)
        out = io.StringIO()
        try:
            oo.run(args, output_file=out)
        finally:
            for f in (args.file, args.yaml_out):
                try:
                    f.close()
                except Exception:
                    pass
        evs = copy.deepcopy(events)
    text = out.getvalue()
    # the text report parsed back (harness/report_parse.py): which lines carry a CP / LCD cell
    try:
        from harness import report_parse

        rep = report_parse.parse_report(text)
        if rep.get("rows") and not rep.get("problems"):
            evs.append({"ev": "report",
                        "cpMarked": [r["line"] for r in rep["rows"] if r.get("cp")],
                        "lcdMarked": [r["line"] for r in rep["rows"] if r.get("lcd")]})
    except Exception:
        pass
    return evs, text, yml
