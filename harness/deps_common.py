"""Shared machinery for C03/C04/C05/C06/C14: abstract kernels over synthetic ISA semantic
databases (arbitrary per-operand roles, hidden flag operands, zero idioms, forms absent from the
DB) and over a curated vocabulary of real instructions; rendering to assembly text; running the
real pipeline; projecting KernelDG results to JSON cases for Trace_Deps.tla.

The abstraction of every generated instruction (which register families / flags it reads and
writes, its memory references and constant register changes) is known BY CONSTRUCTION: it is
computed here from the role table the instruction was rendered from, never from OSACA."""
import copy
import json
import os
import random

from harness import synth

U = 12000  # units per cycle


def units(x):
    v = round(float(x) * U)
    if abs(float(x) * U - v) > 1e-3:
        raise ValueError("value %r not representable on the 1/12000 lattice" % (x,))
    return int(v)


# ------------------------------------------------------------------------------------------
# register rendering
# ------------------------------------------------------------------------------------------
X86_GPR = {
    "a": ["rax", "eax", "ax", "al"], "b": ["rbx", "ebx", "bx", "bl"], "c": ["rcx", "ecx", "cx", "cl"],
    "d": ["rdx", "edx", "dx", "dl"], "si": ["rsi", "esi", "si", "sil"], "di": ["rdi", "edi", "di", "dil"],
    "bp": ["rbp", "ebp", "bp", "bpl"],
    "r8": ["r8", "r8d", "r8w", "r8b"], "r9": ["r9", "r9d", "r9w", "r9b"], "r10": ["r10", "r10d", "r10w", "r10b"],
    "r11": ["r11", "r11d", "r11w", "r11b"], "r12": ["r12", "r12d", "r12w", "r12b"],
}


def reg_name(isa, fam, rnd, wide=False):
    """Render a register family ('gpr:a', 'vec:3', 'gp:5', 'pred:1') as a register name of
    random width (or the full-width name if `wide`)."""
    kind, n = fam.split(":")
    if isa == "x86":
        if kind == "gpr":
            names = X86_GPR[n]
            return names[0] if wide else rnd.choice(names)
        if kind == "vec":
            return (("xmm" if wide else rnd.choice(["xmm", "ymm", "zmm"])) + n)
    else:
        if kind == "gp":
            return ("x" if wide else rnd.choice(["x", "w"])) + n
        if kind == "vec":
            return ("d" if wide else rnd.choice(["d", "q", "s", "h", "b"])) + n
        if kind == "pred":
            return "p" + n
    raise ValueError(fam)


def fmt_reg(isa, name):
    return "%" + name if isa == "x86" else name


GPR_POOL = {"x86": ["gpr:a", "gpr:b", "gpr:c", "gpr:d", "gpr:si", "gpr:bp", "gpr:r8", "gpr:r11"],
            "aarch64": ["gp:0", "gp:1", "gp:2", "gp:3", "gp:9", "gp:17", "gp:28"]}
VEC_POOL = {"x86": ["vec:0", "vec:1", "vec:7", "vec:15"], "aarch64": ["vec:0", "vec:1", "vec:7", "vec:31"]}
FLAGS = {"x86": ["CF", "ZF"], "aarch64": ["N", "Z", "C", "V"]}


# ------------------------------------------------------------------------------------------
# synthetic vocabulary: operand roles in WRITTEN order
#   's' source register, 'd' destination register, 'sd' read-modify-write register,
#   'ms' memory source (load), 'md' memory destination (store), 'msd' memory rmw, 'i' immediate
# ------------------------------------------------------------------------------------------
def synthetic_shapes(isa, rnd):
    """Shape table with random latencies.  `canon` lists operand roles in the canonical
    argument order (the order of MC_Deps.tla's Sem table); `order[isa]` is the permutation to
    WRITTEN order.  in_db=False forms are absent from the ISA DB and must follow the default
    rule (x86: last written operand is the destination; AArch64: first)."""
    # eighths of a cycle too: a figure rounded to 0.01 on the way is then visibly not the chain's length
    L = lambda: rnd.choice([0.0, 1.0, 1.0, 2.0, 3.0, 5.0, 0.125, 2.375])
    x, a = "x86", "aarch64"
    shapes = [
        dict(name="opa", canon=["s", "s", "d"], order={x: [0, 1, 2], a: [2, 0, 1]}, in_db=True),
        dict(name="opb", canon=["s", "sd"], order={x: [0, 1], a: [1, 0]}, in_db=True),
        dict(name="opc", canon=["s", "d"], order={x: [0, 1], a: [1, 0]}, in_db=False),
        # irregular: x86 writes its FIRST written operand, AArch64 its LAST
        dict(name="opd", canon=["d", "s"], order={x: [0, 1], a: [1, 0]}, in_db=True),
        dict(name="ope", canon=["s", "s"], order={x: [0, 1], a: [0, 1]}, in_db=True, fw=["C"]),
        dict(name="opf", canon=["d"], order={x: [0], a: [0]}, in_db=True, fr=["C"]),
        dict(name="opg", canon=["s", "sd"], order={x: [0, 1], a: [1, 0]}, in_db=True, zero=True, fw=["C"]),
        dict(name="oph", canon=["s"], order={x: [0], a: [0]}, in_db=False),
        dict(name="opj", canon=["s", "sd"], order={x: [0, 1], a: [1, 0]}, in_db=True, fr=["C"], fw=["C"]),
        dict(name="opk", canon=["s", "s", "s", "d"], order={x: [0, 1, 2, 3], a: [3, 0, 1, 2]}, in_db=False),
        dict(name="opl", canon=["sd", "s", "d"], order={x: [0, 1, 2], a: [2, 1, 0]}, in_db=True),
        dict(name="vop", canon=["s", "s", "d"], order={x: [0, 1, 2], a: [2, 0, 1]}, in_db=True, vec=True),
        dict(name="opm", canon=["ms", "s", "d"], order={x: [0, 1, 2], a: [2, 1, 0]}, in_db=False, memform=True),
        dict(name="opn", canon=["ms", "d"], order={x: [0, 1], a: [1, 0]}, in_db=False, memform=True),
        dict(name="opz", canon=["s", "s"], order={x: [0, 1], a: [0, 1]}, in_db=True, fw=["Z"]),   # other flag
        dict(name="opy", canon=["d"], order={x: [0], a: [0]}, in_db=True, fr=["Z"]),
        # a store (both ISAs write "ost src, mem"): with it a model that declares hidden_loads flags loads as hidden
        # behind stores; its displacement is one no load reaches, so no store-to-load edge arises (that is C06's)
        dict(name="ost", canon=["s", "md"], order={x: [0, 1], a: [0, 1]}, in_db=True),
    ]
    # implicit register operands only (like cltq / cqto): no written operand at all
    hp = GPR_POOL[isa]
    shapes += [
        dict(name="hid1", canon=[], order={x: [], a: []}, in_db=True, hidden=[(rnd.choice(hp), "sd")]),
        dict(name="hid2", canon=[], order={x: [], a: []}, in_db=True, hidden=[(rnd.choice(hp), "s"), (rnd.choice(hp), "d")]),
    ]
    if isa == "aarch64":
        shapes += [
            dict(name="wbl", canon=["d", "ms"], order={a: [0, 1]}, in_db=False, wb="post"),
            dict(name="wbp", canon=["d", "ms"], order={a: [0, 1]}, in_db=False, wb="pre"),
            # data register of the vector file, base of the general-purpose file: their NUMBERS may coincide
            # (`wvl d1, [x1], #8`), the registers never do
            dict(name="wvl", canon=["d", "ms"], order={a: [0, 1]}, in_db=False, wb="post", vec=True),
            dict(name="wvp", canon=["d", "ms"], order={a: [0, 1]}, in_db=False, wb="pre", vec=True),
        ]
    for s in shapes:
        s.setdefault("fr", [])
        s.setdefault("fw", [])
        s.setdefault("zero", False)
        s.setdefault("vec", False)
        s.setdefault("memform", False)
        s.setdefault("wb", None)
        s.setdefault("hidden", [])
        s["roles"] = [s["canon"][i] for i in s["order"][isa]]
        s["lat"] = L()
    return shapes


LOAD_LAT = 4.0


def write_synthetic_models(isa, shapes, dirpath, pidx=None, fwd=None, hidden_loads=False):
    """Synthetic arch model + ISA DB for the shape table.  Register operands use the wildcard
    class so that every width of every register matches."""
    forms, isaforms = [], []

    def regop(vec, src=None, dst=None):
        if isa == "x86":
            d = {"class": "register", "name": "*"}
        else:
            d = {"class": "register", "prefix": "*"}
        if src is not None:
            d["source"], d["destination"] = src, dst
        return d

    for s in shapes:
        ops_arch = []
        ops_isa = []
        for r in s["roles"]:
            if r in ("s", "d", "sd"):
                ops_arch.append(regop(s["vec"]))
                ops_isa.append(regop(s["vec"], r in ("s", "sd"), r in ("d", "sd")))
            elif r == "ms":
                if s["memform"]:
                    # no own entry: register form only (register class concrete so that a load type exists)
                    ops_arch.append(synth.reg(isa, "gpr" if isa == "x86" else "x"))
                    ops_isa.append(None)
                else:
                    ops_arch.append(synth.mem(isa, base="gpr", offset="*", index=None, scale=1,
                                              pre_indexed=(s["wb"] == "pre"), post_indexed=(s["wb"] == "post")))
                    ops_isa.append(None)
            elif r == "md":
                ops_arch.append(synth.mem(isa, base="gpr", offset="*", index=None, scale=1))
                ops_isa.append(synth.mem(isa, base="*", offset="*", index="*", scale="*", source=False, destination=True))
                if isa == "aarch64":
                    ops_isa[-1]["pre_indexed"] = ops_isa[-1]["post_indexed"] = "*"
        forms.append({"name": s["name"], "operands": ops_arch, "throughput": 1.0, "latency": s["lat"],
                      "port_pressure": [[1, "01"]], "uops": 1})
        if s["in_db"]:
            f = {"name": s["name"], "operands": ops_isa}
            hid = [synth.flag(n, True, False) for n in s["fr"] if n not in s["fw"]]
            hid += [synth.flag(n, False, True) for n in s["fw"] if n not in s["fr"]]
            hid += [synth.flag(n, True, True) for n in s["fw"] if n in s["fr"]]
            for fam, role in s.get("hidden", []):
                nm = reg_name(isa, fam, None, wide=True)
                d = {"class": "register", "source": "s" in role, "destination": "d" in role}
                if isa == "x86":
                    d["name"] = nm
                else:
                    d["prefix"], d["name"] = nm[0], nm[1:]
                hid.append(d)
            if hid:
                f["hidden_operands"] = hid
            if s["zero"]:
                f["breaks_dependency_on_equal_operands"] = True
            isaforms.append(f)
    extras = {}
    if pidx is not None:
        extras["p_index_latency"] = pidx
    if fwd is not None:
        extras["store_to_load_forward_latency"] = fwd
    # models that hide loads behind stores (a port-pressure matter): dependencies, critical path and loop-carried
    # dependencies are what they are without it
    extras["hidden_loads"] = bool(hidden_loads)
    lt = [synth.mem(isa, base="gpr", offset="*", index="*", scale="*")]
    for m in lt:
        m.pop("class")
        m["port_pressure"] = [[1, "2"]]
        if isa == "aarch64":
            m["pre_indexed"] = "*"
            m["post_indexed"] = "*"
    arch = synth.write_arch_model(
        os.path.join(dirpath, "syn_%s.yml" % isa), isa, ["0", "1", "2"], forms,
        load_throughput=lt, load_default=[[1, "2"]], store_default=[[1, "2"]],
        load_latency=({"gpr": LOAD_LAT, "xmm": LOAD_LAT, "ymm": LOAD_LAT, "zmm": LOAD_LAT, "mm": LOAD_LAT}
                      if isa == "x86" else {k: LOAD_LAT for k in "wxbhsdqvz"}),
        extras=extras)
    isadb = synth.write_isa_db(os.path.join(dirpath, "syn_isa_%s.yml" % isa), isa, isaforms)
    return arch, isadb


def gen_instr(isa, shape, rnd, pool=None, vpool=None, args=None, same_width=False):
    """One concrete instruction of `shape`.  `args` (optional) gives the register family of every
    canonical argument (for 'ms' the base register family).  Returns
    dict(text, R, W, WB, FR, FW, lat, latwo, lds, ST, LD, CH)."""
    pool = pool or GPR_POOL[isa]
    vpool = vpool or VEC_POOL[isa]
    canon = shape["canon"]
    if args is None:
        # address registers are general-purpose registers also when the data registers are vector registers
        args = [rnd.choice(pool if r in ("ms", "md") else (vpool if shape["vec"] else pool)) for r in canon]
    assert len(args) == len(canon)
    R, W, WB, LD, ST, CH = set(), set(), set(), [], [], []
    texts_c = [None] * len(canon)
    reg_roles = [i for i, r in enumerate(canon) if r in ("s", "d", "sd")]
    # zero idiom needs textually equal operands: equal families are rendered with one name
    all_same_fam = shape["zero"] and len(reg_roles) > 1 and len({args[i] for i in reg_roles}) == 1
    idiom = all_same_fam and (same_width or rnd.random() < 0.7)
    shared = reg_name(isa, args[reg_roles[0]], rnd) if idiom else None
    for i, r in enumerate(canon):
        if r in ("s", "d", "sd"):
            name = shared if idiom else reg_name(isa, args[i], rnd)
            texts_c[i] = fmt_reg(isa, name)
        elif r == "ms":
            b = args[i]
            bname = reg_name(isa, b, rnd, wide=True)
            disp = rnd.choice([0, 8, 16, -8])
            R.add(b)
            if isa == "x86":
                t = "%d(%%%s)" % (disp, bname) if disp else "(%%%s)" % bname
                LD.append({"b": b, "x": "", "s": 1, "d": disp, "t": t})
            elif shape["wb"] == "post" and not same_width and rnd.random() < 0.3:
                # register post-index: the base is written back by an amount the analysis cannot know.
                # The amount register is one no generated instruction writes (x27): OSACA's parser
                # returns it as an identifier, so whether it counts as a register read is not claimed.
                t = "[%s], x27" % bname
                LD.append({"b": b, "x": "", "s": 1, "d": 0, "t": t})
                WB.add(b)
            elif shape["wb"] == "post":
                imm = rnd.choice([8, 16, -8])
                t = "[%s], #%d" % (bname, imm)
                LD.append({"b": b, "x": "", "s": 1, "d": 0, "t": t})
                WB.add(b)
                CH.append({"r": b, "kind": "add", "src": b, "v": imm})
            elif shape["wb"] == "pre":
                imm = rnd.choice([8, 16, -8])
                t = "[%s, #%d]!" % (bname, imm)
                LD.append({"b": b, "x": "", "s": 1, "d": imm, "t": t})
                WB.add(b)
                CH.append({"r": b, "kind": "add", "src": b, "v": imm})
            else:
                t = "[%s, #%d]" % (bname, disp) if disp else "[%s]" % bname
                LD.append({"b": b, "x": "", "s": 1, "d": disp, "t": t})
            texts_c[i] = t
        elif r == "md":
            b = args[i]
            bname = reg_name(isa, b, rnd, wide=True)
            disp = rnd.choice([4096, 4104, 8192])
            R.add(b)
            t = "%d(%%%s)" % (disp, bname) if isa == "x86" else "[%s, #%d]" % (bname, disp)
            ST.append({"b": b, "x": "", "s": 1, "d": disp, "t": t})
            texts_c[i] = t
    if all_same_fam and not idiom and len({texts_c[i] for i in reg_roles}) == 1:
        idiom = True   # random widths happened to coincide
    for i, r in enumerate(canon):
        if r not in ("s", "d", "sd"):
            continue
        if idiom:
            W.add(args[i])   # dependency-breaking idiom: written, not read
            continue
        if r in ("s", "sd"):
            R.add(args[i])
        if r in ("d", "sd"):
            W.add(args[i])
    for fam, role in shape.get("hidden", []):
        if "s" in role:
            R.add(fam)
        if "d" in role:
            W.add(fam)
    fr = [] if idiom else ["f:" + n for n in shape["fr"]]
    fw = ["f:" + n for n in shape["fw"]]
    texts = [texts_c[i] for i in shape["order"][isa]]
    lat = shape["lat"]
    lds = bool(shape["memform"])
    total = lat + (LOAD_LAT if lds else 0.0)
    return {
        "text": ("%s %s" % (shape["name"], ", ".join(texts))).strip(),
        "R": sorted(R), "W": sorted(W), "WB": sorted(WB), "FR": fr, "FW": fw,
        "lat": units(total), "latwo": units(lat), "lds": lds, "ST": ST, "LD": LD, "CH": CH,
        "shape": shape["name"],
    }


NOISE = {"x86": ["# just a comment", ".L%d:", ".p2align 4"], "aarch64": ["// just a comment", ".L%d:", ".p2align 4"]}


def noise_instr(isa, rnd, ctr):
    t = rnd.choice(NOISE[isa])
    if "%d" in t:
        t = t % ctr
    return {"text": t, "R": [], "W": [], "WB": [], "FR": [], "FW": [], "lat": 0, "latwo": 0, "lds": False,
            "ST": [], "LD": [], "CH": [], "shape": "noise"}


def kernel_text(instrs, rnd=None):
    lines = []
    for ins in instrs:
        if rnd is not None and rnd.random() < 0.1:
            lines.append("")
        lines.append(("\t" if not ins["text"].endswith(":") else "") + ins["text"])
    return "\n".join(lines) + "\n"


def abstract_kernel(instrs, pidx, fwd, flag_deps):
    k = {"n": len(instrs), "pidx": units(pidx), "fwd": units(fwd), "flagDeps": bool(flag_deps)}
    for f in ("R", "W", "WB", "FR", "FW", "lat", "latwo", "lds", "ST", "LD", "CH"):
        k[f] = [ins[f] for ins in instrs]
    return k


# ------------------------------------------------------------------------------------------
# observation
# ------------------------------------------------------------------------------------------
def observe(text, mm, sem, parser, flag_deps=False, with_lcd=True, timeout=-1):
    """Run the real pipeline and project the results.  Returns dict with n, lines (texts),
    lat/latwo/lds as observed, E, LE, E2, cp, cpMarked, cpCells, lcd, lcdMax."""
    from osaca.semantics import KernelDG, INSTR_FLAGS

    kernel = parser.parse_file(text)
    sem.add_semantics(kernel)
    dgo = KernelDG(kernel, parser, mm, sem, timeout, flag_deps)
    n = len(kernel)
    idx = {ins.line_number: i + 1 for i, ins in enumerate(kernel)}
    obs = {"n": n, "lines": [ins.line.strip() for ins in kernel]}
    obs["lat"] = [units(ins.latency) for ins in kernel]
    obs["latwo"] = [units(ins.latency_wo_load if ins.latency_wo_load is not None else ins.latency) for ins in kernel]
    obs["lds"] = [bool(INSTR_FLAGS.HAS_LD in ins.flags and INSTR_FLAGS.LD not in ins.flags) for ins in kernel]
    obs["unknown"] = [bool(INSTR_FLAGS.TP_UNKWN in ins.flags or INSTR_FLAGS.LT_UNKWN in ins.flags) for ins in kernel]
    E, LE = [], []
    for s, d in dgo.dg.edges:
        w = units(dgo.dg.edges[s, d]["latency"])
        if int(s) != s:
            LE.append([idx[int(s)], w])
            assert d == int(s), (s, d)
        else:
            E.append([idx[s], idx[d], w])
    obs["E"], obs["LE"] = sorted(E), sorted(LE)
    # two concatenated iterations, built exactly as the LCD search does
    offset = max(1000, max(i.line_number for i in kernel))
    tmp = [] + kernel
    for o in kernel:
        t = copy.copy(o)
        t.line_number += offset
        tmp.append(t)
    dg2 = dgo.create_DG(tmp, flag_deps)
    E2 = []
    for s, d in dg2.edges:
        if int(s) != s:
            continue
        a = idx[s] if s <= offset and s in idx else idx[s - offset] + n
        b = idx[d] if d <= offset and d in idx else idx[d - offset] + n
        E2.append([a, b, units(dg2.edges[s, d]["latency"])])
    obs["E2"] = sorted(E2)
    cp = dgo.get_critical_path()
    obs["cpMarked"] = [idx[x.line_number] for x in cp]
    obs["cpCells"] = [[idx[x.line_number], units(x.latency_cp)] for x in cp]
    obs["cp"] = sum(c[1] for c in obs["cpCells"])
    # per-line critical-path shares (the LatencyCP column of both outputs) of lines that are NOT on the returned path
    onpath = set(id(x) for x in cp)
    obs["cpStray"] = [[idx[ins.line_number], units(ins.latency_cp)] for ins in kernel
                      if id(ins) not in onpath and getattr(ins, "latency_cp", 0)]
    lcd = dgo.get_loopcarried_dependencies()
    obs["lcd"] = [[units(v["latency"]), [idx[int(d.line_number)] for d, _ in v["dependencies"]]] for v in lcd.values()]
    obs["lcdEdgeLats"] = [[[idx[int(d.line_number)], units(l)] for d, l in v["dependencies"]] for v in lcd.values()]
    obs["lcdMax"] = max([x[0] for x in obs["lcd"]], default=0)
    obs["timed_out"] = bool(dgo.timed_out)
    return obs


def make_case(cid, obs, checks, k=None, extra=None):
    c = {"id": cid, "checks": list(checks), "n": obs["n"], "lat": obs["lat"], "latwo": obs["latwo"], "lds": obs["lds"],
         "E": obs["E"], "LE": obs["LE"], "E2": obs["E2"], "cp": obs["cp"], "cpMarked": obs["cpMarked"],
         "cpCells": obs["cpCells"], "cpStray": obs.get("cpStray", []), "lcd": obs["lcd"], "lcdMax": obs["lcdMax"]}
    if k is not None:
        c["k"] = k
        # for generated kernels the latencies are known by construction
        c["lat"], c["latwo"], c["lds"] = k["lat"], k["latwo"], k["lds"]
    if extra:
        c.update(extra)
    return c
