"""Parser of OSACA's text report (trusted, deliberately dumb; used by C11 and C13).

The column layout is taken from the report's own header line: the port-name line of the
"Combined Analysis Report" defines, for every port, where its cell begins, how wide it is and
which separator follows it ('|' between groups, '-' inside a group of ports that share a
number; rows then use ' ' where the header uses '-', the totals row uses ' ' everywhere).
Rows are read cell by cell against that layout; a cell that is wider than its column shifts
the rest of the row (the report does that for values whose integer part does not fit).

Numbers are never interpreted here beyond "text -> (digits, integer)" (cell_value)."""
import re

BLOCK_KEYS = [
    ("ArchWarn", "WARNING: No micro-architecture was specified"),
    ("LenWarn", "WARNING: You are analyzing a large amount of instruction forms"),
    ("LcdWarn", "WARNING: LCD analysis timed out"),
]
RE_MISSING = re.compile(r"WARNING: The performance data for (\d+) instructions is missing\.")
RE_NUM = re.compile(r"^-?\d+(\.\d+)?$")
RE_CPLCD = re.compile(r"^\|\s*([^\s|]*)\s*\|\s*([^\s|]*)\s*\|")


class LayoutError(Exception):
    pass


def cell_value(text):
    """'0.50' -> (2, 50); '12.0' -> (1, 120); '7' -> (0, 7).  None for anything else."""
    if text is None:
        return None
    t = text.strip()
    if not RE_NUM.match(t):
        return None
    neg = t.startswith("-")
    if neg:
        t = t[1:]
    if "." in t:
        a, b = t.split(".")
        d, n = len(b), int(a + b)
    else:
        d, n = 0, int(t)
    return (d, -n if neg else n)


def _parse_port_header(line):
    """'     |  0   |  3   - 3DV  ||  CP  | LCD  |' -> [(name, start, width, sep)], end position."""
    if "||" not in line:
        raise LayoutError("port header without '||': %r" % line)
    first = line.index("|")
    cols = []
    pos = first + 1
    end_ports = line.index("||")
    buf_start = pos
    i = pos
    while i <= end_ports:
        ch = line[i]
        if ch in "|-":
            name = line[buf_start:i]
            if name.strip() == "":
                raise LayoutError("empty port name in header %r" % line)
            cols.append((name.strip(), buf_start, i - buf_start, ch))
            buf_start = i + 1
        i += 1
    tail = line[end_ports + 2:]
    names = [x.strip() for x in tail.split("|")]
    if names[:2] != ["CP", "LCD"]:
        raise LayoutError("CP/LCD header not found in %r" % line)
    return cols, first


def _walk_ports(row, start, cols, first_sep, seps, accept=None):
    """Read the port cells of a row.  `start` is the index of the leading separator char.
    A value normally fills its column exactly and is followed by blank, separator, blank.  Two
    things make a value wider than its column: an integer part that leaves no room for decimals
    (printed as '{:.1f}' and followed by the separator without a blank), and rounding up to the
    next power of ten (9.9995 -> '10.000', followed by blank + separator as usual).  Both shift
    the rest of the row; for a wide value both continuations are tried and the one under which
    the rest of the row fits the header-defined layout (and `accept(row, pos)`) is taken."""
    if row[start:start + 1] != first_sep:
        raise LayoutError("expected %r at %d in %r" % (first_sep, start, row))

    def walk(i, pos):
        if i == len(cols):
            if accept is not None and not accept(row, pos):
                raise LayoutError("rest of the row does not fit after the port cells in %r" % row)
            return [], pos
        name, _, width, _ = cols[i]
        inner = width - 2
        if row[pos:pos + 1] != " ":
            raise LayoutError("expected blank before cell %s at %d in %r" % (name, pos, row))
        pos += 1
        field = row[pos:pos + inner]
        if field.strip() == "":
            cell, forms = None, [True]
            pos += inner
        else:
            if field[0] == " ":
                raise LayoutError("cell %s does not start in its column in %r" % (name, row))
            end = pos
            while end < len(row) and row[end] not in " |":
                end += 1
            cell = row[pos:end]
            if end - pos < inner:
                raise LayoutError("cell %s narrower than its column in %r" % (name, row))
            forms = [True] if end - pos == inner else [True, False]
            pos = end
        err = None
        for blank_first in forms:
            q = pos
            try:
                if blank_first:
                    if row[q:q + 1] != " ":
                        raise LayoutError("expected blank after cell %s at %d in %r" % (name, q, row))
                    q += 1
                if row[q:q + 1] != seps[i]:
                    raise LayoutError("expected separator %r after cell %s at %d in %r" % (seps[i], name, q, row))
                rest, endpos = walk(i + 1, q + 1)
                return [cell] + rest, endpos
            except LayoutError as e:
                err = err or e
        raise err

    return walk(0, start + 1)


def parse_report(text):
    """Returns a dict; `problems` lists everything that did not fit the header-defined layout."""
    lines = text.split("\n")
    rep = {"header": {}, "blocks": [], "ports": [], "rows": [], "totals": None, "missing": None,
           "lcd_list": [], "problems": [], "widths": []}
    n = len(lines)
    i = 0
    # ---- header: the wording of the title line is free; the header is the block that names the architecture
    idx_first_table = next((k for k, ln in enumerate(lines) if ln in ("Combined Analysis Report", "Throughput Analysis Report")), n)
    for ln in lines[:min(idx_first_table, 12)]:
        m = re.match(r"^(Analyzed file|Architecture|Timestamp):\s+(.*)$", ln)
        if m:
            rep["header"][m.group(1)] = m.group(2).strip()
    if "Architecture" in rep["header"]:
        rep["blocks"].append("Header")
        m = re.search(r"(\d+(\.\d+)+\S*)\s*$", lines[0]) if n else None
        rep["header"]["version"] = m.group(1) if m else ""
    # ---- locate sections
    idx_table = idx_lcd = None
    for k, ln in enumerate(lines):
        if ln == "Combined Analysis Report" and idx_table is None:
            idx_table = k
        if ln == "Loop-Carried Dependencies Analysis Report":
            idx_lcd = k  # the last one (an instruction comment cannot equal the whole line anyway)
    # warnings are recognised by what they are about, not by their exact wording (the statements fix when a
    # warning appears and that the missing-data warning states the number of instructions, not the text)
    for k, ln in enumerate(lines):
        if "WARNING:" not in ln or re.match(r"^\s*\d+ \|", ln):
            continue
        t = ln.split("WARNING:", 1)[1]
        m = re.search(r"(\d+)", t)
        if m and re.search(r"missing|performance data|no data", t, re.I):
            rep["blocks"].append((k, "MissingWarn"))
            rep["missing"] = int(m.group(1))
        elif re.search(r"micro-?architecture|--arch\b", t, re.I):
            rep["blocks"].append((k, "ArchWarn"))
        elif re.search(r"LCD|loop-carried", t) and re.search(r"tim(ed|e-?out)", t, re.I):
            rep["blocks"].append((k, "LcdWarn"))
        elif re.search(r"large (amount|number)|--lines|too many", t, re.I):
            rep["blocks"].append((k, "LenWarn"))
    if any(ln.startswith(" X - ") for ln in lines[: idx_table or n]):
        rep["legend"] = True
    # ---- table
    if idx_table is not None:
        rep["blocks"].append((idx_table, "Table"))
        try:
            hdr = lines[idx_table + 3]
            cols, first = _parse_port_header(hdr)
            rep["ports"] = [c[0] for c in cols]
            rep["widths"] = [c[2] - 2 for c in cols]
            rep["groups"] = [c[3] for c in cols]
            row_seps = ["|" if c[3] == "|" else " " for c in cols]
            tot_seps = [" " for _ in cols]
            k = idx_table + 5
            while k < n and lines[k].strip() != "":
                row = lines[k]
                m = re.match(r"^\s*(\d+) ", row)
                if not m:
                    rep["problems"].append("row without line number: %r" % row)
                    k += 1
                    continue
                try:
                    cells, pos = _walk_ports(row, m.end(), cols, "|", row_seps,
                                             accept=lambda r, p: RE_CPLCD.match(r[p:]) is not None)
                    m2 = RE_CPLCD.match(row[pos:])
                    if not m2:
                        raise LayoutError("CP/LCD cells not found in %r" % row)
                    rem = row[pos + m2.end():]
                    if rem[:1] != " ":
                        raise LayoutError("flag column missing in %r" % row)
                    if rem[1:2] in (" ", ""):
                        flags, txt = "", rem[3:]
                    else:
                        e = rem.find(" ", 1)
                        e = len(rem) if e < 0 else e
                        flags, txt = rem[1:e], rem[e + 1:]
                    rep["rows"].append({"line": int(m.group(1)), "cells": cells,
                                        "cp": m2.group(1) or None, "lcd": m2.group(2) or None,
                                        "flags": flags, "text": txt})
                except LayoutError as e:
                    rep["problems"].append(str(e))
                k += 1
            # after the blank line: totals row or missing-data warning
            k += 1
            if k < n and lines[k].strip() != "" and not lines[k].startswith("-"):
                row = lines[k]
                try:
                    cells, pos = _walk_ports(row, first, cols, " ", tot_seps)
                    rest = row[pos:].split()
                    if len(rest) != 2:
                        raise LayoutError("CP/LCD totals not found in %r" % row)
                    rep["totals"] = {"cells": cells, "cp": rest[0], "lcd": rest[1]}
                    rep["blocks"].append((k, "Totals"))
                except LayoutError as e:
                    rep["problems"].append("totals: " + str(e))
        except (LayoutError, IndexError) as e:
            rep["problems"].append("table: " + str(e))
    # ---- LCD list
    if idx_lcd is not None:
        rep["blocks"].append((idx_lcd, "LcdList"))
        for ln in lines[idx_lcd + 2:]:
            if ln.strip() == "":
                continue
            m = re.match(r"^\s*(\d+) \|\s*(\S+) \| (.*)\| \[([\d, ]*)\]$", ln)
            if not m:
                rep["problems"].append("LCD list row: %r" % ln)
                continue
            rep["lcd_list"].append({"root": int(m.group(1)), "lat": m.group(2), "text": m.group(3).rstrip(),
                                    "members": [int(x) for x in m.group(4).split(",") if x.strip()]})
    head = [b for b in rep["blocks"] if isinstance(b, str)]
    rest = sorted(b for b in rep["blocks"] if not isinstance(b, str))
    rep["blocks"] = head + [b[1] for b in rest]
    return rep
