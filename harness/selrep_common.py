"""Shared drivers for C11 (kernel selection) and C13 (report agreement).

Everything here either renders inputs, drives the real OSACA code, or projects results field by
field.  Expected values never come from here: they come from TLC (specs/Select*.tla,
specs/Report*.tla).

Driving `osaca.osaca.inspect` in-process: the real `inspect` is called with an argparse
namespace produced by OSACA's own `create_parser()/check_arguments()`.  Two module-level
collaborators of `osaca.osaca` (`KernelDG`, `Frontend`) are substituted from the outside by
recording subclasses that do nothing but remember the instance / the returned values, so the
harness can see the loop-carried-dependency dictionary (which the YAML output does not carry)
and the dict *before* YAML serialisation.  No file under /repo is touched."""
import concurrent.futures
import io
import math
import os
import re
import subprocess
import sys
import traceback

from harness import env

U = 12000  # units per cycle (DESIGN 3.2)

X86_TAGS = (".csx.", ".zen.", "x86")
ARM_TAGS = (".tx2.", "aarch64", "_arm_")


# ------------------------------------------------------------------------------ corpus
def corpus():
    """Shipped example/test kernels tracked by git in the repository under test:
    [(relative path, isa)]."""
    try:
        out = subprocess.run(["git", "-C", env.REPO, "ls-files", "examples", "tests/test_files"],
                             stdout=subprocess.PIPE, check=True).stdout.decode()
        files = [f for f in out.splitlines() if f.endswith(".s")]
    except Exception:
        files = []
    if not files:
        import glob
        files = [os.path.relpath(p, env.REPO) for p in
                 sorted(glob.glob(os.path.join(env.REPO, "examples", "*", "*.s")) +
                        glob.glob(os.path.join(env.REPO, "tests", "test_files", "*.s")))
                 if not p.endswith(".copy.s")]
    res = []
    for f in sorted(files):
        base = os.path.basename(f)
        if any(t in base for t in ARM_TAGS):
            res.append((f, "aarch64"))
        elif any(t in base for t in X86_TAGS):
            res.append((f, "x86"))
    return res


def read_kernel(rel):
    with open(os.path.join(env.REPO, rel)) as f:
        return f.read()


def archs_for(isa, tier):
    if tier == "quick":
        return list(env.QUICK_X86 if isa == "x86" else env.QUICK_ARM)
    return list(env.X86_ARCHS if isa == "x86" else env.ARM_ARCHS)


ARCH_ISA = {a: "x86" for a in env.X86_ARCHS + env.EMPTY_ARCHS}
ARCH_ISA.update({a: "aarch64" for a in env.ARM_ARCHS})


# ------------------------------------------------------------------------------ numbers
class Unrepresentable(Exception):
    pass


def units(x):
    """float cycles -> integer units of 1/12000 cycle; raises if further than 1e-6 cy away."""
    x = float(x)
    if math.isnan(x) or math.isinf(x):
        raise Unrepresentable(repr(x))
    u = round(x * U)
    if abs(u / U - x) > 1e-6 or abs(u) > 2000000000:
        raise Unrepresentable(repr(x))
    return int(u)


# ------------------------------------------------------------------------------ in-process inspect
_REC = {}


def _install_recorders():
    import osaca.osaca as oo

    if getattr(oo, "_selrep_recorders", False):
        return
    real_dg = oo.KernelDG
    real_fe = oo.Frontend

    class RecDG(real_dg):
        def __init__(self, *a, **k):
            _REC["dg"] = self
            super().__init__(*a, **k)

    class RecFE(real_fe):
        def full_analysis(self, kernel, *a, **k):
            _REC["kernel"] = kernel
            _REC["fe"] = self
            _REC["text_kwargs"] = dict(k)
            r = super().full_analysis(kernel, *a, **k)
            _REC["text"] = r
            return r

        def full_analysis_dict(self, kernel, *a, **k):
            r = super().full_analysis_dict(kernel, *a, **k)
            _REC["dict"] = r
            _REC["dict_kwargs"] = dict(k)
            return r

    oo.KernelDG = RecDG
    oo.Frontend = RecFE
    oo._selrep_recorders = True


class _NullYaml(io.StringIO):
    name = "<yaml>"


class _NoYAML:
    def __init__(self, *a, **k):
        pass

    def dump(self, data, stream=None):
        return None


def run_inspect(path, arch=None, lines=None, fixed=False, ignore_unknown=False, lcd_timeout=None,
                want_dict="direct", extra=()):
    # want_dict: "yaml"   inspect() produces the dict and dumps it as YAML (slow: pure-python YAML)
    #            "direct" inspect() produces the dict; the YAML class it would dump with is replaced by a no-op
    #            None     text report only
    """Run the real osaca.osaca.inspect in this process on file `path`.
    Returns dict(ok, text, dict, lcds, timed_out, error, argv)."""
    import osaca.osaca as oo

    _install_recorders()
    argv = []
    if arch:
        argv += ["--arch", arch]
    if lines:
        argv += ["--lines", lines]
    if fixed:
        argv += ["--fixed"]
    if ignore_unknown:
        argv += ["--ignore-unknown"]
    if lcd_timeout is not None:
        argv += ["--lcd-timeout", str(lcd_timeout)]
    argv += list(extra)
    argv += [path]
    _REC.clear()
    out = io.StringIO()
    res = {"argv": argv, "ok": False, "text": None, "dict": None, "lcds": None, "timed_out": None,
           "error": None, "where": None}
    try:
        ap = oo.create_parser()
        args = ap.parse_args(argv)
        oo.check_arguments(args, ap)
        real_yaml = oo.YAML
        if want_dict == "yaml":
            args.yaml_out = _NullYaml()  # inspect() then calls full_analysis_dict itself and dumps YAML
        elif want_dict == "direct":
            # inspect() itself calls full_analysis_dict (recorded by the Frontend stand-in); only the
            # slow pure-python YAML serialisation is replaced by a no-op collaborator
            args.yaml_out = _NullYaml()
            oo.YAML = _NoYAML
        try:
            try:
                oo.inspect(args, output_file=out)
            finally:
                oo.YAML = real_yaml
            if want_dict == "yaml":
                res["yaml_text"] = args.yaml_out.getvalue()
        finally:
            try:
                args.file.close()
            except Exception:
                pass
        res["ok"] = True
    except SystemExit as e:
        res["error"] = "SystemExit(%s)" % (e.code,)
        res["where"] = "argparse"
    except Exception as e:  # an exception where the property implies a result
        tb = traceback.extract_tb(sys.exc_info()[2])
        inner = [fr for fr in tb if "/osaca/" in fr.filename]
        fr = inner[-1] if inner else tb[-1]
        res["error"] = "%s: %s" % (type(e).__name__, e)
        res["where"] = "%s:%s" % (os.path.basename(fr.filename), fr.name)
    res["text"] = out.getvalue()
    res["dict"] = _REC.get("dict")
    dg = _REC.get("dg")
    if dg is not None and hasattr(dg, "loopcarried_deps"):
        res["timed_out"] = bool(dg.timed_out)
        try:
            res["lcds"] = project_lcds(dg.get_loopcarried_dependencies())
        except Exception as e:
            res["lcds_error"] = "%s: %s" % (type(e).__name__, e)
    return res


def _default_arch_of(text):
    m = re.search(r"^Architecture:\s+(\S+)", text, re.M)
    return m.group(1).lower() if m else None


def project_lcds(dep_dict):
    """KernelDG LCD dictionary -> [{key, lat(float), lines:[int], lats:[float]}]"""
    out = []
    for key, d in dep_dict.items():
        out.append({"key": key, "lat": float(d["latency"]),
                    "root": d["root"].line_number,
                    "lines": [n.line_number for n, _ in d["dependencies"]],
                    "lats": [float(l) for _, l in d["dependencies"]]})
    return out


# ------------------------------------------------------------------------------ pool helper
def pool_map(fn, jobs, workers=16):
    """Run fn over jobs in forked, non-daemonic worker processes (KernelDG may fork itself)."""
    if not jobs:
        return []
    import multiprocessing as mp

    ctx = mp.get_context("fork")
    with concurrent.futures.ProcessPoolExecutor(max_workers=min(workers, len(jobs)), mp_context=ctx) as ex:
        return list(ex.map(fn, jobs, chunksize=1))


# ------------------------------------------------------------------------------ rendering (C11)
NOP = {"x86": [100, 103, 144], "aarch64": [213, 3, 32, 31]}
OTHER_BYTE = 7
START_VAL, END_VAL = 111, 222

_X86 = {
    "i": ["addl $1, %eax", "vaddpd %xmm0, %xmm1, %xmm2", "\tmovq %rax, %rcx", "nop", "movl $111, (%rbx)"],
    "c": ["# some comment", "  # not OSACA-BEGIN", "#OSACA-BEGINX", "# OSACA-END marker", "# osaca-begin"],
    "l": [".L7:", "loop_start:", ".LBB0_1: # a label"],
    "d": [".p2align 4", ".align 16", "\t.p2align 4,,10"],
    "v": ["movl $112, %ebx", "movl $1111, %ebx", "mov $221, %ebx", "movl $0x6e, %ebx", "movl $11, %ebx"],
    "r": ["movl $111, %ecx", "movl $222, %eax", "mov $111, %edx", "movl $222, %ecx"],
    "S": ["movl $111, %ebx", "mov $111, %ebx", "movl $0x6f, %ebx", "movl      $111, %ebx # OSACA START MARKER",
          "\tmovl\t$111, %ebx\t# IACA START"],
    "E": ["movl $222, %ebx", "mov $222, %ebx", "movl $0xde, %ebx", "movl      $222, %ebx # OSACA END MARKER",
          "\tmovl\t$222, %ebx\t# IACA END"],
    "b": ["# OSACA-BEGIN", "#OSACA-BEGIN", "   # OSACA-BEGIN", "\t# OSACA-BEGIN  "],
    "e": ["# OSACA-END", "#OSACA-END", "   # OSACA-END", "\t# OSACA-END  "],
    "cm": "#",
}
_A64 = {
    "i": ["add x0, x0, #1", "fadd d0, d1, d2", "\tldr x3, [x4, #8]", "nop", "mov x7, x1"],
    "c": ["// some comment", "  // not OSACA-BEGIN", "//OSACA-BEGINX", "// OSACA-END marker", "// osaca-begin"],
    "l": [".L7:", "loop_start:", ".LBB0_1: // a label"],
    "d": [".p2align 4", ".align 4", "\t.p2align 3,,7"],
    "v": ["mov x1, #112", "mov x1, #1111", "mov x1, #221", "mov x1, #0x6e", "mov x1, #11"],
    "r": ["mov x2, #111", "mov x3, #222", "mov x11, #111", "mov x0, #222"],
    "S": ["mov x1, #111", "mov x1, 111", "mov x1, #0x6f", "mov       x1, #111    // OSACA START MARKER",
          "\tmov\tx1, #111\t// IACA START"],
    "E": ["mov x1, #222", "mov x1, 222", "mov x1, #0xde", "mov       x1, #222    // OSACA END MARKER",
          "\tmov\tx1, #222\t// IACA END"],
    "b": ["// OSACA-BEGIN", "//OSACA-BEGIN", "   // OSACA-BEGIN", "\t// OSACA-BEGIN  "],
    "e": ["// OSACA-END", "//OSACA-END", "   // OSACA-END", "\t// OSACA-END  "],
    "cm": "//",
}
TABLE = {"x86": _X86, "aarch64": _A64}


def byte_variants(vals, isa):
    cm = TABLE[isa]["cm"]
    dec = [str(v) for v in vals]
    hx = [hex(v) for v in vals]
    return [".byte " + ",".join(dec), ".byte " + ", ".join(dec), "\t.byte\t" + ",".join(hx),
            ".byte     " + ",".join(dec) + "        " + cm + " OSACA MARKER"]


def render_code(code, isa, rnd):
    """One abstract line code (Select.tla: Code) -> assembly text; the layout variant is seeded."""
    if code.startswith("B"):
        vals = [OTHER_BYTE if ch == "0" else NOP[isa][int(ch) - 1] for ch in code[1:]]
        return rnd.choice(byte_variants(vals, isa))
    return rnd.choice(TABLE[isa][code])


def all_variants(isa):
    """(code, text) for every rendering variant (self-test of the renderer)."""
    out = []
    for code, vs in TABLE[isa].items():
        if code == "cm":
            continue
        out += [(code, v) for v in vs]
    n = len(NOP[isa])
    for code in ["B0", "B" + "".join(str(i) for i in range(1, n + 1)), "B" + "".join(str(i) for i in range(1, n))]:
        vals = [OTHER_BYTE if ch == "0" else NOP[isa][int(ch) - 1] for ch in code[1:]]
        out += [(code, v) for v in byte_variants(vals, isa)]
    return out


def render_file(codes, isa, rnd, blank_p=0.0):
    """codes -> (text, line_numbers) where line_numbers[p-1] is the file line of the p-th
    non-blank line.  Blank lines are inserted with probability blank_p before each line."""
    out, lnos = [], []
    for c in codes:
        while blank_p and rnd.random() < blank_p:
            out.append(rnd.choice(["", "   ", "\t"]))
        out.append(render_code(c, isa, rnd))
        lnos.append(len(out))
    if blank_p and rnd.random() < blank_p:
        out.append("")
    return "\n".join(out) + ("\n" if rnd.random() < 0.7 else ""), lnos


def code_to_rec(code):
    kinds = {"i": "instr", "S": "startmov", "E": "endmov", "v": "movval", "r": "movreg", "d": "directive",
             "b": "begincmt", "e": "endcmt", "c": "comment", "l": "label"}
    if code.startswith("B"):
        return {"k": "bytes", "b": [int(ch) for ch in code[1:]]}
    return {"k": kinds[code], "b": []}


class MemoParser:
    """The real parser with parse_line memoised per line text (parse_file itself is the real one:
    blank-line skipping and line numbering are the code's)."""

    def __init__(self, isa):
        import copy

        from osaca.parser import ParserAArch64, ParserX86ATT

        self.p = ParserX86ATT() if isa == "x86" else ParserAArch64()
        real = type(self.p).parse_line
        cache = {}
        p = self.p

        def memo(line, line_number=None):
            f = cache.get(line)
            if f is None:
                f = cache[line] = real(p, line, None)
            g = copy.copy(f)
            g._line_number = line_number
            return g

        self.p.parse_line = memo

    def parse_file(self, text):
        return self.p.parse_file(text)


# ------------------------------------------------------------------------------ classification (C11, shipped files)
def classify(text, isa):
    """Raw assembly text -> [(line_number, rec)] for the non-blank lines (trusted regex
    classification into the line kinds of Select.tla; marker byte values map to 1..n, others to 0)."""
    out = []
    cm = "#" if isa == "x86" else "//"
    if isa == "x86":
        re_mov = re.compile(r"^\s*movl?\s+\$(0x[0-9a-fA-F]+|\d+)\s*,\s*%(\w+)\s*(#.*)?$")
    else:
        re_mov = re.compile(r"^\s*mov\s+(\w+)\s*,\s*#?(0x[0-9a-fA-F]+|\d+)\s*(//.*)?$")
    marker_reg = "ebx" if isa == "x86" else "x1"
    for no, raw in enumerate(text.split("\n"), 1):
        if raw.strip() == "":
            continue
        s = raw.strip()
        rec = None
        if s.startswith(cm) or (isa == "aarch64" and s.startswith("/*")):
            body = " ".join(s[len(cm):].split())
            rec = {"k": "begincmt" if body == "OSACA-BEGIN" else "endcmt" if body == "OSACA-END" else "comment", "b": []}
        elif re.match(r"^[\w.$@]+\s*:", s) and not s.startswith(".byte"):
            rec = {"k": "label", "b": []}
        elif re.match(r"^\.byte\b", s):
            params = s[len(".byte"):].split(cm)[0]
            vals = []
            for x in params.split(","):
                x = x.strip()
                try:
                    v = int(x, 0)
                except ValueError:
                    v = -1
                vals.append(NOP[isa].index(v) + 1 if v in NOP[isa] else 0)
            rec = {"k": "bytes", "b": vals}
        elif s.startswith("."):
            rec = {"k": "directive", "b": []}
        else:
            m = re_mov.match(s)
            if m:
                val, reg = (m.group(1), m.group(2)) if isa == "x86" else (m.group(2), m.group(1))
                v = int(val, 0)
                if reg == marker_reg and v == START_VAL:
                    rec = {"k": "startmov", "b": []}
                elif reg == marker_reg and v == END_VAL:
                    rec = {"k": "endmov", "b": []}
                elif reg == marker_reg:
                    rec = {"k": "movval", "b": []}
                elif v in (START_VAL, END_VAL):
                    rec = {"k": "movreg", "b": []}
            if rec is None:
                rec = {"k": "instr", "b": []}
        out.append((no, rec))
    # marker byte values must appear in marker order to count: keep the literal abstraction
    # (value -> index in the NOP list); Select.tla compares with <<1..n>>
    return out


# ------------------------------------------------------------------------------ projections
def uc(x):
    """cycles -> integer micro-cycles (used where only equality matters: C11)."""
    return int(round(float(x) * 1000000))


def project_analysis(res, name):
    """One inspect() result -> the line-number-free numeric analysis of Select.tla (NumFields).
    Instruction ordinals replace line numbers."""
    from harness import report_parse

    d = res["dict"]
    rep = report_parse.parse_report(res["text"])
    if rep["problems"]:
        raise ValueError("report layout: %s" % rep["problems"][:2])
    ports = d["Target"]["Ports"]
    instr = [e for e in d["Kernel"] if e["Instruction"] is not None]
    ordinal = {e["LineNumber"]: i + 1 for i, e in enumerate(instr)}
    rows_by_line = {r["line"]: r for r in rep["rows"]}
    v = {"name": name}
    v["instrs"] = [" ".join(e["Line"].split()) for e in instr]
    v["rows"] = [[uc(e["PortPressure"][p]) for p in ports] for e in instr]
    v["lat"] = [[uc(e["Latency"]), uc(e["LatencyCP"]), uc(e["Throughput"]), uc(e["LatencyWithoutLoad"])] for e in instr]
    v["flags"] = [sorted(str(f) for f in e["Flags"]) for e in instr]

    def cell(t):
        return -1 if t is None else uc(float(t))

    v["cpcell"] = [cell(rows_by_line[e["LineNumber"]]["cp"]) for e in instr]
    v["lcdcell"] = [cell(rows_by_line[e["LineNumber"]]["lcd"]) for e in instr]
    v["marks"] = [rows_by_line[e["LineNumber"]]["flags"] for e in instr]
    v["sum"] = [uc(d["Summary"]["PortPressure"][p]) for p in ports]
    if rep["totals"] is None:
        v["tsum"] = [-2]
    else:
        v["tsum"] = [cell(t) for t in rep["totals"]["cells"]] + [cell(rep["totals"]["cp"]), cell(rep["totals"]["lcd"])]
    v["cp"] = uc(d["Summary"]["CriticalPath"])
    v["lcd"] = uc(d["Summary"]["LCD"])
    lc = []
    for l in res["lcds"] or []:
        lc.append([uc(l["lat"]), [ordinal.get(x, 0) for x in l["lines"]], [uc(x) for x in l["lats"]]])
    v["lcds"] = sorted(lc)
    # non-instruction lines must carry no numbers at all
    v["noninstr_clean"] = all(
        all(float(x) == 0.0 for x in e["PortPressure"].values()) and float(e["Latency"]) == 0.0
        and float(e["LatencyCP"]) == 0.0 for e in d["Kernel"] if e["Instruction"] is None)
    v["lines"] = [e["LineNumber"] for e in d["Kernel"]]
    return v


# ------------------------------------------------------------------------------ private sandbox
def use_private_home(prefix="selrep"):
    """A sandbox HOME of our own, keyed by the code hash of the tree under test.  The default
    sandbox of harness/env.py is pruned whenever a check runs against a tree with another code
    hash (e.g. a concurrent mutation run), which removes the model files under a running check.
    osaca.utils froze the data directories at import time, so they are re-pointed in place."""
    import shutil
    import time

    name = "%s-%s" % (prefix, env.code_hash())
    base = os.path.join(env.WORK, "home")
    if os.path.isdir(base):
        for d in os.listdir(base):
            p = os.path.join(base, d)
            if d.startswith(prefix + "-") and d != name and time.time() - os.path.getmtime(p) > 3 * 3600:
                shutil.rmtree(p, ignore_errors=True)
    home = env.sandbox_home(tag=name)
    os.utime(home, None)
    os.environ["HOME"] = home
    import osaca.utils as u

    u.DATA_DIRS[0] = os.path.join(home, ".osaca", "data")
    u.CACHE_DIR = os.path.join(home, ".osaca", "cache")
    return home
