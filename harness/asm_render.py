"""AST -> assembly text (trusted harness code, deliberately dumb; DESIGN 3.4).

The ASTs are the ones of specs/AsmSyntax.tla (JSON form).  A Layout fixes every spelling choice
that must NOT matter according to C09/C10: leading/trailing blanks, blanks or tabs between
mnemonic and operands, spacing around operand separators (also inside memory references and
register lists), case of hexadecimal digits, and a trailing comment.  Expected values never come
from here: they are computed by TLC from the AST (AsmSyntax!Canon).

Only text a real assembler accepts is produced (the statements quantify over valid lines).
"""
import random

HEX = "0123456789abcdef"

X86_COMMENT_WORDS = ["c", "LLVM-MCA-BEGIN", "x:", "foo,", "$1", "%rax", "(%rbx)", "1.5", ".L3", "OSACA-END", "#", "mov"]
A64_COMMENT_WORDS = ["c", "LLVM-MCA-END", "x:", "foo,", "#1", "x0", "[x1]", "1.5", ".L4", "OSACA-BEGIN", "eq", "{v0.2d}"]


class Layout(object):
    """All spelling choices of one rendered line."""

    def __init__(self, lead="", sep=" ", comma=", ", inner=", ", trail="", comment=None, gap=" ",
                 hexupper=False, dash=" - ", brace=""):
        self.lead, self.sep, self.comma, self.inner = lead, sep, comma, inner
        self.trail, self.comment, self.gap = trail, comment, gap
        self.hexupper, self.dash, self.brace = hexupper, dash, brace

    @staticmethod
    def plain():
        return Layout()

    @staticmethod
    def random(rnd, isa, want_comment=None):
        words = X86_COMMENT_WORDS if isa == "x86" else A64_COMMENT_WORDS
        comment = None
        if want_comment is None:
            want_comment = rnd.random() < 0.4
        if want_comment:
            marker = rnd.choice(["#", "#", "//"]) if isa == "x86" else "//"
            n = rnd.randint(0, 3)
            text = " ".join(rnd.choice(words) for _ in range(n))
            comment = marker + rnd.choice(["", " "]) + text
        return Layout(
            lead=rnd.choice(["", "", "  ", "\t", "    ", "\t\t", " \t"]),
            sep=rnd.choice([" ", " ", "\t", "  ", " \t", "\t\t", "     "]),
            comma=rnd.choice([",", ", ", ", ", " , ", ",\t", ",  ", " ,", "\t,\t"]),
            inner=rnd.choice([",", ", ", ", ", " , ", ",  "]),
            trail=rnd.choice(["", "", " ", "\t", "   "]),
            comment=comment,
            gap=rnd.choice([" ", " ", "\t", "  ", ""]),
            hexupper=rnd.random() < 0.5,
            dash=rnd.choice([" - ", "-", " -", "- "]),
            brace=rnd.choice(["", "", " "]),
        )

    def has_trailing_text(self):
        return bool(self.trail) or self.comment is not None

    def describe(self):
        return {k: getattr(self, k) for k in ("lead", "sep", "comma", "inner", "trail", "comment", "gap",
                                             "hexupper", "dash", "brace")}


def _digits(num, lay):
    ds = num["ds"]
    if num["base"] == 16:
        body = "".join(HEX[d] for d in ds)
        if lay.hexupper:
            body = body.upper()
        body = "0x" + body
    else:
        body = "".join(str(d) for d in ds)
    return ("-" if num["neg"] else "") + body


# ------------------------------------------------------------------ x86 AT&T
def x86_operand(op, lay):
    k = op["k"]
    if k == "reg":
        return "%" + op["name"]
    if k == "imm":
        return "$" + _digits(op, lay)
    if k == "immsym":
        return "$" + op["name"]
    if k == "sym":
        return op["name"]
    if k == "mem":
        s = ""
        if op["disp"]:
            d = op["disp"][0]
            s += _digits(d, lay) if d["k"] == "num" else d["name"]
        if not op["base"] and not op["index"]:
            assert op["disp"] and op["scale"] == 0
            return s  # displacement only: the bare number
        s += "("
        if op["base"]:
            s += "%" + op["base"][0]
        if op["index"]:
            s += lay.inner + "%" + op["index"][0]
            if op["scale"]:
                s += lay.inner + str(op["scale"])
        else:
            assert op["scale"] == 0
        s += ")"
        return s
    raise ValueError(k)


# ------------------------------------------------------------------ AArch64
def a64_reg(r):
    if r["num"] >= 0:
        s = r["prefix"] + str(r["num"])
    else:
        s = r["prefix"] + r["name"]
    if r["shape"]:
        s += "." + r["lanes"] + r["shape"]
    if r["pred"]:
        s += "/" + r["pred"]
    if r["index"] >= 0:
        s += "[%d]" % r["index"]
    return s


def _hnum(n, lay):
    return ("#" if n["hash"] else "") + _digits(n, lay)


def a64_operand(op, lay):
    k = op["k"]
    if k == "reg":
        return a64_reg(op)
    if k == "list":
        body = lay.inner.join(a64_reg(dict(e, index=-1)) for e in op["elems"])
        return "{" + lay.brace + body + lay.brace + "}" + ("[%d]" % op["index"] if op["index"] >= 0 else "")
    if k == "range":
        first = dict(op["first"], index=-1)
        last = dict(first, num=first["num"] + op["count"] - 1)
        return ("{" + lay.brace + a64_reg(first) + lay.dash + a64_reg(last) + lay.brace + "}"
                + ("[%d]" % op["index"] if op["index"] >= 0 else ""))
    if k == "imm":
        return _hnum(op, lay)
    if k == "fimm":
        s = ("#" if op["hash"] else "") + ("-" if op["neg"] else "")
        s += "".join(str(d) for d in op["ip"]) + "." + "".join(str(d) for d in op["fp"])
        if op["hasexp"]:
            s += "e" + ("-" if op["eneg"] else "+") + str(op["e"])
        return s
    if k == "cond":
        return op["cc"].lower() if op["lower"] else op["cc"]
    if k == "sym":
        return op["name"]
    if k == "mem":
        s = "[" + a64_reg(op["base"])
        if op["off"]:
            s += lay.inner + _hnum(op["off"][0], lay)
        if op["idx"]:
            s += lay.inner + a64_reg(op["idx"][0])
            if op["ext"]:
                s += lay.inner + op["ext"]
                if op["amt"] >= 0:
                    s += " #%d" % op["amt"]
        s += "]"
        if op["mode"] == "pre":
            s += "!"
        elif op["mode"] == "post":
            s += lay.inner + _hnum(op["post"][0], lay)
        return s
    raise ValueError(k)


OPERAND = {"x86": x86_operand, "aarch64": a64_operand}


def instruction(isa, mnem, ops, lay):
    """one instruction line"""
    s = lay.lead + mnem
    if ops:
        s += lay.sep + lay.comma.join(OPERAND[isa](o, lay) for o in ops)
    if lay.comment is not None:
        s += lay.gap + lay.comment
    s += lay.trail
    return s


# ------------------------------------------------------------------ non-instruction lines
X86_LABELS = [".L3", "main", "..B1.4", "_Z3foov", ".LBB0_2", "1", "kernel_loop", "foo.cold", "L$1"]
A64_LABELS = [".L4", "main", ".LBB0_3", "_start", "loop", "kernel.end", "triad_", "L1"]
X86_DIRECTIVES = [".text", ".globl main", ".p2align 4,,15", ".align 16", ".byte 100,103,144",
                  ".cfi_startproc", ".type main, @function", ".size main, .-main", ".long 1072693248",
                  '.ident "GCC: (GNU) 9.1.0"', '.section .rodata.cst8,"aM",@progbits,8', ".quad .L3",
                  '.file "triad.c"', ".cfi_def_cfa_offset 16", ".set x, 8", '.string "a # b"']
A64_DIRECTIVES = [".text", ".global main", ".p2align 3,,7", ".align 2", ".word 1", ".cfi_startproc",
                  ".type main, %function", ".size main, .-main", ".arch armv8.2-a+sve", '.ident "GCC: (GNU) 9.1.0"',
                  '.section .rodata.cst8,"aM",@progbits,8', ".xword .L4", '.file "triad.c"',
                  ".cfi_def_cfa_offset 16", ".byte 213,3,32,31", '.string "a // b"']


def _comment_marker(rnd, isa):
    return rnd.choice(["#", "#", "//"]) if isa == "x86" else "//"


def blank_line(rnd, variant=None):
    if variant == "empty":
        return ""
    if variant == "ws":
        return rnd.choice([" ", "\t", "   ", " \t "])
    return rnd.choice(["", "", " ", "\t", "   ", " \t "])


def comment_line(rnd, isa):
    words = X86_COMMENT_WORDS if isa == "x86" else A64_COMMENT_WORDS
    n = rnd.randint(0, 4)
    return (rnd.choice(["", "", "  ", "\t"]) + _comment_marker(rnd, isa) + rnd.choice(["", " "])
            + " ".join(rnd.choice(words) for _ in range(n)) + rnd.choice(["", "", " "]))


def label_line(rnd, isa, with_comment=None):
    name = rnd.choice(X86_LABELS if isa == "x86" else A64_LABELS)
    s = rnd.choice(["", "", " ", "\t"]) + name + ":"
    if with_comment is None:
        with_comment = rnd.random() < 0.3
    if with_comment:
        s += rnd.choice([" ", "\t", "  "]) + _comment_marker(rnd, isa) + " " + rnd.choice(["c", "loop head", "=>This Inner Loop Header: Depth=1"])
    return s + rnd.choice(["", "", " "])


def directive_line(rnd, isa):
    d = rnd.choice(X86_DIRECTIVES if isa == "x86" else A64_DIRECTIVES)
    s = rnd.choice(["", "\t", "  ", "\t"]) + d
    if rnd.random() < 0.2 and '"' not in d:
        s += rnd.choice([" ", "\t"]) + _comment_marker(rnd, isa) + " c"
    return s + rnd.choice(["", "", " "])
