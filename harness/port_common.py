"""Shared helpers of the port-pressure checks C01, C02 and C15.

Nothing in here computes an expected value: this module renders abstract port models to YAML,
drives the real OSACA code, projects what it returns onto the integer lattice of DESIGN 3.2
(1/12000 cycle) and exports the shipped model files by an independent plain-YAML load.
All expected values come from TLC (specs/PortModel.tla, PortSched.tla, ModelData.tla)."""
import concurrent.futures
import glob
import hashlib
import json
import os
import random
import re
import traceback

from harness import env

UNIT = 12000
STEP = 120
TOL = 1e-6  # cycles: distance to the lattice beyond which a value is unrepresentable


class Unrepresentable(Exception):
    pass


def units(x, unit=UNIT):
    """float cycles -> integer lattice units; raises Unrepresentable beyond TOL."""
    if isinstance(x, bool) or not isinstance(x, (int, float)):
        raise Unrepresentable("not a number: %r" % (x,))
    v = x * unit
    r = round(v)
    if abs(v - r) > TOL * unit or abs(r) > 2_000_000_000:
        raise Unrepresentable("%r is not on the 1/%d lattice" % (x, unit))
    return int(r)


def port_list(p):
    """The port collection of a micro-op as OSACA iterates it: a string is one port per
    character, a list one port per item."""
    if isinstance(p, str):
        return list(p)
    return [str(x) for x in p]


# ------------------------------------------------------------------ YAML-flow writer
def _flow(v):
    """JSON-like YAML flow text, but mapping keys that are ints stay ints (alternative
    port assignments are written {0: [...], 1: [...]} in the shipped models)."""
    if isinstance(v, dict):
        return "{" + ", ".join("%s: %s" % (k if isinstance(k, int) else json.dumps(str(k)), _flow(x))
                               for k, x in v.items()) + "}"
    if isinstance(v, (list, tuple)):
        return "[" + ", ".join(_flow(x) for x in v) + "]"
    if v is None:
        return "null"
    if isinstance(v, bool):
        return "true" if v else "false"
    if isinstance(v, (int, float)):
        return repr(v)
    return json.dumps(str(v))


def write_yaml(path, data):
    with open(path, "w") as f:
        for k, v in data.items():
            if k == "instruction_forms":
                f.write("instruction_forms:\n")
                for e in v:
                    f.write("- " + _flow(e) + "\n")
            else:
                f.write("%s: %s\n" % (k, _flow(v)))
    return path


# ------------------------------------------------------------------ abstract port models
# model = {"ports": [names], "forms": [form, ...], optional "mem": {...}}
# form  = {"alts": [[ [cycles, [port numbers 1..N]], ...], ...], "tp": float|None, "lat": float|None}
#         one alternative -> list form in the YAML, several -> dict form {0: ..., 1: ...}
GPR = {"class": "register", "name": "gpr"}


def _render_ports(model, nums, style):
    names = [model["ports"][q - 1] for q in nums]
    if style == "str" and all(len(n) == 1 for n in names):
        return "".join(names)
    return names


def render_uops(model, uops, style="str"):
    return [[c, _render_ports(model, ps, style)] for c, ps in uops]


def render_model(path, model, styles=None):
    """Write the synthetic arch model; form k is `opK gpr, gpr`."""
    forms = []
    for k, fm in enumerate(model["forms"]):
        st = (styles or {}).get(k, "str")
        if len(fm["alts"]) == 1:
            pp = render_uops(model, fm["alts"][0], st)
        else:
            pp = {a: render_uops(model, alt, st) for a, alt in enumerate(fm["alts"])}
        forms.append({"name": "op%d" % k, "operands": [dict(GPR), dict(GPR)],
                      "throughput": fm.get("tp", 1.0), "latency": fm.get("lat", 1.0),
                      "port_pressure": pp, "uops": None})
    mem = model.get("mem") or {}
    for k, fm in enumerate(mem.get("regforms", [])):
        # register-only form `ldK xmm, xmm` whose memory variant is composed from the load table
        forms.append({"name": "ld%d" % k, "operands": [{"class": "register", "name": fm["reg"]},
                                                         {"class": "register", "name": fm["reg"]}],
                      "throughput": fm.get("tp", 1.0), "latency": fm.get("lat", 1.0),
                      "port_pressure": render_uops(model, fm["uops"], "list"), "uops": None})
    if mem.get("rmw"):
        # register-only form of a real read-modify-write mnemonic (the shipped ISA database says that its last
        # operand is read and written): `addq %rax, 8(%rbx)` is composed from it, the load AND the store table
        forms.append({"name": "addq", "operands": [dict(GPR), dict(GPR)],
                      "throughput": mem["rmw"].get("tp", 1.0), "latency": mem["rmw"].get("lat", 1.0),
                      "port_pressure": render_uops(model, mem["rmw"]["uops"], "list"), "uops": None})
    data = {
        "osaca_version": "0.5.0", "micro_architecture": "synthetic", "arch_code": "syn", "isa": "x86",
        "ROB_size": 100, "retired_uOps_per_cycle": 4, "scheduler_size": 60, "hidden_loads": False,
        "load_latency": {"gpr": 4.0, "mm": 4.0, "xmm": 4.0, "ymm": 4.0, "zmm": 4.0},
        "load_throughput": [], "load_throughput_default": render_uops(model, mem.get("load", []), "list"),
        "store_throughput": [], "store_throughput_default": render_uops(model, mem.get("store", []), "list"),
        "ports": list(model["ports"]), "port_model_scheme": "synthetic",
    }
    if mem.get("load_mult"):
        data["load_throughput_multiplier"] = dict(mem["load_mult"])
    if mem.get("store_mult"):
        data["store_throughput_multiplier"] = dict(mem["store_mult"])
    data["instruction_forms"] = forms
    return write_yaml(path, data)


REGS = ["%rax", "%rbx", "%rcx", "%rdx", "%rsi", "%rdi", "%r8", "%r9", "%r10", "%r11", "%r12", "%r13"]


def render_kernel(kernel, rnd=None, extras=False):
    """kernel: list of items; int k -> `opK r, r`; ("ld", k, reg) / ("st", k, reg) memory forms;
    ("unknown",) an instruction the model does not know; ("comment",) / ("label",) non-instruction
    lines.  Returns assembly text (AT&T)."""
    out = []
    for n, it in enumerate(kernel):
        a, b = REGS[(2 * n) % len(REGS)], REGS[(2 * n + 1) % len(REGS)]
        if isinstance(it, int):
            out.append("op%d %s, %s" % (it, a, b))
        elif it[0] == "ld":
            r = {"xmm": "%xmm", "ymm": "%ymm", "gpr": None}[it[2]]
            out.append("ld%d %d(%s), %s%d" % (it[1], 8 * n, a, r, n % 8))
        elif it[0] == "st":
            r = {"xmm": "%xmm", "ymm": "%ymm"}[it[2]]
            out.append("ld%d %s%d, %d(%s)" % (it[1], r, n % 8, 8 * n, a))
        elif it[0] == "rmw":
            out.append("addq %s, %d(%s)" % (a, 8 * n, b))
        elif it[0] == "unknown":
            out.append("zzunknown %s, %s" % (a, b))
        elif it[0] == "comment":
            out.append("# just a comment %d" % n)
        elif it[0] == "label":
            out.append(".L%d:" % n)
        else:
            raise ValueError(it)
    return "\n".join(out) + "\n"


# ------------------------------------------------------------------ projection
def project_uops(uops, ports, mult2=2):
    """OSACA micro-op list [[cycles, ports], ...] -> [{"c","p","m"}] with port numbers 1..N.
    Raises Unrepresentable / KeyError for things the lattice cannot express."""
    out = []
    for u in uops:
        cyc, ps = u[0], u[1]
        out.append({"c": units(cyc), "p": [ports.index(x) + 1 for x in port_list(ps)], "m": mult2})
    return out


def project_alts(port_uops, ports):
    if isinstance(port_uops, dict):
        return [project_uops(v, ports) for v in port_uops.values()]
    return [project_uops(port_uops, ports)]


def project_row(row):
    return [units(v) for v in row]


def snapshot(kernel, ports, totals):
    """Project the observable state of an analysed kernel: per line (tp != 0, row, micro-op
    alternatives), and the totals as returned by the code."""
    lines = []
    for ins in kernel:
        lines.append({
            "tp": 1 if ins.throughput != 0.0 else 0,
            "row": project_row(ins.port_pressure),
            "alts": project_alts(ins.port_uops, ports),
        })
    return {"lines": lines, "totals": project_row(totals) if totals else [0] * len(ports)}


def dict_snapshot(d, ports):
    """Projection of Frontend.full_analysis_dict(): rows by port *name*, micro-ops from PortUops,
    totals from Summary."""
    lines = []
    for k in d["Kernel"]:
        assert list(k["PortPressure"].keys()) == list(ports), (list(k["PortPressure"].keys()), ports)
        lines.append({
            "tp": 1 if k["Throughput"] != 0.0 else 0,
            "row": [units(k["PortPressure"][p]) for p in ports],
            "alts": [[{"c": units(u["Cycles"]), "p": [ports.index(x) + 1 for x in u["Ports"]], "m": 2}
                      for u in k["PortUops"]]],
        })
    s = d["Summary"]["PortPressure"]
    assert list(s.keys()) == list(ports)
    return {"lines": lines, "totals": [units(s[p]) for p in ports]}


def exc_text(e):
    return "%s: %s" % (type(e).__name__, e)


def exc_where(e):
    tb = traceback.extract_tb(e.__traceback__)
    for fr in reversed(tb):
        if "/osaca/" in fr.filename:
            return "%s:%s" % (os.path.basename(fr.filename), fr.name)
    return "harness"


# ------------------------------------------------------------------ driving the real code
def observe(mm, sem, parser, text, yaml_path=None, arch=None, stages=("uniform", "opt1", "opt2"),
            e2e=True, e2e_max_lines=80):
    """Run the real pipeline on `text` and return {stage: snapshot | {"error", "where"}}.
    Stages: uniform (after add_semantics), opt1 / opt2 (after one / two calls of
    assign_optimal_throughput), dict-uniform / dict-opt2 (Frontend.full_analysis_dict, i.e. what
    `--fixed` and the default CLI configuration report)."""
    from osaca.semantics import ArchSemantics, KernelDG
    from osaca.frontend import Frontend

    ports = list(mm.get_ports())
    out = {}
    if text.count("\n") > e2e_max_lines:
        e2e = False  # the dictionary needs the dependency graph / LCD search: only for short kernels

    def fresh():
        k = parser.parse_file(text)
        sem.add_semantics(k)
        return k

    def guarded(stage, fn):
        try:
            out[stage] = fn()
            return True
        except Unrepresentable as e:
            out[stage] = {"unrepresentable": str(e)}
        except Exception as e:  # an exception of the code under test is an observation
            out[stage] = {"error": exc_text(e), "where": exc_where(e)}
        return False

    kernel = None

    def s_uniform():
        nonlocal kernel
        kernel = fresh()
        return snapshot(kernel, ports, ArchSemantics.get_throughput_sum(kernel))

    if not guarded("uniform", s_uniform):
        return out

    def do_dict(k):
        dg = KernelDG(k, parser, mm, sem, 10, False)
        fe = Frontend(path_to_yaml=yaml_path) if yaml_path else Frontend(arch=arch)
        return dict_snapshot(fe.full_analysis_dict(k, dg), ports)

    if e2e:
        guarded("dict-uniform", lambda: do_dict(kernel))
    npass = 0
    for stage in ("opt1", "opt2"):
        if stage not in stages:
            break

        def s_opt():
            sem.assign_optimal_throughput(kernel)
            return snapshot(kernel, ports, ArchSemantics.get_throughput_sum(kernel))

        if not guarded(stage, s_opt):
            return out
        npass += 1
    if e2e and npass == 2:
        guarded("dict-opt2", lambda: do_dict(kernel))
    return out


# ------------------------------------------------------------------ random synthetic models
def random_model(rnd, multi=True):
    """2-6 ports incl. multi-character names, overlapping/nested/disjoint port sets, 1-3
    micro-ops, cycles in {0.5,1,2,3}, alternative assignments, forms without throughput."""
    n = rnd.randint(2, 6)
    pool = ["0", "1", "2", "3", "4", "5", "6", "7"]
    names = []
    for i in range(n):
        nm = pool[i]
        r = rnd.random()
        if r < 0.2:
            nm = nm + "D"
        elif r < 0.3:
            nm = nm + "DV"
        names.append(nm)
    rnd.shuffle(names)
    model = {"ports": names, "forms": []}
    # a port whose name is the concatenation of two one-character port names (shipped zen3 has the
    # ports '1', '2' and '12'): the port string "12" of a micro-op still means the ports 1 and 2
    single = [i for i, nm in enumerate(names) if len(nm) == 1]
    ambig = None
    if n >= 3 and len(single) >= 2 and rnd.random() < 0.3:
        i, j = rnd.sample(single, 2)
        k = rnd.choice([q for q in range(n) if q not in (i, j)])
        names[k] = names[i] + names[j]
        ambig = [i + 1, j + 1]

    def pset():
        k = rnd.randint(1, n)
        return rnd.sample(range(1, n + 1), k)

    def uops():
        nu = rnd.choice([1, 1, 1, 2, 2, 3]) if multi else 1
        us = []
        base = pset()
        for _ in range(nu):
            kind = rnd.random()
            if kind < 0.35 and us:  # nested in / overlapping with an earlier set
                b = us[-1][1]
                ps = rnd.sample(b, rnd.randint(1, len(b)))
                if rnd.random() < 0.5:
                    extra = [q for q in range(1, n + 1) if q not in ps]
                    if extra:
                        ps = ps + [rnd.choice(extra)]
            elif kind < 0.5 and us:  # disjoint if possible
                rest = [q for q in range(1, n + 1) if q not in us[-1][1]]
                ps = rnd.sample(rest, rnd.randint(1, len(rest))) if rest else pset()
            else:
                ps = pset() if us else base
            us.append([rnd.choice([0.5, 1, 1, 1, 2, 2, 3]), ps])
        return us

    nf = rnd.randint(3, 6)
    for k in range(nf):
        r = rnd.random()
        nalt = 1 if r < 0.8 else (2 if r < 0.95 else 3)
        fm = {"alts": [uops() for _ in range(nalt)], "tp": 1.0, "lat": float(rnd.randint(0, 5))}
        fm["tp"] = rnd.choice([0.25, 0.5, 1.0, 2.0])
        t = rnd.random()
        if t < 0.08:
            fm["tp"] = None  # no throughput data: shown, not summed
        elif t < 0.14:
            fm["tp"] = 0.0
        model["forms"].append(fm)
    if ambig:
        rest = [q for q in range(1, n + 1) if q not in ambig]
        us = [[rnd.choice([1, 1, 2, 3]), list(ambig)]]
        if multi and rnd.random() < 0.4:
            us.append([1, rnd.sample(rest, 1) + rnd.sample(ambig, 1)])
        model["forms"][rnd.randrange(len(model["forms"]))] = {"alts": [us], "tp": 1.0, "lat": 1.0}
    if multi and rnd.random() < 0.5:
        # register forms whose memory variants are composed from the load / store defaults,
        # scaled by documented multipliers (as in the shipped zen1 model)
        def data_uops():
            return [[1, rnd.sample(range(1, n + 1), rnd.randint(1, min(2, n)))] for _ in range(rnd.choice([1, 1, 2]))]

        mult = {"gpr": rnd.choice([1.0, 2.0, 3.0]), "xmm": 1.0, "ymm": rnd.choice([1.0, 2.0, 2.0])}
        model["mem"] = {"load": data_uops(), "store": data_uops(),
                        "regforms": [{"reg": rnd.choice(["xmm", "ymm"]), "uops": uops(), "tp": 1.0, "lat": 3.0}
                                     for _ in range(rnd.randint(1, 2))]}
        if rnd.random() < 0.8:
            model["mem"]["load_mult"] = dict(mult)
            model["mem"]["store_mult"] = dict(mult)
        if rnd.random() < 0.7:
            model["mem"]["rmw"] = {"uops": uops(), "tp": 1.0, "lat": 1.0}
    return model


def random_kernel(rnd, model, maxlen=8, extras=True):
    ln = rnd.randint(1, maxlen)
    k = []
    for _ in range(ln):
        r = rnd.random()
        if extras and r < 0.05:
            k.append(("comment",))
        elif extras and r < 0.08:
            k.append(("label",))
        elif extras and r < 0.12:
            k.append(("unknown",))
        elif model.get("mem") and model["mem"].get("rmw") and r < 0.17:
            k.append(("rmw", 0, "gpr"))
        elif model.get("mem") and r < 0.3:
            j = rnd.randrange(len(model["mem"]["regforms"]))
            k.append((rnd.choice(["ld", "st"]), j, model["mem"]["regforms"][j]["reg"]))
        else:
            k.append(rnd.randrange(len(model["forms"])))
    return k


def abstract_lines(model, kernel):
    """What the model says about each kernel line, by construction of the rendering
    (micro-op alternatives in lattice units and whether the line has throughput data)."""
    lines = []
    for it in kernel:
        if isinstance(it, int):
            fm = model["forms"][it]
            alts = [[{"c": units(c), "p": list(ps), "m": 2} for c, ps in alt] for alt in fm["alts"]]
            lines.append({"tp": 1 if fm.get("tp", 1.0) not in (None, 0.0) else 0, "alts": alts})
        elif it[0] in ("ld", "st"):
            mem = model["mem"]
            fm = mem["regforms"][it[1]]
            table = mem["load"] if it[0] == "ld" else mem["store"]
            mults = mem.get("load_mult" if it[0] == "ld" else "store_mult") or {}
            m2 = int(round(2 * mults.get(it[2], 1.0)))
            alt = [{"c": units(c), "p": list(ps), "m": 2} for c, ps in fm["uops"]] + \
                  [{"c": units(c), "p": list(ps), "m": m2} for c, ps in table]
            lines.append({"tp": 1, "alts": [alt]})
        elif it[0] == "rmw":
            # read-modify-write: register form + load micro-ops x load multiplier + store micro-ops x store multiplier
            mem = model["mem"]
            lm2 = int(round(2 * (mem.get("load_mult") or {}).get("gpr", 1.0)))
            sm2 = int(round(2 * (mem.get("store_mult") or {}).get("gpr", 1.0)))
            alt = [{"c": units(c), "p": list(ps), "m": 2} for c, ps in mem["rmw"]["uops"]] + \
                  [{"c": units(c), "p": list(ps), "m": lm2} for c, ps in mem["load"]] + \
                  [{"c": units(c), "p": list(ps), "m": sm2} for c, ps in mem["store"]]
            lines.append({"tp": 1, "alts": [alt]})
        else:
            lines.append({"tp": 0, "alts": [[]]})
    return lines


# ------------------------------------------------------------------ corpus
def corpus_files(isa):
    repo = env.REPO
    fs = sorted(glob.glob(os.path.join(repo, "examples", "*", "*.s"))) + \
        sorted(glob.glob(os.path.join(repo, "tests", "test_files", "*.s")))
    out = []
    for f in fs:
        b = os.path.basename(f)
        if b.endswith(".copy.s"):
            continue
        arm = any(t in b for t in ("tx2", "aarch64", "arm"))
        if (isa == "aarch64") == arm:
            out.append(f)
    return out


# ------------------------------------------------------------------ independent export of the shipped models
def _parse_yaml(text):
    import ruamel.yaml

    return ruamel.yaml.YAML(typ="safe", pure=True).load(text)


def _split_model(path, chunk_bytes=120000):
    with open(path) as f:
        txt = f.read()
    m = re.search(r"^instruction_forms:[^\n]*\n", txt, re.M)
    if not m or len(txt) < 2 * chunk_bytes:
        return None, [txt]
    head, body = txt[:m.start()], txt[m.end():]
    starts = [x.start() for x in re.finditer(r"^- ", body, re.M)]
    if not starts:
        return None, [txt]
    pre = body[:starts[0]]
    if not all(ln.strip() == "" or ln.lstrip().startswith("#") for ln in pre.splitlines()):
        return None, [txt]
    bounds = [starts[0]]
    for s in starts[1:]:
        if s - bounds[-1] >= chunk_bytes:
            bounds.append(s)
    bounds.append(len(body))
    return head, [body[a:b] for a, b in zip(bounds, bounds[1:])]


def export_models(files, pool=None):
    """Plain-YAML load (ruamel safe loader; no OSACA code) of the given model files.
    Large files are cut at top-level entry boundaries and parsed in parallel.
    Returns {path: {"head": {...}, "entries": [...]}} ; empty files are skipped."""
    own = pool is None
    pool = pool or concurrent.futures.ProcessPoolExecutor(16)
    futs = {}
    try:
        for p in files:
            if os.path.getsize(p) == 0:
                continue
            head, chunks = _split_model(p)
            if head is None:
                futs[p] = (None, [pool.submit(_parse_yaml, chunks[0])])
            else:
                futs[p] = (pool.submit(_parse_yaml, head), [pool.submit(_parse_yaml, c) for c in chunks])
        out = {}
        for p, (h, cs) in futs.items():
            if h is None:
                d = cs[0].result()
                ents = d.pop("instruction_forms", None) or []
                out[p] = {"head": d, "entries": ents}
            else:
                ents = []
                for c in cs:
                    ents += c.result() or []
                out[p] = {"head": h.result(), "entries": ents}
        return out
    finally:
        if own:
            pool.shutdown()


def model_files(archs=None, isa_dbs=True):
    d = os.path.join(env.REPO, "osaca", "data")
    archs = archs if archs is not None else env.X86_ARCHS + env.ARM_ARCHS + env.EMPTY_ARCHS
    fs = [os.path.join(d, a + ".yml") for a in archs]
    if isa_dbs:
        fs += [os.path.join(d, "isa", "x86.yml"), os.path.join(d, "isa", "aarch64.yml")]
    return [f for f in fs if os.path.exists(f)]


def sha(obj):
    return hashlib.sha1(json.dumps(obj, sort_keys=True, default=str).encode()).hexdigest()[:10]


# ------------------------------------------------------------------ cases for Trace_Port
PASSES = {"uniform": 0, "dict-uniform": 0, "opt1": 1, "opt2": 2, "dict-opt2": 2}


def _mult_alternatives(alts, mults):
    """Documented load/store multipliers (zen1) scale the data micro-ops, which are a suffix of
    the reported micro-op list: offer every (suffix, multiplier) reading as an alternative."""
    out = list(alts)
    for alt in alts:
        for m2 in mults:
            for k in range(1, len(alt) + 1):
                out.append([dict(u, m=(m2 if i >= len(alt) - k else u["m"])) for i, u in enumerate(alt)])
    return out


def export_heads(archs):
    """Plain-YAML read of the model headers: documented multipliers as 2*value (values != 1)."""
    out = {}
    for a in archs:
        p = os.path.join(env.REPO, "osaca", "data", a + ".yml")
        with open(p) as f:
            txt = f.read()
        m = re.search(r"^instruction_forms:", txt, re.M)
        head = _parse_yaml(txt[:m.start()] if m else txt) or {}
        vals = set()
        for key in ("load_throughput_multiplier", "store_throughput_multiplier"):
            for v in (head.get(key) or {}).values():
                if isinstance(v, (int, float)) and v != 1 and float(2 * v).is_integer():
                    vals.add(int(2 * v))
        out[a] = {"mults": sorted(vals), "ports": [str(x) for x in head.get("ports", [])]}
    return out


def c01_cases(cid, nports, obs, abs_lines=None, meta=None, mults=None):
    """One Trace_Port case (kind c01) per observed snapshot.  With `abs_lines` (synthetic model)
    the micro-op alternatives are the ones the model was rendered from and the reported
    micro-ops go along as `obs`; otherwise the reported micro-ops are the alternatives."""
    cases = []
    for stage, snap in obs.items():
        if "lines" not in snap:
            continue
        lines = []
        for i, ln in enumerate(snap["lines"]):
            d = {"tp": ln["tp"], "row": ln["row"]}
            if abs_lines is not None:
                d["alts"] = abs_lines[i]["alts"]
                d["obs"] = ln["alts"]
            else:
                d["alts"] = ln["alts"]
                if mults and ln["alts"] and ln["alts"][0]:
                    d["alts"] = _mult_alternatives(ln["alts"], mults)
            lines.append(d)
        c = {"id": "%s|%s" % (cid, stage), "kind": "c01", "np": nports, "passes": PASSES[stage],
             "lines": lines, "totals": snap["totals"]}
        if meta:
            c["meta"] = meta
        cases.append(c)
    return cases


def c02_case(cid, nports, obs, abs_lines=None, family=0, meta=None):
    """Trace_Port case (kind c02): kernel description + totals after one and two passes."""
    base = obs.get("uniform")
    if not base or "lines" not in base:
        return None
    src = abs_lines if abs_lines is not None else base["lines"]
    c = {"id": cid, "kind": "c02", "np": nports, "family": family,
         "lines": [{"tp": ln["tp"], "alts": ln["alts"]} for ln in src]}
    for st in ("opt1", "opt2"):
        if st in obs and "totals" in obs[st]:
            c[st] = obs[st]["totals"]
    if "opt1" not in c and "opt2" not in c:
        return None
    if meta:
        c["meta"] = meta
    return c


def line_features(alts):
    """Witness class of an instruction: number of micro-ops / distinct port sets / overlap."""
    f = set()
    if len(alts) > 1:
        f.add("alt")
    for alt in alts:
        sets = [frozenset(u["p"]) for u in alt]
        if len(alt) > 1:
            f.add("multi-uop")
        ds = set(sets)
        if len(ds) > 1:
            f.add("distinct-sets")
            if any(a & b for a in ds for b in ds if a != b):
                f.add("overlap")
    return f


# ------------------------------------------------------------------ process pool around observe()
_LOADED = {}


def _load_cached(key):
    """key = ("yaml", path) or ("arch", name)"""
    if key not in _LOADED:
        from harness import synth

        _LOADED[key] = synth.load(key[1]) if key[0] == "yaml" else synth.load_arch(key[1])
    return _LOADED[key]


def _observe_job(job):
    key, items, opts = job
    try:
        mm, sem, parser = _load_cached(key)
    except Exception as e:
        return [(cid, {"load": {"error": exc_text(e), "where": exc_where(e)}}) for cid, _ in items]
    out = []
    for cid, text in items:
        kw = dict(opts or {})
        if key[0] == "yaml":
            kw["yaml_path"] = key[1]
        else:
            kw["arch"] = key[1]
        out.append((cid, observe(mm, sem, parser, text, **kw)))
    return out


def observe_many(jobs, workers=16, chunk=40):
    """jobs: list of (key, [(cid, text), ...], opts).  Runs observe() in forked worker processes
    (models are loaded once per worker).  Returns {cid: observation}."""
    import multiprocessing

    split = []
    for key, items, opts in jobs:
        for i in range(0, len(items), chunk):
            split.append((key, items[i:i + chunk], opts))
    res = {}
    if not split:
        return res
    # load every model once in the parent: OSACA writes its cache pickle in place, so concurrent
    # first loads of one file would race (that is C17's subject, not ours); forked workers
    # inherit the loaded models
    for key in {j[0] for j in split}:
        try:
            _load_cached(key)
        except Exception:
            pass  # reported per item by the workers
    # non-daemonic workers (KernelDG may start worker processes of its own for long kernels)
    ctx = multiprocessing.get_context("fork")
    with concurrent.futures.ProcessPoolExecutor(min(workers, len(split)), mp_context=ctx) as pool:
        for part in pool.map(_observe_job, split):
            for cid, o in part:
                res[cid] = o
    return res


# ------------------------------------------------------------------ MC_PortSched instances on the code
SUBSETS3 = [[1], [2], [3], [1, 2], [1, 3], [2, 3], [1, 2, 3]]


def family_model():
    """The forms of MC_PortSched!FamilyForms as an abstract model (ports 0,1,2)."""
    forms = []
    for k in range(14):
        forms.append({"alts": [[[1 if k < 7 else 2, SUBSETS3[k % 7]]]], "tp": 1.0, "lat": 1.0})
    return {"ports": ["0", "1", "2"], "forms": forms}


def multi_model(overlap_only):
    """MC_PortSched!MultiForms / OverlapForms."""
    forms = [{"alts": [[[1, s]]], "tp": 1.0, "lat": 1.0} for s in SUBSETS3]
    for a in range(7):
        for b in range(7):
            sa, sb = SUBSETS3[a], SUBSETS3[b]
            if overlap_only and (a == b or not set(sa) & set(sb)):
                continue
            forms.append({"alts": [[[1, sa], [1, sb]]], "tp": 1.0, "lat": 1.0})
    return {"ports": ["0", "1", "2"], "forms": forms}


# ------------------------------------------------------------------ C15: syntactic encoding of model entries
def _is_num(x):
    return isinstance(x, (int, float)) and not isinstance(x, bool)


def enc_num(d, key):
    if not isinstance(d, dict) or key not in d:
        return {"k": "absent", "neg": 0}
    v = d[key]
    if v is None:
        return {"k": "null", "neg": 0}
    if _is_num(v):
        return {"k": "num", "neg": 1 if v < 0 else 0}
    return {"k": "other", "neg": 0}


def enc_uop(u, unit):
    """One element of a micro-op list, described syntactically."""
    if not isinstance(u, (list, tuple)):
        return {"n": -1, "ck": "other", "c": 0, "frac": 0, "pk": "other", "ports": []}
    d = {"n": len(u), "ck": "other", "c": 0, "frac": 0, "pk": "other", "ports": []}
    if len(u) >= 1 and _is_num(u[0]):
        d["ck"] = "num"
        v = u[0] * unit
        d["c"] = int(round(v))
        d["frac"] = 0 if abs(v - round(v)) < 1e-9 else 1
    if len(u) >= 2:
        if isinstance(u[1], str):
            d["pk"], d["ports"] = "str", list(u[1])
        elif isinstance(u[1], (list, tuple)) and all(isinstance(x, (str, int)) and not isinstance(x, bool)
                                                     for x in u[1]):
            d["pk"], d["ports"] = "list", [str(x) for x in u[1]]
    return d


def _cycles_of(pp):
    tot = 0
    lists = list(pp.values()) if isinstance(pp, dict) else [pp]
    for lst in lists:
        if isinstance(lst, (list, tuple)):
            for u in lst:
                if isinstance(u, (list, tuple)) and u and _is_num(u[0]):
                    tot += abs(u[0])
    return tot


def pick_unit(pp):
    """12000 units per cycle unless the entry's cycles would overflow TLC's 32-bit integers
    (a few entries model thousands of cycles): then 120 (still exact for halves and 1..6 ports)."""
    return UNIT if _cycles_of(pp) <= 100000 else 120


def enc_pp(d, key, unit):
    if not isinstance(d, dict) or key not in d:
        return {"k": "absent", "alts": []}
    v = d[key]
    if v is None:
        return {"k": "null", "alts": []}
    if isinstance(v, dict):
        return {"k": "dict", "alts": [[enc_uop(u, unit) for u in alt] if isinstance(alt, (list, tuple))
                                      else [enc_uop(alt, unit)] for alt in v.values()]}
    if isinstance(v, (list, tuple)):
        return {"k": "list", "alts": [[enc_uop(u, unit) for u in v]]}
    return {"k": "other", "alts": []}


def enc_entry(e, kind, cid, mports, isa, key="port_pressure"):
    """Encode a plain-YAML entry (form / table row / ISA form) for ModelData.tla."""
    isa = (isa or "").lower()
    if kind == "table":
        unit = pick_unit(e.get(key) if isinstance(e, dict) else e)
        return {"id": cid, "kind": "table", "mports": mports, "unit": unit, "isa": isa, "nk": "str", "ops": [],
                "regs": [], "pp": enc_pp(e, key, unit), "tp": {"k": "absent", "neg": 0},
                "lat": {"k": "absent", "neg": 0}}
    name = e.get("name") if isinstance(e, dict) else None
    if isinstance(name, str):
        nk = "str"
    elif isinstance(name, list) and name and all(isinstance(x, str) for x in name):
        nk = "strlist"
    else:
        nk = "other"
    ops, regs = [], []
    for o in (e.get("operands") or []) if isinstance(e, dict) else []:
        c = o.get("class") if isinstance(o, dict) else None
        ops.append(c if isinstance(c, str) else "?")
        if c == "register":
            r = o.get("name") if isa == "x86" else o.get("prefix")
            regs.append(r if isinstance(r, str) else "")
    unit = pick_unit(e.get(key)) if isinstance(e, dict) else UNIT
    return {"id": cid, "kind": kind, "mports": mports, "unit": unit, "isa": isa, "nk": nk, "ops": ops,
            "regs": regs, "pp": enc_pp(e, key, unit) if kind == "form" else {"k": "absent", "alts": []},
            "tp": enc_num(e, "throughput"), "lat": enc_num(e, "latency")}


def operand_signature(e):
    """Short operand signature of an entry, for known-finding keys."""
    out = []
    for o in (e.get("operands") or []) if isinstance(e, dict) else []:
        if not isinstance(o, dict):
            out.append("?")
            continue
        c = o.get("class")
        if c == "register":
            out.append("r:%s%s" % (o.get("name") or o.get("prefix") or "", ("." + str(o["shape"])) if o.get("shape") else ""))
        elif c == "memory":
            out.append("m:%s/%s/%s/%s" % (o.get("base"), o.get("offset"), o.get("index"), o.get("scale")))
        elif c == "immediate":
            out.append("i:%s" % o.get("imd"))
        else:
            out.append(str(c)[:4])
    return ",".join(out)


def plain(v):
    """ruamel containers / scalars -> plain Python (for signatures and JSON)."""
    if isinstance(v, dict):
        return {(int(k) if isinstance(k, int) else str(k)): plain(x) for k, x in v.items()}
    if isinstance(v, (list, tuple)):
        return [plain(x) for x in v]
    if isinstance(v, bool) or v is None:
        return v
    if isinstance(v, int):
        return int(v)
    if isinstance(v, float):
        return float(v)
    return str(v)


# ------------------------------------------------------------------ observation campaigns shared by C01 / C02
def synthetic_campaign(seed, n_models, n_kernels, tag, e2e=True, maxlen=8):
    """Seeded random port models x random kernels through the real pipeline.
    Returns list of dicts {cid, np, obs, abs (lines by construction), model, kernel, text}."""
    rnd = random.Random(seed)
    d = env.scratch(tag)
    jobs, info = [], {}
    for mi in range(n_models):
        model = random_model(rnd)
        styles = {k: rnd.choice(["str", "list"]) for k in range(len(model["forms"]))}
        path = render_model(os.path.join(d, "m%d.yml" % mi), model, styles)
        items = []
        for ki in range(n_kernels):
            kern = random_kernel(rnd, model, maxlen=maxlen)
            # keep the number of alternative combinations small (TLC enumerates them)
            while _alt_product(model, kern) > 64:
                kern = random_kernel(rnd, model, maxlen=maxlen)
            cid = "s%d.m%d.k%d" % (seed, mi, ki)
            text = render_kernel(kern)
            items.append((cid, text))
            info[cid] = {"cid": cid, "np": len(model["ports"]), "abs": abstract_lines(model, kern),
                         "model": model, "kernel": kern, "text": text, "yaml": path}
        jobs.append((("yaml", path), items, {"e2e": e2e}))
    obs = observe_many(jobs)
    out = []
    for cid, rec in info.items():
        rec["obs"] = obs[cid]
        out.append(rec)
    return out


def _alt_product(model, kern):
    n = 1
    for it in kern:
        if isinstance(it, int):
            n *= len(model["forms"][it]["alts"])
    return n


def kernel_text(path, isa):
    """The marked kernel of a corpus file (whole file if unmarked) as text, using OSACA's own
    marker detection as a driver (C11 checks it)."""
    from osaca.parser import ParserAArch64, ParserX86ATT
    from osaca.semantics import reduce_to_section

    with open(path) as f:
        code = f.read()
    parser = ParserX86ATT() if isa == "x86" else ParserAArch64()
    parsed = parser.parse_file(code)
    kern = reduce_to_section(parsed, isa)
    return "\n".join(ln.line for ln in kern) + "\n"


def shipped_campaign(archs, tag, extra_kernels=None, e2e=True):
    """Shipped models x shipped example / test kernels.  Returns records as synthetic_campaign
    (abs = None: the reported micro-ops are the reference)."""
    env.warm_models(archs)
    jobs, info = [], {}
    texts = {}
    for isa in ("x86", "aarch64"):
        for f in corpus_files(isa):
            try:
                texts[(isa, f)] = kernel_text(f, isa)
            except Exception:
                continue
    for arch in archs:
        isa = "x86" if arch in env.X86_ARCHS else "aarch64"
        items = []
        for (i, f), text in texts.items():
            if i != isa:
                continue
            cid = "%s:%s" % (arch, os.path.basename(f))
            items.append((cid, text))
            info[cid] = {"cid": cid, "arch": arch, "text": text, "file": f}
        for name, text in (extra_kernels or {}).get(arch, []):
            cid = "%s:%s" % (arch, name)
            items.append((cid, text))
            info[cid] = {"cid": cid, "arch": arch, "text": text, "file": name}
        jobs.append((("arch", arch), items, {"e2e": e2e}))
    obs = observe_many(jobs, chunk=8)
    out = []
    for cid, rec in info.items():
        rec["obs"] = obs[cid]
        rec["abs"] = None
        u = rec["obs"].get("uniform")
        rec["np"] = len(u["totals"]) if u and "totals" in u else 0
        out.append(rec)
    return out


def kernel_features(lines):
    """Witness class of a kernel (lines: [{"tp", "alts"}])."""
    f = set()
    if not any(ln["tp"] for ln in lines):
        f.add("nosum")
    for ln in lines:
        f |= line_features(ln["alts"])
    return f


def fclass(f):
    return "+".join(sorted(f)) or "plain"


# ------------------------------------------------------------------ the real CLI on a synthetic model
def cli_home(tag, model, arch="zen1"):
    """A private HOME whose ~/.osaca/data/<arch>.yml is the rendered synthetic model, so that
    `osaca --arch <arch>` analyses with it (user data directory takes precedence)."""
    # private to the calling process: the owner deletes it, and two runs at the same time must not share it
    home = env.sandbox_home(fresh=True, tag="%s-%d" % (tag, os.getpid()))
    target = os.path.join(home, ".osaca", "data", arch + ".yml")
    if os.path.lexists(target):
        os.unlink(target)
    render_model(target, model)
    return home


_NUM = re.compile(r"-?\d+\.\d+")


def parse_cli_totals(out, nports):
    """Totals row of the combined report.  The row is laid out in the columns of the port header
    line (`|  0   |  1   |...||`); a total of exactly 0 is printed as blanks, so the cells are cut
    at the header's separator positions."""
    if "Combined Analysis Report" not in out:
        return None
    body = out.split("Combined Analysis Report", 1)[1].split("Loop-Carried Dependencies", 1)[0]
    lines = body.splitlines()
    head = next((ln for ln in lines if ln.count("|") >= nports + 1 and "CP" in ln), None)
    if head is None:
        return None
    bars = [i for i, ch in enumerate(head) if ch == "|"]
    rows = [ln for ln in lines if ln.strip() and "|" not in ln and _NUM.search(ln) and not ln.strip().startswith("-")]
    if not rows or len(bars) < nports + 1:
        return None
    row = rows[-1].ljust(bars[nports] + 1)
    out_units = []
    for k in range(nports):
        cell = row[bars[k] + 1:bars[k + 1] + 1].strip()
        if not cell:
            out_units.append(0)
            continue
        if not _NUM.fullmatch(cell):
            return None
        out_units.append(units(float(cell)))
    return out_units


def cli_many(home, arch, items, nports, flags=(), workers=16):
    """items: [(cid, kernel text)] -> {cid: totals | {"error"}} through `osaca --arch`."""
    d = env.scratch("cli-" + os.path.basename(home))

    def one(it):
        cid, text = it
        f = os.path.join(d, cid.replace("/", "_") + ".s")
        with open(f, "w") as fh:
            fh.write(text)
        rc, out, err = env.run_cli(["--arch", arch] + list(flags) + [f], home=home, timeout=300)
        os.unlink(f)
        if rc != 0:
            return cid, {"error": (err.strip().splitlines() or ["rc=%d" % rc])[-1][:300]}
        t = parse_cli_totals(out, nports)
        return cid, (t if t is not None else {"error": "no totals row in the report"})

    if not items:
        return {}
    first = one(items[0])  # writes the model's cache pickle before the parallel runs
    import multiprocessing.pool

    with multiprocessing.pool.ThreadPool(workers) as tp:
        res = dict(tp.map(one, items[1:]))
    res[first[0]] = first[1]
    return res
