"""Deterministic virtual-process scheduler for the REAL coordinator and worker code of
KernelDG.check_for_loopcarried_dep (R2 binding of C16 / C19).

`Process`, `Manager`, `cpu_count`, `time`, `os` of module osaca.semantics.kernel_dg are replaced
(from the outside, for the duration of one replay) by fakes:

  * every virtual process -- the coordinator (the thread that constructs the KernelDG) and each
    worker (`Process(target=self._extend_path, ...)`) -- is a Python thread; exactly one thread
    runs at a time (baton passing with semaphores); the script decides who runs;
  * a thread parks at a GATE before every call that the specification can see:
       coordinator: Process.start, time.time, time.sleep, Process.is_alive, Process.join, os.kill,
                    reading the shared list (copy), Manager.__exit__
       worker:      shared_list.extend (one root), and the end of its target (exit)
  * SIGKILL of a virtual process: the parked thread is resumed with an exception and unwinds;
  * the clock is virtual and is advanced by the script only (`Tick`).

`Replay.run(actions)` drives one behaviour of LCDSearchSM (actions StartAll, WStep(w), Tick,
Check, Sleep, Kill, JoinAll, Copy, PostProcess) and reports the abstract state after every
action; when the code does not offer the call an action needs, the replay records a divergence
and lets everything run to completion (the observables are still checked)."""
import threading


_ABSENT = object()

class VKilled(BaseException):
    pass


class SchedError(Exception):
    pass


class VThread:
    def __init__(self, sched, name, fn):
        self.sched, self.name, self.fn = sched, name, fn
        self.go = threading.Semaphore(0)
        self.state = "parked"  # parked | running | finished
        self.pending = ("begin", {})
        self.resume = None
        self.killed = False
        self.dead = threading.Event()
        self.error = None
        self.result = None
        self.th = threading.Thread(target=self._main, name=name, daemon=True)
        self.th.start()

    def _main(self):
        self.go.acquire()
        try:
            if self.killed:
                raise VKilled()
            self.result = self.fn()
        except VKilled:
            pass
        except BaseException as e:  # noqa
            self.error = e
        self.state = "finished"
        self.pending = None
        if self.killed:
            self.dead.set()          # whoever killed it waits on this (never the stepping thread)
        else:
            self.sched.parked.release()


class Sched:
    STEP_TIMEOUT = 120.0

    def __init__(self):
        self.parked = threading.Semaphore(0)
        self.threads = {}
        self.by_ident = {}
        self.now = 1000.0
        self.clock = 0
        self.raw = []

    def log(self, k, **kw):
        self.clock += 1
        kw["k"], kw["t"] = k, self.clock
        self.raw.append(kw)

    def spawn(self, name, fn):
        t = VThread(self, name, fn)
        self.threads[name] = t
        self.by_ident[t.th.ident] = t
        return t

    def current(self):
        return self.by_ident.get(threading.get_ident())

    def gate(self, kind, **info):
        """called by a virtual process: park until the script resumes it"""
        t = self.current()
        if t is None:
            raise SchedError("gate %r called outside a virtual process" % kind)
        t.pending = (kind, info)
        t.state = "parked"
        self.parked.release()
        t.go.acquire()
        t.state = "running"
        if t.killed:
            raise VKilled()
        return t.resume

    def step(self, name, value=None):
        """resume thread `name` until it parks again or finishes"""
        t = self.threads[name]
        if t.state != "parked":
            raise SchedError("thread %s is %s" % (name, t.state))
        t.resume = value
        t.state = "running"
        t.go.release()
        if not self.parked.acquire(timeout=self.STEP_TIMEOUT):
            raise SchedError("thread %s did not reach a gate within %ss" % (name, self.STEP_TIMEOUT))
        return t.pending

    def kill(self, name):
        t = self.threads[name]
        if t.state == "finished":
            return
        t.killed = True
        t.go.release()
        if not t.dead.wait(timeout=self.STEP_TIMEOUT):
            raise SchedError("killed thread %s did not unwind" % name)

    def reap(self):
        for name, t in self.threads.items():
            if t.state != "finished":
                try:
                    self.kill(name)
                except SchedError:
                    pass


class Fakes:
    """the five substituted names, bound to one scheduler"""

    def __init__(self, sched, nw):
        self.s = sched
        self.nw = nw
        self.procs = []
        self.lists = []
        self.time_calls = 0
        self.start_time = None
        F = self

        class FakeList:
            def __init__(s):
                s.items = []
                s.batches = []

            def extend(s, items):
                items = list(items)
                t = F.s.current()
                w = int(t.name[1:]) if t is not None and t.name.startswith("w") else -1
                root = items[0][0] if items and items[0] else None
                proc = F.procs[w] if 0 <= w < len(F.procs) else None
                if proc is not None:
                    if root is None and proc.nappend < len(proc.roots):
                        root = proc.roots[proc.nappend]
                    proc.nappend += 1
                F.s.gate("extend", w=w, root=root, n=len(items))
                F.s.log("app_begin", w=w, root=root, n=len(items))
                s.items.extend(items)
                s.batches.append((root, len(items)))
                F.s.log("app_end", w=w, root=root, n=len(items))

            def append(s, item):
                s.extend([item])

            def _read(s):
                t = F.s.current()
                if t is not None and t.name == "coord":
                    F.s.gate("copy")
                    F.s.log("copy_begin")
                    F.s.log("copy_end", n=len(s.items))
                return list(s.items)

            def __iter__(s):
                return iter(s._read())

            def __len__(s):
                return len(s.items)

            def __getitem__(s, i):
                if isinstance(i, slice):
                    return s._read()[i]
                return s.items[i]

        class FakeManager:
            def __enter__(s):
                return s

            def __exit__(s, *a):
                if a and a[0] is not None and issubclass(a[0], VKilled):
                    return False
                F.s.gate("mgr_exit")
                F.s.log("mgr_exit")
                return False

            def list(s, *a):
                lst = FakeList()
                F.lists.append(lst)
                return lst

            def shutdown(s):
                pass

        class FakeProcess:
            def __init__(s, target=None, args=(), kwargs=None, **kw):
                s.target, s.args, s.kwargs = target, args, kwargs or {}
                s.w = len(F.procs)
                s.pid = 10000 + s.w
                s.started = False
                s.joined = False
                s.killed = False
                s.nappend = 0
                s.exitcode = None
                try:
                    s.roots = [ins.line_number for ins in args[1]]
                except Exception:
                    s.roots = []
                F.procs.append(s)

            def _body(s):
                s.target(*s.args, **s.kwargs)
                F.s.gate("exit", w=s.w)
                F.s.log("wend", w=s.w)

            def start(s):
                F.s.gate("start", w=s.w)
                F.s.log("pstart", w=s.w)
                s.started = True
                F.s.spawn("w%d" % s.w, s._body)

            def _alive(s):
                return s.started and not s.killed and F.s.threads["w%d" % s.w].state != "finished"

            def is_alive(s):
                F.s.gate("is_alive", w=s.w)
                v = s._alive()
                F.s.log("alive", w=s.w, v=v)
                return v

            def join(s, timeout=None):
                F.s.gate("join", w=s.w)
                F.s.log("join_begin", w=s.w)
                if s._alive():
                    raise SchedError("join of running virtual process w%d was released" % s.w)
                s.joined = True
                s.exitcode = -9 if s.killed else 0
                F.s.log("join_end", w=s.w)

            def _kill(s):
                F.s.log("kill", w=s.w)
                if s._alive():
                    s.killed = True
                    F.s.kill("w%d" % s.w)

            def kill(s):
                F.s.gate("kill", w=s.w)
                s._kill()

            terminate = kill

        class FakeTime:
            def time(s):
                F.time_calls += 1
                F.s.gate("time", call=F.time_calls)
                if F.start_time is None:
                    F.start_time = F.s.now
                F.s.log("time", v=F.s.now)
                return F.s.now

            monotonic = perf_counter = time     # whichever clock the code reads is the virtual one

            def sleep(s, x):
                F.s.gate("sleep")
                F.s.log("sleep", v=x)

            def __getattr__(s, name):
                import time

                return getattr(time, name)

        class FakeOs:
            def kill(s, pid, sig):
                ps = [p for p in F.procs if p.pid == pid]
                F.s.gate("kill", w=ps[0].w if ps else -1)
                if ps:
                    ps[0]._kill()

            def __getattr__(s, name):
                import os

                return getattr(os, name)

        self.Manager = FakeManager
        self.Process = FakeProcess
        self.time = FakeTime()
        self.os = FakeOs()
        self.cpu_count = lambda: F.nw


class Replay:
    """One execution of KernelDG(...) under the virtual scheduler."""

    TIMEOUT = 10  # the value passed as lcd timeout when the behaviour has one

    def __init__(self, kernel, tools, nw, has_timeout, threshold=1, flag_deps=False):
        import osaca.semantics.kernel_dg as kd

        self.kd = kd
        self.kernel, self.tools = kernel, tools
        self.nw, self.to = nw, has_timeout
        self.threshold = threshold
        self.flag_deps = flag_deps
        self.s = Sched()
        self.f = Fakes(self.s, nw)
        self.divergence = None
        self.expired_seen = False
        self.dg = None
        self.saved = {}

    # ---- patching
    def __enter__(self):
        kd = self.kd
        for name in ("Process", "Manager", "cpu_count", "time", "os"):
            # a collaborator the module does not import (any more) is installed all the same and
            # removed again on exit
            self.saved[name] = getattr(kd, name, _ABSENT)
            setattr(kd, name, getattr(self.f, name))
        self.saved_thr = kd.KernelDG.INSTRUCTION_THRESHOLD
        kd.KernelDG.INSTRUCTION_THRESHOLD = self.threshold
        mm, sem, parser = self.tools

        def coord():
            self.dg = kd.KernelDG(self.kernel, parser, mm, sem, self.TIMEOUT if self.to else -1, self.flag_deps)
            return self.dg

        self.c = self.s.spawn("coord", coord)
        self.s.step("coord")  # runs up to its first gate
        return self

    def __exit__(self, *a):
        self.s.reap()
        for name, val in self.saved.items():
            if val is _ABSENT:
                delattr(self.kd, name)
            else:
                setattr(self.kd, name, val)
        self.kd.KernelDG.INSTRUCTION_THRESHOLD = self.saved_thr
        return False

    # ---- helpers
    def pend(self):
        return self.c.pending[0] if self.c.pending else None

    def _co(self):
        if self.c.state == "finished":
            raise SchedError("coordinator already returned")
        self.s.step("coord")

    def worker(self, w):
        return self.s.threads.get("w%d" % w)

    def _settle(self, w):
        """let a freshly started worker compute up to its first visible step"""
        t = self.worker(w)
        if t is not None and t.state == "parked" and t.pending and t.pending[0] == "begin":
            self.s.step(t.name)

    # ---- abstract state (projection of the fakes)
    def cpc(self):
        if self.c.state == "finished":
            return "done"
        k = self.pend()
        if k == "start":
            return "start"
        if k == "time":
            return "poll" if self.f.time_calls >= 1 else "start"
        if k == "sleep":
            return "sleep"
        if k in ("is_alive", "kill"):
            return "kill" if self.expired_seen else "poll"
        if k == "join":
            return "kill" if self.expired_seen else "join"
        if k == "copy":
            return "copy"
        if k == "mgr_exit":
            return "post"
        return "?" + str(k)

    def state(self, pos):
        wst, wpos = {}, {}
        for p in self.f.procs:
            t = self.worker(p.w)
            if not p.started:
                wst[p.w] = "idle"
            elif p.killed:
                wst[p.w] = "killed"
            elif t.state == "finished":
                wst[p.w] = "done"
            else:
                wst[p.w] = "run"
            wpos[p.w] = len([1 for b in (self.f.lists[0].batches if self.f.lists else []) if b[0] in p.roots])
        shared = [pos.get(b[0], 0) for b in (self.f.lists[0].batches if self.f.lists else [])]
        inst = None
        for p in self.f.procs:
            inst = getattr(p.target, "__self__", None)
            break
        return {"wst": wst, "wpos": wpos, "shared": shared, "cpc": self.cpc(),
                "timedOut": bool(getattr(inst, "timed_out", False)) if inst is not None else False,
                "joined": sorted(p.w for p in self.f.procs if p.joined)}

    # ---- actions
    def act(self, a):
        """perform one specification action; returns None or a divergence description"""
        name = a[0]
        try:
            if name == "StartAll":
                if self.pend() != "start":
                    return "StartAll: coordinator is at %r" % self.pend()
                while self.pend() == "start":
                    self._co()
                if self.to:
                    if self.pend() != "time":
                        return "StartAll: no clock read after the starts (at %r)" % self.pend()
                    self._co()  # start_time = time.time()
                for p in self.f.procs:
                    self._settle(p.w)
            elif name == "WStep":
                w = a[1]
                t = self.worker(w)
                if t is None or t.state != "parked" or self.f.procs[w].killed:
                    return "WStep(%d): no such running worker" % w
                self._settle(w)
                if t.pending[0] not in ("extend", "exit"):
                    return "WStep(%d): worker is at %r" % (w, t.pending[0])
                self.s.step(t.name)
            elif name == "Tick":
                self.s.now += self.TIMEOUT + 1
            elif name == "Check":
                if self.pend() != "time" or self.f.start_time is None:
                    return "Check: coordinator is at %r" % self.pend()
                expired = not (self.s.now - self.f.start_time <= self.TIMEOUT)
                self._co()
                if expired:
                    self.expired_seen = True
                else:
                    while self.pend() == "is_alive":
                        self._co()
            elif name == "Sleep":
                if self.pend() != "sleep":
                    return "Sleep: coordinator is at %r" % self.pend()
                self._co()
            elif name == "JoinAll":
                if self.pend() != "join":
                    return "JoinAll: coordinator is at %r" % self.pend()
                while self.pend() == "join":
                    self._co()
            elif name == "Kill":
                if self.pend() not in ("is_alive", "kill", "join") or not self.expired_seen:
                    return "Kill: coordinator is at %r" % self.pend()
                while self.pend() in ("is_alive", "kill", "join"):
                    self._co()
            elif name == "Copy":
                if self.pend() != "copy":
                    return "Copy: coordinator is at %r" % self.pend()
                self._co()
            elif name == "PostProcess":
                if self.pend() != "mgr_exit":
                    return "PostProcess: coordinator is at %r" % self.pend()
                self._co()
                if self.c.state != "finished":
                    return "PostProcess: coordinator stopped at %r" % self.pend()
            else:
                return "unknown action %r" % (a,)
        except SchedError as e:
            return "%s: %s" % (name, e)
        return None

    def freerun(self):
        """let everything finish: workers first when the coordinator blocks in a join"""
        guard = 0
        while self.c.state != "finished":
            guard += 1
            if guard > 100000:
                raise SchedError("free run does not terminate")
            k, info = self.c.pending
            if k == "join":
                p = self.f.procs[info["w"]]
                t = self.worker(p.w)
                while t is not None and t.state != "finished" and not p.killed:
                    self.s.step(t.name)
            if k == "time" and guard > 2000:
                self.s.now += self.TIMEOUT + 1
            if k == "sleep":
                # somebody has to make progress while the coordinator sleeps
                for p in self.f.procs:
                    t = self.worker(p.w)
                    if p.started and not p.killed and t.state == "parked":
                        self.s.step(t.name)
                        break
            self.s.step("coord")

    def orphans(self):
        return [p.w for p in self.f.procs if p.started and not p.killed and self.worker(p.w).state != "finished"]

    def unjoined(self):
        return [p.w for p in self.f.procs if p.started and not p.joined]
