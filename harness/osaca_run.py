"""Whole-run traces (harness/pipeline_trace.py) of the real `inspect` over the shipped corpus
and option matrix, validated against specs/Osaca.tla.  Clauses map to the property they bear on;
each property's check reports only its own clauses (the others are recorded as notes)."""
import concurrent.futures
import multiprocessing
import os
import random
import shutil

from harness import env, tlc

CLAUSE_PROPERTY = {
    "cp-": "C04", "summary-cp": "C04",
    "lcd-": "C05", "summary-lcd": "C05", "doubled-": "C05",
    "summary-total": "C01", "balance-": "C01", "balanced-": "C02", "balancer-": "C02", "graph-before": "C02",
    "lines-selection": "C11", "kernel-": "C11", "select-": "C11", "semantics-on-different": "C11",
    "graph-on-different": "C03", "graph-edge": "C03", "flag-dependencies": "C03",
    # the front door: the warnings are part of both outputs (C13); parser / markers / model of another ISA or
    # architecture than the one named or detected make the analysed kernel a different one (C11)
    "frontdoor-warning": "C13", "frontdoor-report": "C13", "frontdoor-": "C11",
}


def owner(clause):
    for pre, pid in CLAUSE_PROPERTY.items():
        if clause.startswith(pre):
            return pid
    return "C13"


def _corpus():
    import glob

    files = sorted(glob.glob(os.path.join(env.REPO, "examples", "*", "*.s")))
    files += sorted(f for f in glob.glob(os.path.join(env.REPO, "tests", "test_files", "*.s"))
                    if ".copy." not in f and "long_LCD" not in f)
    out = []
    for f in files:
        b = os.path.basename(f)
        out.append((f, "aarch64" if ("tx2" in b or "aarch64" in b or "arm" in b) else "x86"))
    return out


def front_door_config(argv):
    """The configuration record `fd` of specs/Osaca.tla for one command line: the named architecture
    (lower case, clx = csx as documented), the documented defaults, the LCD time limit, and the ISA of every
    shipped model READ FROM THE MODEL FILE (first `isa:` line), not from the code's table."""
    import glob
    import re

    isa_of = {}
    for f in glob.glob(os.path.join(env.REPO, "osaca", "data", "*.yml")):
        with open(f, errors="replace") as fh:
            head = fh.read(4000)
        m = re.search(r"^isa:\s*['\"]?([A-Za-z0-9]+)", head, re.M)
        if m:
            isa_of[os.path.basename(f)[:-4].lower()] = m.group(1).lower()
    given, timeout = "", 10
    for i, a in enumerate(argv):
        if a == "--arch":
            given = argv[i + 1].lower()
        if a == "--lcd-timeout":
            timeout = int(argv[i + 1])
    if given == "clx":
        given = "csx"
    # README: "--arch ... If no micro-architecture is given, OSACA assumes a default uarch for the detected ISA";
    # the defaults themselves are configuration constants of the tool
    import osaca.osaca as oo

    defaults = {k.lower(): v.lower() for k, v in oo.DEFAULT_ARCHS.items()}
    return {"on": True, "given": given, "defaults": defaults, "isaOf": isa_of, "timeout": timeout}


def _one(job):
    jid, argv, fixed, flagdeps, work = job
    from harness import pipeline_trace as pt

    try:
        evs, text, yml = pt.trace_inspect(argv, work)
        try:
            os.unlink(yml)
        except OSError:
            pass
        sem = [e for e in evs if e["ev"] == "semantics"]
        if sem and len(sem[0]["kernel"]) > 80:
            # very large kernels (whole unmarked files): the reference cycle enumeration is not bounded
            return {"id": jid, "skipped": "kernel of %d lines" % len(sem[0]["kernel"]), "argv": argv}
        return {"id": jid, "fixed": fixed, "flagDeps": flagdeps, "events": evs, "argv": argv, "fd": front_door_config(argv)}
    except BaseException as e:   # SystemExit from argument checks included
        return {"id": jid, "error": "%s: %s" % (type(e).__name__, e), "argv": argv}


def whole_runs(run, pid, tier, seed, n_quick=36):
    """Returns the number of validated runs; reports rejected clauses owned by `pid`."""
    quick = tier == "quick"
    rnd = random.Random(seed * 13 + 5)
    x86 = env.QUICK_X86 if quick else env.X86_ARCHS
    arm = env.QUICK_ARM if quick else env.ARM_ARCHS
    env.warm_models(sorted(set(x86 + arm + ["spr", "v2"])))   # spr / v2: the defaults of runs without --arch
    work = env.scratch("wholerun-%s-%d" % (pid.lower(), os.getpid()))
    jobs = []
    for f, isa in _corpus():
        with open(f) as fh:
            nlines = len(fh.read().split("\n"))
        for arch in (x86 if isa == "x86" else arm):
            for fixed in (False, True):
                for fd in (False, True):
                    argv = ["--arch", arch] + (["--fixed"] if fixed else []) + (["--consider-flag-deps"] if fd else [])
                    jobs.append(("%s|%s|%s%s" % (os.path.relpath(f, env.REPO), arch, "F" if fixed else "o", "f" if fd else ""),
                                 argv + [f], fixed, fd, work))
            # an explicit --lines selection (a window inside the file)
            a = rnd.randint(1, max(1, nlines - 6))
            b = min(nlines, a + rnd.randint(2, 12))
            jobs.append(("%s|%s|lines%d-%d" % (os.path.relpath(f, env.REPO), arch, a, b),
                         ["--arch", arch, "--lines", "%d-%d" % (a, b), f], False, False, work))
    if quick and len(jobs) > n_quick:
        rnd.shuffle(jobs)
        jobs = jobs[:n_quick]
    # the front door (never thinned out): no --arch (ISA heuristics, default model, ArchWarning), clx = csx is not
    # shipped here, upper-case architecture names, explicit LCD limits, and files whose register statistics
    # mislead the heuristics (comments full of the other ISA's register names: the first parser raises on an
    # x86 file, one retry with the other ISA)
    corpus = _corpus()
    pick = corpus if not quick else rnd.sample(corpus, min(6, len(corpus)))
    for f, isa in pick:
        rel = os.path.relpath(f, env.REPO)
        jobs.append(("%s|detected|o" % rel, [f], False, False, work))
        arch = rnd.choice(x86 if isa == "x86" else arm)
        jobs.append(("%s|%s|upper-t" % (rel, arch), ["--arch", arch.upper(), "--lcd-timeout", str(rnd.choice([-1, 3, 25])), f],
                     False, False, work))
        # a limit of 0 cuts the search short on any kernel with a root: the warning has to appear in BOTH outputs
        jobs.append(("%s|%s|upper-t0" % (rel, arch), ["--arch", arch, "--lcd-timeout", "0", f], False, False, work))
        with open(f) as fh:
            text = fh.read()
        other = "# x0 x1 w2 w3 x4 x5 x6 x7\n" if isa == "x86" else "// %xmm0 %xmm1 %ymm2 %zmm3 %rax1\n"
        n_other = 4 + len(text) // 8
        mis = os.path.join(work, "mislead_%s" % os.path.basename(f))
        with open(mis, "w") as fh:
            fh.write(text + "\n" + other * n_other)
        jobs.append(("%s|misdetected|o" % rel, [mis], False, False, work))
    # generated kernels from the curated real vocabulary (few registers: many cycles, zero-latency moves
    # inside cycles, unknown instructions) through the same CLI path
    from harness import vocab
    from harness import deps_common as dc

    for isa, archs in (("x86", x86), ("aarch64", arm)):
        for arch in archs:
            for q in range(6 if quick else 40):
                gp, vec = vocab.pools(isa, rnd, 2, 2)
                instrs = [vocab.gen(isa, rnd, gp, vec) for _ in range(rnd.randint(2, 7))]
                path = os.path.join(work, "gen_%s_%s_%d.s" % (isa, arch, q))
                with open(path, "w") as fh:
                    fh.write(dc.kernel_text(instrs))
                fixed = rnd.random() < 0.3
                jobs.append(("generated:%s:%d|%s|%s" % (isa, q, arch, "F" if fixed else "o"),
                             ["--arch", arch] + (["--fixed"] if fixed else []) + [path], fixed, False, work))
    ctx = multiprocessing.get_context("fork")
    with concurrent.futures.ProcessPoolExecutor(12, mp_context=ctx) as pool:
        res = list(pool.map(_one, jobs))
    shutil.rmtree(work, ignore_errors=True)
    run.note("whole_run_skipped_large", len([r for r in res if "skipped" in r]))
    fdr = [r for r in res if "|detected|" in r["id"] or "|misdetected|" in r["id"] or "|upper-t" in r["id"]]
    run.note("whole_run_front_door", {
        "runs": len(fdr), "recorder_errors": len([r for r in fdr if "error" in r]),
        "without_arch": len([r for r in fdr if "events" in r and any(e["ev"] == "detect" for e in r["events"])]),
        "retried_with_other_isa": len([r for r in fdr if "events" in r and any(e["ev"] == "parsefail" for e in r["events"])])})
    res = [r for r in res if "skipped" not in r]
    good = [r for r in res if "error" not in r]
    bad = [r for r in res if "error" in r]
    for r in bad:
        # a crash of the pipeline on a shipped kernel: attribute by the stage named in the error is not
        # possible here; every property that runs whole traces reports it
        if "misdetected" in r["id"]:
            # a file the heuristics take for the other ISA may legitimately be parsed into nonsense: no claim
            continue
        if "TypeError" in r["error"] or "IndexError" in r["error"] or "KeyError" in r["error"] or "AttributeError" in r["error"]:
            run.fail("%s:whole-run-exception:%s" % (pid, r["error"].split(":")[0]), "%s on osaca %s" % (r["error"], " ".join(r["argv"])), r)
    slim = [{k: v for k, v in r.items() if k != "argv"} for r in good]
    rejects, r = tlc.batch_validate("Trace_Osaca", "Trace_Osaca", slim, tag="osaca-" + pid.lower(), timeout=1500)
    run.add_mc(r, "Trace_Osaca")
    byid = {c["id"]: c for c in good}
    others = {}
    for cid, clause, _ in rejects:
        if clause.startswith("order:"):
            # the code no longer follows the stage order of the specification; the values it reports are
            # judged by the value clauses and by the stage checks
            run.divergence("pipeline-order", {"id": cid, "clause": clause})
        elif owner(clause) == pid:
            run.fail("%s:whole-run:%s:%s" % (pid, clause, cid.split("|")[1]), "%s in `osaca %s`" % (clause, " ".join(byid[cid]["argv"])), byid[cid])
        else:
            others[clause] = others.get(clause, 0) + 1
    if others:
        run.note("whole_run_clauses_owned_by_other_properties", others)
    run.add_traces(len(good))
    run.note("whole_run_traces", len(good))
    # the front-door part of Step model-checked on its own (all event sequences over a small alphabet)
    for cfgname in ("MC_FrontDoor_guessed", "MC_FrontDoor_named"):
        run.add_mc(tlc.run_tlc("MC_FrontDoor", cfgname, workers=2, timeout=300), cfgname)
    # R1 for the pipeline order: all orders of the stage events of one ACCEPTED recorded run
    rejected_ids = {cid for cid, _, _ in rejects}
    accepted = [c for c in good if c["id"] not in rejected_ids]
    if accepted:
        small = min(accepted, key=lambda c: sum(len(str(e)) for e in c["events"]))
        evs = []
        for e in small["events"]:   # repeated critical-path queries are one stage
            if not (evs and e["ev"] == "cp" and evs[-1]["ev"] == "cp"):
                evs.append(e)
        small = dict(small, events=evs)
        try:
            _, r2 = tlc.batch_validate("MC_Osaca", "MC_Osaca", [{k: v for k, v in small.items() if k != "argv"}],
                                       tag="mcosaca-" + pid.lower())
            run.add_mc(r2, "MC_Osaca")
        except tlc.TLCError as e:
            if "violated" in str(e) or "MC_Osaca" in str(e):
                run.divergence("pipeline-order-model", {"id": small["id"]})
            else:
                raise
    return len(good)


# ------------------------------------------------------------------------------------------
# API-level reuse: one Frontend object for several kernels, one kernel (its instruction forms) for
# several graphs.  The CLI never does either, library users do; the reported numbers of a kernel
# must not depend on it (C04 / C05 / C13 state them "for every kernel").
# ------------------------------------------------------------------------------------------
def _analyse(text, arch, mm, sem, parser, frontend=None, kernel=None, flag_deps=False):
    from osaca.frontend import Frontend
    from osaca.semantics import KernelDG

    if kernel is None:
        kernel = parser.parse_file(text)
        sem.add_semantics(kernel)
        sem.assign_optimal_throughput(kernel)
        sem.assign_optimal_throughput(kernel)
    dg = KernelDG(kernel, parser, mm, sem, -1, flag_deps)
    fe = frontend or Frontend(arch=arch)
    rep = fe.full_analysis(kernel, dg, ignore_unknown=True, arch_warning=False, length_warning=False, lcd_warning=False)
    d = fe.full_analysis_dict(kernel, dg)
    proj = {"cp": round(float(d["Summary"]["CriticalPath"]), 6), "lcd": round(float(d["Summary"]["LCD"]), 6),
            "cpcells": [round(float(k["LatencyCP"]), 6) for k in d["Kernel"]],
            "lcdcells": [round(float(k["LatencyLCD"]), 6) for k in d["Kernel"]],
            "totals": [round(float(v), 6) for v in d["Summary"]["PortPressure"].values()],
            "text": "\n".join(l for l in rep.split("\n") if not l.startswith(("Timestamp", "Analyzed file", "Open Source")))}
    return proj, kernel, fe


def api_reuse(run, pid, tier, seed):
    from harness import deps_common as dc
    from harness import synth, vocab

    rnd = random.Random(seed * 17 + 3)
    archs = env.QUICK_X86 + env.QUICK_ARM if tier == "quick" else env.X86_ARCHS + env.ARM_ARCHS
    env.warm_models(archs)
    n_checked = 0
    for arch in archs:
        mm, sem, parser = synth.load_arch(arch)
        isa = mm.get_ISA()
        n = rnd.randint(3, 6)
        gp, vec = vocab.pools(isa, rnd, 2, 2)
        texts = [dc.kernel_text([vocab.gen(isa, rnd, gp, vec) for _ in range(n)]) for _ in range(5 if tier == "quick" else 12)]
        # hand-written families: the same lines carry cycles of different latency; a flag chain that is the
        # critical path only with flag dependencies
        if isa == "x86":
            texts += ["\t%s %%rax, %%rbx\n\t%s %%rbx, %%rax\n" % ab for ab in (("imulq", "addq"), ("addq", "addq"), ("addq", "imulq"))]
            texts += ["\taddq %rax, %rbx\n\tadcq %rcx, %rdx\n\tsbbq %rsi, %rdi\n\tadcq %r8, %r9\n\timulq %r10, %r11\n"]
        else:
            texts += ["\t%s x1, x0, x0\n\t%s x0, x1, x1\n" % ab for ab in (("mul", "add"), ("add", "add"), ("add", "mul"))]
            texts += ["\tadds x1, x2, x3\n\tadcs x4, x5, x6\n\tadcs x7, x8, x9\n\tmul x10, x11, x12\n"]
        fresh = [_analyse(t, arch, mm, sem, parser)[0] for t in texts]
        # (a) one Frontend for all kernels
        fe = None
        for t, want in zip(texts, fresh):
            try:
                got, _, fe = _analyse(t, arch, mm, sem, parser, frontend=fe)
            except Exception as e:  # noqa
                if pid == "C13":
                    run.fail("C13:api-reuse:exception:frontend", "%s: %s" % (type(e).__name__, e), {"text": t, "arch": arch})
                break
            n_checked += 1
            _compare_reuse(run, pid, "frontend-reused", arch, t, want, got)
        # (b) one parsed kernel for two graphs (with, then without flag dependencies)
        for t, want in zip(texts, fresh):
            try:
                _, kernel, _ = _analyse(t, arch, mm, sem, parser, flag_deps=True)
                got, _, _ = _analyse(t, arch, mm, sem, parser, kernel=kernel, flag_deps=False)
            except Exception as e:  # noqa
                if pid == "C13":
                    run.fail("C13:api-reuse:exception:kernel", "%s: %s" % (type(e).__name__, e), {"text": t, "arch": arch})
                break
            n_checked += 1
            _compare_reuse(run, pid, "kernel-reused", arch, t, want, got)
    run.note("api_reuse_comparisons", n_checked)
    run.add_eval(n_checked)


def _compare_reuse(run, pid, how, arch, text, want, got):
    diffs = [k for k in want if want[k] != got[k]]
    if not diffs:
        return
    own = "C04" if any(k in ("cp", "cpcells") for k in diffs) else ("C05" if any(k in ("lcd", "lcdcells") for k in diffs) else "C13")
    if own != pid and not (pid == "C13" and "text" in diffs and len(diffs) == 1):
        return
    k = [d for d in diffs if d != "text"] or diffs
    run.fail("%s:api-reuse:%s:%s" % (pid, how, k[0]),
             "%s on %s: %s differs from the analysis with fresh objects: %r vs %r" % (how, arch, k[0], str(got[k[0]])[:200], str(want[k[0]])[:200]),
             {"text": text, "arch": arch, "how": how, "fresh": want, "reused": got})
