"""C10  AArch64 parser recovers every line and operand exactly as written.

R1  TLC enumerates the AArch64 operand-kind lattice (MC_AsmSyntax_aarch64: scalar/vector/SVE/
    predicate registers, lists and ranges, immediates with/without '#', dec/hex/float, condition
    codes, labels, memory references with offset / index+shift 0-4 / pre- and post-index) checking
    the rules of Canon, and all files of <= 4 lines over the line alphabet (MC_ParseFile).
R2  Every emitted operand is rendered in valid operand positions with several seeded layouts and
    parsed by ParserAArch64.parse_line; every emitted file is rendered and parsed by parse_file.
R3  Seeded random instructions (0-5 operands, memory/condition/label last), random files and the
    repository's own AArch64 files; decided by TLC (Trace_AsmSyntax, Trace_ParseFile)."""
from harness import parsers_common as PC


def main(tier, seed):
    return PC.run_check("C10", "aarch64", tier, seed)


def replay(path):
    return PC.replay_check("C10", "aarch64", path)
