"""C13  Text report, machine-readable output and totals agree.

R1  TLC explores the report as a block-emitting state machine over the flag cube x kernel shapes
    (MC_Report) and the cell-rounding rule on the value lattice (MC_ReportCells).
R2  (a) for every flag combination emitted by MC_Report a matching real run of
    osaca.osaca.inspect is produced (--arch or not, > 100-line unmarked file or not, kernel with
    no / some / only unknown instructions, --ignore-unknown or not, LCD search timed out or not)
    and its block sequence compared with the emitted one;
    (b) the values of the table emitted by MC_ReportCells are injected into the port-pressure
    cells of a really analysed kernel and Frontend.full_analysis / full_analysis_dict are called
    on it: every printed cell must be one of the integers the table allows for the shown digits.
R3  Real runs (in-process inspect with recording stand-ins for KernelDG/Frontend, and CLI
    subprocesses with --yaml-out) on shipped kernels x models x {--fixed, optimal} x
    {--ignore-unknown} x {--arch or not}, generated kernels (unknown mnemonics, zero-pressure
    instructions, port sums >= 10 and >= 100, 100/101-line files, LCD time-out): the text report
    is parsed back (harness/report_parse.py) and one JSON case per report (text cells as
    (digits, integer), dict values in 1/12000 cycle, recorded LCD dictionary) is validated by
    TLC against Report.tla (Trace_Report), which names every failing clause."""
import json
import os
import random

from harness import env, report_parse, tlc
from harness import selrep_common as sc
from harness.verdict import Run

WORKERS = 16
INT_MAX = 2 ** 31 - 1


# ------------------------------------------------------------------------------ projection
def _pp_cell(text):
    cv = report_parse.cell_value(text)
    if cv is None:
        raise ValueError("cell is not a number: %r" % text)
    d, n = cv
    if d > 4 or abs(n) * sc.U > INT_MAX:
        raise sc.Unrepresentable("cell %r" % text)
    return d, n


def _exact_cell(text):
    """A cell printed with str(float): exact value in units (d = 9), blank = [-1, 0]."""
    if text is None:
        return [-1, 0]
    if report_parse.cell_value(text) is None:
        raise ValueError("cell is not a number: %r" % text)
    return [9, sc.units(float(text))]


def _guard(v, d):
    if d != 9 and abs(v) * (10 ** d) > 500000000:
        raise sc.Unrepresentable("value %d at %d digits" % (v, d))


def project(res, meta, d=None, lcds=None):
    """(text report, dict[, recorded LCDs]) -> Trace_Report case.  Raises Unrepresentable."""
    d = d if d is not None else res["dict"]
    rep = report_parse.parse_report(res["text"])
    case = dict(meta)
    case["problems"] = rep["problems"]
    ports = [str(p) for p in d["Target"]["Ports"]]
    case["ports_header"] = rep["ports"]
    case["ports_dict"] = ports
    case["nports"] = len(ports)
    case["blocks"] = rep["blocks"]
    case["hdr"] = rep["header"].get("Architecture", "")
    case["warnings"] = [str(w) for w in d["Warnings"]]
    case["missing"] = -1 if rep["missing"] is None else rep["missing"]
    rows = []
    for r in rep["rows"]:
        pp = []
        for i, c in enumerate(r["cells"]):
            if c is not None:
                dd, n = _pp_cell(c)
                pp.append([i + 1, dd, n])
        rows.append({"ln": r["line"], "pp": pp, "cp": _exact_cell(r["cp"]), "lcd": _exact_cell(r["lcd"]),
                     "x": "X" in r["flags"]})
    case["rows"] = rows
    dk = []
    for e in d["Kernel"]:
        pp = []
        for i, p in enumerate(ports):
            v = sc.units(e["PortPressure"][d["Target"]["Ports"][i]])
            if v != 0:
                pp.append([i + 1, v])
        dk.append({"ln": e["LineNumber"], "pp": pp, "cp": sc.units(e["LatencyCP"]), "lcd": sc.units(e["LatencyLCD"]),
                   "unk": "tp_unknown" in [str(f) for f in e["Flags"]]})
    case["dk"] = dk
    case["madeup"] = [e["LineNumber"] for e in d["Kernel"]
                      if str(e.get("Line", "")).strip().split(" ")[0].split("\t")[0].lower() in MADEUP]
    # overflow guard for the products TLC forms: a cell whose comparison does not fit 32 bits is taken
    # out of the case on both sides (counted), the rest of the report is still judged
    skipped = 0
    for r, e in zip(rows, dk):
        vals = dict((x[0], x[1]) for x in e["pp"])
        for cell in list(r["pp"]):
            try:
                _guard(vals.get(cell[0], 0), cell[1])
            except sc.Unrepresentable:
                r["pp"].remove(cell)
                e["pp"] = [x for x in e["pp"] if x[0] != cell[0]]
                skipped += 1
    case["skipped_cells"] = skipped
    sm = d["Summary"]
    case["sum"] = {"pp": [[i + 1, sc.units(sm["PortPressure"][d["Target"]["Ports"][i]])] for i in range(len(ports))
                          if sc.units(sm["PortPressure"][d["Target"]["Ports"][i]]) != 0],
                   "cp": sc.units(sm["CriticalPath"]), "lcd": sc.units(sm["LCD"])}
    if rep["totals"] is not None:
        tpp = []
        vals = dict((x[0], x[1]) for x in case["sum"]["pp"])
        for i, c in enumerate(rep["totals"]["cells"]):
            if c is not None:
                dd, n = _pp_cell(c)
                _guard(vals.get(i + 1, 0), dd)
                tpp.append([i + 1, dd, n])
        case["tot"] = {"pp": tpp, "cp": _exact_cell(rep["totals"]["cp"]), "lcd": _exact_cell(rep["totals"]["lcd"])}
    else:
        case["tot"] = {"pp": [], "cp": [-1, 0], "lcd": [-1, 0]}
    ll = []
    for l in rep["lcd_list"]:
        dd, n = _pp_cell(l["lat"])
        ll.append({"root": l["root"], "lat": [dd, n], "mem": l["members"]})
    case["lcdlist"] = ll
    lcds = lcds if lcds is not None else res.get("lcds")
    if lcds is None or len(lcds) > 200:
        case["lcdcheck"] = False
        case["lcds"] = []
        case["lcdlist"] = []
        case["lcd_skipped"] = "no recorder" if lcds is None else "%d LCDs" % len(lcds)
    else:
        case["lcdcheck"] = True
        case["lcds"] = [{"lat": sc.units(l["lat"]), "mem": l["lines"], "lats": [sc.units(x) for x in l["lats"]]}
                        for l in lcds]
        for l, t in zip(case["lcds"], ll):
            _guard(l["lat"], 1)
    return case


TRACE_KEYS = ("id", "fl", "given", "hdr", "isa", "blocks", "warnings", "missing", "rows", "dk", "tot", "sum", "nports",
              "lcdlist", "lcds", "lcdcheck", "madeup")
# mnemonics no instruction set has: lines with them lack performance data by construction, whatever operands they carry
MADEUP = ("vfoopd", "fooq", "vfoo", "foo")


# ------------------------------------------------------------------------------ generated kernels
POOL = {
    "x86": {"known": ["vaddpd %xmm0, %xmm1, %xmm2", "addq $1, %rax", "vmulpd %xmm3, %xmm4, %xmm5", "cmpq %rbx, %rax"],
            "unknown": ["vfoopd %xmm1, %xmm2, %xmm3", "fooq %rax, %rbx", "vfoopd (%rax), %xmm2, %xmm3", "fooq %rcx, 8(%rbx)"],
            "zero": ["jne .L1"], "label": ".L1:", "cm": "#",
            "heavy": "vaddpd %xmm0, %xmm1, %xmm2", "chain": ["vaddpd %xmm2, %xmm1, %xmm2", "vmulpd %xmm2, %xmm6, %xmm7"]},
    "aarch64": {"known": ["fadd d0, d1, d2", "add x0, x0, #1", "fmul d3, d4, d5", "cmp x1, x2"],
                "unknown": ["vfoo d1, d2, d3", "foo x1, x2", "vfoo d1, [x2]", "foo x1, [x2, #8]"],
                "zero": ["b.ne .L1"], "label": ".L1:", "cm": "//",
                "heavy": "fadd d0, d1, d2", "chain": ["fadd d2, d1, d2", "fmul d7, d2, d6"]},
}
MARK = {"x86": ("# OSACA-BEGIN", "# OSACA-END"), "aarch64": ("// OSACA-BEGIN", "// OSACA-END")}


def gen_kernel(isa, n, shape, marked=False, rnd=None, blanks=False):
    """n non-blank lines (markers not counted when marked)."""
    pool = POOL[isa]
    rnd = rnd or random.Random(0)
    lines = []
    for i in range(n):
        if shape == "all":
            lines.append(pool["unknown"][i % 4])
        elif shape == "some" and i % 7 == 3:
            lines.append(pool["unknown"][(i // 7) % 4])
        else:
            lines.append(pool["known"][i % len(pool["known"])])
    if shape == "some" and n <= 3:
        lines[-1] = pool["unknown"][2]
    if marked:
        lines = ["%s pre" % pool["cm"], MARK[isa][0]] + lines + [MARK[isa][1], pool["known"][0]]
    if blanks:
        out = []
        for l in lines:
            out.append(l)
            if rnd.random() < 0.2:
                out.append("")
        lines = out
    return "\n".join(lines) + "\n"


def half_known_lines(arch, isa, limit=4):
    """Instructions the model knows a latency but no throughput for (or the other way round): they lack performance
    data like a made-up mnemonic does - marked X, counted by the missing-data warning.  Read from the model file by
    a plain YAML load; only all-register forms are rendered."""
    import ruamel.yaml

    path = os.path.join(env.REPO, "osaca", "data", arch + ".yml")
    with open(path) as f:
        model = ruamel.yaml.YAML(typ="safe").load(f)
    x86 = {"gpr": ["%rax", "%rbx", "%rcx"], "xmm": ["%xmm1", "%xmm2", "%xmm3"], "ymm": ["%ymm1", "%ymm2", "%ymm3"]}
    out = []
    for form in model.get("instruction_forms") or []:
        tp, lat = form.get("throughput"), form.get("latency")
        if (tp is None) == (lat is None):
            continue
        ops = form.get("operands") or []
        regs = []
        for i, o in enumerate(ops):
            if o.get("class") != "register":
                regs = None
                break
            if isa == "x86":
                if o.get("name") not in x86:
                    regs = None
                    break
                regs.append(x86[o["name"]][i % 3])
            else:
                if o.get("prefix") not in ("x", "w", "d", "s", "q") or o.get("shape"):
                    regs = None
                    break
                regs.append("%s%d" % (o["prefix"], i + 1))
        if not regs:
            continue
        names = form["name"] if isinstance(form["name"], list) else [form["name"]]
        out.append("%s %s" % (str(names[0]).lower(), ", ".join(regs)))
        if len(out) >= limit:
            break
    return out


def special_kernels(isa):
    p = POOL[isa]
    ks = {}
    ks["unknown-mix"] = "\n".join([p["known"][0], p["unknown"][0], p["known"][1], p["unknown"][1], p["chain"][0],
                                   p["unknown"][2], p["unknown"][3]]) + "\n"
    ks["zero-pressure"] = "\n".join([p["label"], p["known"][0], p["chain"][0], p["chain"][1], p["known"][3], p["zero"][0]]) + "\n"
    ks["sum10"] = "\n".join([p["heavy"]] * 44) + "\n"
    ks["sum100"] = "\n".join([p["heavy"]] * 230 + [p["chain"][0]]) + "\n"
    ks["chain"] = "\n".join([p["chain"][0], p["chain"][1], p["known"][1], p["chain"][0], p["known"][3]]) + "\n"
    ks["only-unknown"] = "\n".join(p["unknown"] * 2) + "\n"
    ks["comment-first"] = "\n".join(["%s c" % p["cm"], p["label"], p["known"][0], p["chain"][0]]) + "\n"
    return ks


# ------------------------------------------------------------------------------ jobs
def _write(scratch, name, text):
    path = os.path.join(scratch, name)
    with open(path, "w") as f:
        f.write(text)
    return path


def _scratch():
    d = os.path.join(env.WORK, "scratch", "c13-%d" % os.getpid())
    os.makedirs(d, exist_ok=True)
    return d


def _finish(res, meta):
    """inspect result -> outcome record (case or failure)."""
    out = {"meta": meta}
    if not res["ok"]:
        out["error"] = res["error"]
        out["where"] = res["where"]
        return out
    meta = dict(meta)
    meta["fl"] = dict(meta["fl"])
    meta["fl"]["to"] = bool(res["timed_out"]) if res.get("timed_out") is not None else False
    try:
        out["case"] = project(res, meta)
    except sc.Unrepresentable as e:
        out["unrepresentable"] = str(e)
    except ValueError as e:
        out["layout"] = str(e)
    return out


def _run_job(job):
    """('file'|'text', source, isa, arch|None, opts) -> outcome"""
    kind, src, isa, arch, o = job
    if kind == "text":
        path = _write(_scratch(), "k_%s.s" % (abs(hash(src)) % 10 ** 10), src)
        text = src
    else:
        path = os.path.join(env.REPO, src)
        text = sc.read_kernel(src)
    # "an unmarked file of more than 100 parsed lines analysed as a whole" (trusted classification)
    kinds = [r["k"] for _, r in sc.classify(text, isa)]
    o = dict(o)
    o["big"] = (not o.get("lines")) and len(kinds) > 100 and not (
        set(kinds) & {"startmov", "endmov", "begincmt", "endcmt"})
    meta = {"id": o["id"], "isa": isa, "given": (arch or "").upper(), "src": src if kind == "file" else None,
            "text_in": src if kind == "text" else None, "arch": arch, "opts": {k: o.get(k) for k in
                                                                             ("fixed", "ign", "lines", "lcd_timeout")},
            "fl": {"arch": arch is not None, "big": bool(o.get("big")), "ign": bool(o.get("ign"))}, "via": o.get("via", "api")}
    if o.get("via") == "cli":
        return _cli_job(path, meta, o)
    res = sc.run_inspect(path, arch, lines=o.get("lines"), fixed=bool(o.get("fixed")), ignore_unknown=bool(o.get("ign")),
                         lcd_timeout=o.get("lcd_timeout", -1), want_dict="direct")
    return _finish(res, meta)


def _cli_job(path, meta, o):
    from ruamel.yaml import YAML

    ypath = os.path.join(_scratch(), "out_%s.yml" % (abs(hash(meta["id"])) % 10 ** 10))
    argv = []
    if meta["arch"]:
        argv += ["--arch", meta["arch"]]
    if o.get("fixed"):
        argv += ["--fixed"]
    if o.get("ign"):
        argv += ["--ignore-unknown"]
    if o.get("lines"):
        argv += ["--lines", o["lines"]]
    argv += ["--lcd-timeout", str(o.get("lcd_timeout", -1)), "--yaml-out", ypath, path]
    rc, out, err = env.run_cli(argv, home=os.environ["HOME"], timeout=900)
    res = {"ok": rc == 0, "text": out, "timed_out": None, "lcds": None}
    if rc != 0:
        last = [l for l in err.strip().splitlines() if l.strip()][-1:] or ["rc=%d" % rc]
        where = "cli"
        for l in err.splitlines():
            if 'File "' in l and "/osaca/" in l:
                where = "%s:%s" % (os.path.basename(l.split('"')[1]), l.rsplit(" in ", 1)[-1].strip())
        return {"meta": meta, "error": last[0], "where": where}
    with open(ypath) as f:
        res["dict"] = YAML(typ="unsafe", pure=True).load(f)
    os.unlink(ypath)
    if out.endswith("\n"):
        res["text"] = out[:-1]  # print() of the report adds one newline
    res["timed_out"] = "LCDWarning" in [str(w) for w in res["dict"]["Warnings"]]  # not observable from outside
    return _finish(res, meta)


def _inject_job(job):
    """Inject lattice values into the port-pressure cells of an analysed kernel and call the
    real Frontend on it.  job = (isa, arch, values, wide, idx, table)"""
    isa, arch, values, wide, idx, table = job
    p = POOL[isa]
    nlines = 6
    text = "\n".join([p["known"][i % 4] for i in range(nlines)] + [p["heavy"]]) + "\n"
    path = _write(_scratch(), "inj_%s.s" % isa, text)
    res = sc.run_inspect(path, arch, lcd_timeout=-1, want_dict=None)
    meta = {"id": "inject|%s|%d" % (isa, idx), "isa": isa, "given": arch.upper(), "arch": arch, "via": "inject",
            "fl": {"arch": True, "big": False, "ign": False}, "values": values, "wide": wide}
    if not res["ok"]:
        return {"meta": meta, "error": res["error"], "where": res["where"]}
    kernel, dg, fe = sc._REC["kernel"], sc._REC["dg"], sc._REC["fe"]
    nports = len(kernel[0].port_pressure)
    it = iter(values)
    placed = {}
    for li in range(nlines):
        for pi in range(nports):
            try:
                v = next(it)
            except StopIteration:
                break
            kernel[li].port_pressure[pi] = v / sc.U
            placed[(kernel[li].line_number, pi + 1)] = v
    if wide:  # a value >= 10 (or >= 100) in every column widens the column: more digits for the others
        kernel[nlines].port_pressure = [float(wide) for _ in range(nports)]
    if idx % 2 == 1:
        # latencies of quarter cycles (shipped models have whole and half cycles only): the critical-path and
        # LCD cells and their totals are then no multiples of 0.1, so a cell or total that is rounded on the
        # way is visibly not the value of the machine-readable output.  The graph is rebuilt by the real code.
        for li, ins in enumerate(kernel):
            if ins.latency is None:
                continue
            q = 0.25 * (1 + (li + idx) % 3)
            if ins.latency_wo_load is not None:
                ins.latency_wo_load = ins.latency_wo_load + q
            ins.latency = ins.latency + q
        dg = type(dg)(kernel, dg.parser, dg.model, dg.arch_sem, -1, False)
        meta["quarter_latencies"] = True
    r2 = {"ok": True, "timed_out": bool(dg.timed_out)}
    try:
        r2["text"] = fe.full_analysis(kernel, dg, ignore_unknown=False, arch_warning=False, length_warning=False,
                                      lcd_warning=dg.timed_out)
        r2["dict"] = fe.full_analysis_dict(kernel, dg, arch_warning=False, length_warning=False, lcd_warning=dg.timed_out)
        r2["lcds"] = sc.project_lcds(dg.get_loopcarried_dependencies())
    except Exception as e:
        return {"meta": meta, "error": "%s: %s" % (type(e).__name__, e), "where": "frontend.py:inject"}
    out = _finish(r2, meta)
    # direct comparison with the emitted table
    bad = []
    if "case" in out:
        for row in out["case"]["rows"]:
            for pidx, dd, n in row["pp"]:
                v = placed.get((row["ln"], pidx))
                if v is None:
                    continue
                allowed = table.get("%d|%d" % (v, dd))
                if allowed is not None and n not in allowed:
                    bad.append({"v_units": v, "digits": dd, "shown": n, "allowed": allowed})
        out["table_checked"] = sum(1 for row in out["case"]["rows"] for c in row["pp"]
                                   if (row["ln"], c[0]) in placed and "%d|%d" % (placed[(row["ln"], c[0])], c[1]) in table)
    out["table_bad"] = bad
    return out


def _job(j):
    if j[0] == "inject":
        return _inject_job(j[1])
    return _run_job(j[1])


# ------------------------------------------------------------------------------ main
def main(tier, seed):
    _PER_SIG.clear()
    run = Run("C13", tier, seed)
    rnd = random.Random(seed)
    quick = tier == "quick"
    run.rule = ("one case = one report (text + dict [+ recorded LCD dictionary]) of a real run: shipped kernels x models x "
                "{--fixed, optimal} x {--ignore-unknown} x {--arch or default}, generated kernels (unknown mnemonics, "
                "zero-pressure, port sums >= 10 / >= 100, 100/101 lines, time-out), the 48 flag combinations emitted by "
                "MC_Report per ISA, and lattice values emitted by MC_ReportCells injected into real kernels; "
                "non-trivial = report with >= 1 shown LCD cell or >= 1 unknown instruction or a total >= 10 cycles")
    home = sc.use_private_home()
    archs = {isa: sc.archs_for(isa, tier) for isa in ("x86", "aarch64")}
    from osaca.osaca import DEFAULT_ARCHS

    defaults = {isa: DEFAULT_ARCHS[isa].lower() for isa in ("x86", "aarch64")}
    run.note("default_archs", defaults)
    empty = [a for a in defaults.values() if a in env.EMPTY_ARCHS]
    warm_list = sorted(set(archs["x86"] + archs["aarch64"] + [a for a in defaults.values() if a not in empty]))
    warm = env.warm_models(warm_list, home=home)
    bad = {k: v for k, v in warm.items() if v[0] != 0}
    if bad:
        raise RuntimeError("could not load models: %s" % bad)

    # ---- R1
    out = os.path.join(tlc.WORK, "c13-blocks-%d.ndjson" % os.getpid())
    os.makedirs(tlc.WORK, exist_ok=True)
    for f in (out,):
        if os.path.exists(f):
            os.unlink(f)
    r = tlc.run_tlc("MC_Report", "MC_Report", env={"OUTFILE": out}, workers=4, timeout=600, coverage=True)
    run.add_mc(r, "MC_Report")
    for act in ("Header", "ArchWarn", "NoArchWarn", "LenWarn", "NoLenWarn", "Table", "MissingWarn", "Totals", "LcdWarn",
                "NoLcdWarn", "LcdList"):
        if r.coverage.get(act, (0, 0))[0] == 0:
            raise tlc.TLCError("action %s of MC_Report never taken" % act)
    cube = {}
    for rec in tlc.read_emitted(out):
        cube[(rec["arch"], rec["big"], rec["ign"], rec["to"], rec["shape"])] = rec
    os.unlink(out)
    out = os.path.join(tlc.WORK, "c13-cells-%d.ndjson" % os.getpid())
    if os.path.exists(out):
        os.unlink(out)
    r = tlc.run_tlc("MC_ReportCells", "MC_ReportCells", env={"OUTFILE": out}, workers=4, timeout=600)
    run.add_mc(r, "MC_ReportCells")
    table = {}
    for rec in tlc.read_emitted(out):
        table["%d|%d" % (rec["v"], rec["d"])] = rec["ns"]
    os.unlink(out)
    tvals = sorted(set(int(k.split("|")[0]) for k in table))

    # ---- jobs
    jobs = []

    def add(kind, src, isa, arch, **o):
        o["id"] = "c%d" % len(jobs)
        jobs.append(("run", (kind, src, isa, arch, o)))

    # R2a: the flag cube
    for isa in ("x86", "aarch64"):
        if defaults[isa] in empty:
            continue
        for (a, big, ign, to, shape), rec in sorted(cube.items()):
            n = 104 if big else (60 if to else 5)
            text = gen_kernel(isa, n, shape, marked=False, rnd=rnd, blanks=big)
            add("text", text, isa, archs[isa][0] if a else None, ign=ign, big=big, lcd_timeout=0 if to else -1,
                cube=[a, big, ign, to, shape])
    # R3: shipped kernels
    corpus = [(rel, isa) for rel, isa in sc.corpus() if "long_LCD" not in rel]
    n_cli = 0
    for rel, isa in corpus:
        unmarked = "unmarked" in rel
        fs_archs = archs[isa]
        if quick and not rel.startswith("tests/"):
            if rnd.random() < 0.75:
                continue
            fs_archs = [rnd.choice(archs[isa])]
        for arch in fs_archs:
            for fixed in (False, True):
                for ign in ((rnd.random() < 0.5,) if quick else (False, True)):
                    via = "cli" if rnd.random() < (0.04 if not quick else 0.08) else "api"
                    n_cli += via == "cli"
                    o = dict(fixed=fixed, ign=ign, big=unmarked, via=via)
                    if unmarked:
                        o["lcd_timeout"] = 30  # 345 lines analysed as a whole (completes in ~1 s; bounded in case it does not)
                    add("file", rel, isa, arch, **o)
        if defaults[isa] not in empty and (not quick or rnd.random() < 0.5):
            o = dict(fixed=rnd.random() < 0.5, ign=rnd.random() < 0.5, big=unmarked)
            if unmarked:
                o["lcd_timeout"] = 30
            add("file", rel, isa, None, **o)
    # the heavy time-out witness among the shipped files (thorough only)
    if not quick:
        add("file", "tests/test_files/kernel_x86_long_LCD.s", "x86", "zen1", lcd_timeout=1, fixed=False, ign=True)
    # R3: generated kernels
    for isa in ("x86", "aarch64"):
        for name, text in sorted(special_kernels(isa).items()):
            for arch in (archs[isa] if not quick else archs[isa][:2]):
                for fixed in (False, True):
                    for ign in ((False, True) if "unknown" in name else (rnd.random() < 0.5,)):
                        add("text", text, isa, arch, fixed=fixed, ign=ign, gen=name)
        # boundary of the large-kernel warning
        for n, marked, lines in ((100, False, None), (101, False, None), (101, True, None), (120, False, "1-110")):
            text = gen_kernel(isa, n, "known", marked=marked, rnd=rnd, blanks=True)
            nonblank = len([l for l in text.split("\n") if l.strip()])
            big = (not marked) and lines is None and nonblank > 100
            add("text", text, isa, archs[isa][0], big=big, lines=lines, gen="len%d%s" % (n, "m" if marked else ""))
        # the threshold counts PARSED lines (labels, directives and comments included), not instructions:
        # 96 / 100 instructions with 8 / 1 other lines in between are large kernels, 95 + 5 is not
        for ninstr, nother in ((96, 8), (100, 1), (95, 5)):
            body = gen_kernel(isa, ninstr, "known", rnd=rnd).split("\n")[:-1]
            other = [".L%d:" % q if q % 3 == 0 else (POOL[isa]["cm"] + " note %d" % q if q % 3 == 1 else ".p2align 4")
                     for q in range(nother)]
            for q, o in enumerate(other):
                body.insert(3 + 9 * q, o)
            add("text", "\n".join(body) + "\n", isa, archs[isa][0], big=(ninstr + nother > 100), gen="len%d+%d" % (ninstr, nother))
        # F2 witness class: --fixed with an entry that offers alternative port assignments
        if isa == "aarch64" and "a64fx" in archs[isa]:
            add("text", "smlal v0.2d, v1.2s, v2.2s\nadd x0, x0, #1\n", isa, "a64fx", fixed=True, gen="alt-assign")
            add("text", "smlal v0.2d, v1.2s, v2.2s\nadd x0, x0, #1\n", isa, "a64fx", fixed=False, gen="alt-assign")
    # CLI runs of generated kernels
    for isa in ("x86", "aarch64"):
        ks = special_kernels(isa)
        for name in ("unknown-mix", "chain") + (() if quick else ("sum10", "zero-pressure")):
            add("text", ks[name], isa, archs[isa][0], ign=(name == "unknown-mix"), via="cli", gen=name)
            n_cli += 1
        if defaults[isa] not in empty:
            add("text", ks["chain"], isa, None, via="cli", gen="chain")
            n_cli += 1
        # instructions with half of their performance data (zen1: rcpss, sqrtsd; tx2: one form) next to a made-up one
        for arch in archs[isa]:
            if arch not in ("zen1", "tx2", "n1", "zen4"):
                continue
            hk = half_known_lines(arch, isa)
            if hk:
                p = POOL[isa]
                text = "\n".join([p["known"][0]] + hk + [p["unknown"][0], p["known"][1]]) + "\n"
                for ign in (False, True):
                    add("text", text, isa, arch, ign=ign, via="cli", gen="half-known")
                    n_cli += 1
    # R2b: injection of the emitted value table
    per = 60
    vals = list(tvals)
    rnd.shuffle(vals)
    if quick:
        vals = vals[:per * 8]
    idx = 0
    for isa in ("x86", "aarch64"):
        arch = archs[isa][0]
        for i in range(0, len(vals), per):
            chunk = vals[i:i + per]
            sub = {k: table[k] for v in chunk for k in ("%d|0" % v, "%d|1" % v, "%d|2" % v, "%d|3" % v) if k in table}
            wide = [None, 12.5, 104.25][(i // per) % 3]
            jobs.append(("inject", (isa, arch, chunk, wide, idx, sub)))
            idx += 1

    def weight(j):
        if j[0] == "inject":
            return 1
        o = j[1][4]
        return 0 if (o.get("gen") == "sum100" or (j[1][0] == "file" and ("unmarked" in j[1][1] or "long_LCD" in j[1][1]))) else 1

    jobs.sort(key=weight)
    results = sc.pool_map(_job, jobs, WORKERS)

    # ---- collect
    cases, byid = [], {}
    n_unrep = 0
    cube_seen = set()
    table_checked = 0
    for j, res in zip(jobs, results):
        meta = res["meta"]
        o = j[1][4] if j[0] == "run" else {}
        if "error" in res:
            etype = res["error"].split(":")[0]
            if not (res["where"].startswith("frontend.py") or res["where"].startswith("osaca.py")):
                # the analysis itself failed before any report existed (parser / semantics / graph stage):
                # nothing for C13 to compare; recorded, judged by the properties of those stages
                k = "%s:%s" % (res["where"], etype)
                run.extra.setdefault("analysis_failed_before_report", {})
                run.extra["analysis_failed_before_report"][k] = run.extra["analysis_failed_before_report"].get(k, 0) + 1
                continue
            sig = "C13:exception:%s:%s:%s" % (res["where"], etype, "fixed" if (o.get("fixed")) else "optimal")
            _fail(run, sig, "%s (%s, arch %s, options %s)" % (res["error"], meta.get("src") or o.get("gen") or "generated",
                                                           meta.get("arch"), meta.get("opts")), meta)
            continue
        if "unrepresentable" in res:
            n_unrep += 1
            run.extra.setdefault("unrepresentable_examples", [])
            if len(run.extra["unrepresentable_examples"]) < 5:
                run.extra["unrepresentable_examples"].append({"id": meta["id"], "why": res["unrepresentable"],
                                                              "src": meta.get("src")})
            continue
        if "layout" in res:
            _fail(run, "C13:layout:cell", res["layout"], meta)
            continue
        c = res["case"]
        if c["problems"]:
            _fail(run, "C13:layout:%s" % c["problems"][0].split(":")[0].split(" ")[0],
                     "report does not follow the layout its header defines: %s" % c["problems"][:2], _slim(c))
            continue
        if c["ports_header"] != c["ports_dict"]:
            _fail(run, "C13:layout:port-columns", "header ports %s, dict ports %s" % (c["ports_header"], c["ports_dict"]), _slim(c))
            continue
        for b in res.get("table_bad", []):
            _fail(run, "C13:cell:pp:table:d%d" % b["digits"],
                     "value %d/12000 cy printed as %d at %d digits; permitted %s" % (b["v_units"], b["shown"], b["digits"],
                                                                                     b["allowed"]), dict(_slim(c), bad=b))
        table_checked += res.get("table_checked", 0)
        if "cube" in o:
            a, big, ign, to, shape = o["cube"]
            unk = sum(1 for e in c["dk"] if e["unk"])
            ninstr = sum(1 for e in c["dk"])
            shape_obs = "known" if unk == 0 else ("all" if unk == ninstr else "some")
            key = (c["fl"]["arch"], c["fl"]["big"], c["fl"]["ign"], c["fl"]["to"], shape_obs)
            cube_seen.add((c["isa"],) + key)
            exp = cube[key]["blocks"]
            if c["blocks"] != exp:
                if set(c["blocks"]) != set(exp):
                    diff = sorted(set(c["blocks"]) ^ set(exp))
                    _fail(run, "C13:blocks:cube:%s" % ",".join(diff),
                             "flags arch=%s big=%s ign=%s to=%s shape=%s: blocks %s, MC_Report emits %s" % (
                                 key + (c["blocks"], exp)), _slim(c))
                else:
                    run.divergence("block-order", {"id": c["id"], "blocks": c["blocks"], "expected": exp})
        cases.append(c)
        byid[c["id"]] = c
        if c.get("skipped_cells"):
            run.extra["cells_beyond_32bit_skipped"] = run.extra.get("cells_beyond_32bit_skipped", 0) + c["skipped_cells"]
    run.note("unrepresentable_cases", n_unrep)
    run.note("cube_combinations_realised", len(cube_seen))
    run.note("cube_combinations_emitted", len(cube) * len([i for i in defaults if defaults[i] not in empty]))
    run.note("table_cells_checked", table_checked)
    run.add_traces(table_checked)
    if empty:
        run.assume("DEFAULT_ARCHS points to an emptied model file for %s; runs without --arch only for the other ISA" % empty)

    # ---- R3: TLC validates every report
    tcases = [{k: c[k] for k in TRACE_KEYS} for c in cases]
    # self-test of the binding: corrupted copies of real observations must be rejected with the right clause
    import copy

    selftest = {}
    for t in tcases:
        if "cell" not in selftest and any(r["pp"] for r in t["rows"]):
            u = copy.deepcopy(t)
            u["id"] = "selftest-cell"
            [r for r in u["rows"] if r["pp"]][0]["pp"][0][2] += 1000   # far off: wrong for any implementation
            selftest["selftest-cell"] = (u, "cell:pp")
        if "blocks" not in selftest and "ArchWarn" not in t["blocks"] and t["fl"]["arch"]:
            u = copy.deepcopy(t)
            u["id"] = "selftest-blocks"
            u["blocks"] = u["blocks"][:1] + ["ArchWarn"] + u["blocks"][1:]
            selftest["selftest-blocks"] = (u, "blocks:ArchWarn")
            selftest["blocks"] = None
        if "lcdlist" not in selftest and t["lcdcheck"] and len(t["lcdlist"]) > 0:
            u = copy.deepcopy(t)
            u["id"] = "selftest-lcdlist"
            u["lcdlist"] = u["lcdlist"][1:]
            selftest["selftest-lcdlist"] = (u, "lcdlist")
            selftest["lcdlist"] = None
        if "total" not in selftest and t["tot"]["pp"]:
            u = copy.deepcopy(t)
            u["id"] = "selftest-total"
            u["tot"]["pp"][0][2] += 1000
            selftest["selftest-total"] = (u, "total:pp")
            selftest["total"] = None
        if "selftest-cell" in selftest:
            selftest["cell"] = None
    selftest = {k: v for k, v in selftest.items() if v is not None}
    rj, r = tlc.batch_validate("Trace_Report", "Trace_Report", [u for u, _ in selftest.values()], tag="c13-selftest")
    got = {}
    for cid, clause, _ in rj:
        got.setdefault(cid, set()).add(clause)
    for k, (u, want) in selftest.items():
        if want not in got.get(k, set()):
            raise RuntimeError("binding self-test failed: %s not rejected with %r (got %s)" % (k, want, got.get(k)))
    run.note("binding_selftest", sorted(selftest))
    rejects = []
    B = 400
    for i in range(0, len(tcases), B):
        rj, r = tlc.batch_validate("Trace_Report", "Trace_Report", tcases[i:i + B], tag="c13", timeout=1500)
        run.add_mc(r, "Trace_Report[%d]" % (i // B))
        rejects += rj
    run.add_traces(len(tcases))
    div_count = {}
    for cid, clause, _ in rejects:
        c = byid[cid]
        if clause.startswith("B:"):
            div_count[clause] = div_count.get(clause, 0) + 1
            if div_count[clause] <= 3:
                run.divergence(clause, {"id": cid, "src": c.get("src"), "arch": c.get("arch"), "opts": c.get("opts")})
            continue
        detail = _detail(c, clause)
        _fail(run, "C13:%s%s" % (clause, (":" + detail) if detail else ""),
                 "%s (arch %s, %s, options %s): clause %s fails%s" % (
                     c.get("src") or c.get("via"), c.get("arch"), c["id"], c.get("opts"), clause, _explain(c, clause)),
                 _slim(c))
    run.note("levelB_observations", div_count)
    via = {}
    for c in cases:
        via[c["via"]] = via.get(c["via"], 0) + 1
        if any(r["lcd"][0] != -1 for r in c["rows"]) or any(e["unk"] for e in c["dk"]) or any(
                v[1] >= 10 * sc.U for v in c["sum"]["pp"]):
            run.mark(c["id"] + "|" + str(c.get("src")) + "|" + str(c.get("arch")) + "|" + json.dumps(c.get("opts"), sort_keys=True))
    run.note("reports_by_driver", via)
    for c in cases[:1] + cases[len(cases) // 2:len(cases) // 2 + 1]:
        run.sample({"id": c["id"], "src": c.get("src"), "arch": c.get("arch"), "opts": c.get("opts"), "blocks": c["blocks"],
                    "row": c["rows"][min(3, len(c["rows"]) - 1)], "dict_row": c["dk"][min(3, len(c["dk"]) - 1)],
                    "totals": c["tot"], "summary": c["sum"]})
    run.assume("text cells are read by harness/report_parse.py from the column layout the report's own header defines")
    run.assume("values are exchanged in units of 1/12000 cycle; a report with a value off that lattice by more than 1e-6 cy "
               "or beyond 32-bit products is counted as unrepresentable, not judged")
    run.assume("the dict is the value returned by Frontend.full_analysis_dict (recorded, or called with the recorded "
               "kernel/KernelDG and the same flags); for CLI runs it is the --yaml-out file; the LCD list is compared with "
               "KernelDG.get_loopcarried_dependencies recorded by a stand-in subclass (reports with > 200 LCDs: list not compared)")
    run.assume("blank text cell = value 0 in the dict (the report's own convention for port-pressure cells)")
    try:
        import shutil

        base = os.path.join(env.WORK, "scratch")
        for d in os.listdir(base):
            if d.startswith("c13-") and not os.path.exists("/proc/%s" % d.split("-")[-1]):
                shutil.rmtree(os.path.join(base, d), ignore_errors=True)
        shutil.rmtree(os.path.join(base, "c13-%d" % os.getpid()), ignore_errors=True)
    except Exception:
        pass
    # whole-run traces of `inspect` validated against specs/Osaca.tla (clauses owned by this property)
    from harness import osaca_run
    osaca_run.whole_runs(run, "C13", tier, seed, n_quick=24)
    osaca_run.api_reuse(run, "C13", tier, seed)
    return run.finish()


def _detail(c, clause):
    if clause == "cell:lcd":
        if all(e["lcd"] == 0 for e in c["dk"]):
            return "dict-LatencyLCD-zero"
        return "mismatch"
    if clause.startswith("blocks:") or clause.startswith("arch-header"):
        return "arch=%s,big=%s,ign=%s" % (c["fl"]["arch"], c["fl"]["big"], c["fl"]["ign"])
    if clause in ("cell:pp", "total:pp"):
        ds = set()
        rows = c["rows"] if clause == "cell:pp" else [{"pp": c["tot"]["pp"]}]
        for r in rows:
            ds |= set(x[1] for x in r["pp"])
        return "digits" + "".join(str(d) for d in sorted(ds))
    return ""


def _explain(c, clause):
    try:
        if clause.startswith("cell:"):
            what = clause.split(":")[1].split("-")[0]
            for r, e in zip(c["rows"], c["dk"]):
                if what == "pp":
                    if r["pp"] or e["pp"]:
                        vals = dict((x[0], x[1]) for x in e["pp"])
                        for p, d, n in r["pp"]:
                            v = vals.get(p, 0)
                            if 2 * abs(n * sc.U - v * 10 ** d) > sc.U:
                                return ": line %d port #%d shows %d/10^%d, dict has %d/12000" % (r["ln"], p, n, d, v)
                        shown = set(x[0] for x in r["pp"])
                        for p, v in vals.items():
                            if p not in shown:
                                return ": line %d port #%d blank, dict has %d/12000" % (r["ln"], p, v)
                else:
                    cell, v = r[what], e[what]
                    if (cell[0] == -1 and v != 0) or (cell[0] != -1 and cell[1] != v):
                        return ": line %d text %s cell %s, dict %d/12000" % (r["ln"], what.upper(), cell, v)
        if clause.startswith("total:"):
            return ": text totals %s, dict summary %s" % (c["tot"], c["sum"])
        if clause.startswith("blocks:") or clause == "missing-count":
            return ": blocks %s, flags %s, missing=%s, unknown lines=%d" % (
                c["blocks"], c["fl"], c["missing"], sum(1 for e in c["dk"] if e["unk"]))
        if clause == "warnings-agree":
            return ": dict warnings %s, text blocks %s" % (c["warnings"], c["blocks"])
        if clause in ("lcdlist", "lcd-col", "lcd-max"):
            return ": text LCD list %s, recorded %s, summary LCD %s" % (c["lcdlist"][:3], c["lcds"][:3], c["sum"]["lcd"])
        if clause.startswith("arch-header"):
            return ": header %r, --arch %r, file ISA %s" % (c["hdr"], c["given"], c["isa"])
    except Exception:
        pass
    return ""


_PER_SIG = {}


def _fail(run, sig, what, case, cap=3):
    """run.fail with at most `cap` replay files per signature, so that the replay slots of one run
    show different failure classes (further occurrences are only counted)."""
    _PER_SIG[sig] = _PER_SIG.get(sig, 0) + 1
    if _PER_SIG[sig] > cap and run._match_known(sig) is None:
        run.extra.setdefault("further_occurrences", {})
        run.extra["further_occurrences"][sig] = run.extra["further_occurrences"].get(sig, 0) + 1
        return "violation"
    return run.fail(sig, what, case)


def _slim(c):
    keep = ("id", "isa", "given", "src", "text_in", "arch", "opts", "fl", "via", "blocks", "hdr", "warnings", "missing",
            "tot", "sum", "lcdlist", "values", "wide")
    d = {k: c[k] for k in keep if k in c}
    d["lcds"] = c.get("lcds", [])[:5]
    return d


def replay(path):
    with open(path) as f:
        rec = json.load(f)
    c = rec["case"]
    print("replaying", rec["signature"])
    print(rec["what"])
    home = sc.use_private_home()
    if c.get("via") == "inject" or not c.get("arch") and not c.get("given") and not (c.get("src") or c.get("text_in")):
        print(json.dumps(c, indent=1)[:3000])
        return 0
    arch = c.get("arch")
    from osaca.osaca import DEFAULT_ARCHS

    env.warm_models([arch or DEFAULT_ARCHS[c["isa"]].lower()], home=home)
    o = dict(c.get("opts") or {})
    o["id"] = c.get("id", "replay")
    o["big"] = c["fl"]["big"]
    o["via"] = "api" if c.get("via") != "cli" else "cli"
    kind, src = ("file", c["src"]) if c.get("src") else ("text", c["text_in"])
    res = _run_job((kind, src, c["isa"], arch, o))
    if "error" in res:
        print("run fails:", res["error"], res["where"])
        return 1
    if "case" not in res:
        print(res)
        return 2
    case = res["case"]
    rejects, _ = tlc.batch_validate("Trace_Report", "Trace_Report", [{k: case[k] for k in TRACE_KEYS}], tag="c13-replay")
    clauses = [cl for _, cl, _ in rejects if not cl.startswith("B:")]
    print("failing clauses now:", clauses)
    for cl in clauses:
        print(" ", cl, _explain(case, cl))
    return 1 if clauses else 0
