"""C16  The LCD result is independent of process scheduling and worker count.

R1  TLC explores LCDSearchSM exhaustively for small kernels (MC_LCDSearch_c16*.cfg): every worker
    count in {1,2,3,5,K+1} (16 in a separate run), with the poll loop and with timeout -1, every
    interleaving of worker appends/exits and coordinator steps.  Invariants: PartitionIsOk,
    ResultIndependentOfScheduleAndNW (terminal result = sequential result), WholeRootPrefixes,
    NoOrphans, NoLateWrites, ...
R2  The state graph of MC_LCDSearch_r2_c16 is dumped, a transition cover is computed and every path
    is replayed on the REAL KernelDG.check_for_loopcarried_dep / _extend_path under the virtual
    process scheduler (harness/vproc.py), comparing the abstract state after every action with
    TLC's; the recorded executions are then validated by Trace_LCDSearch (result = what TLC
    computes from the abstract kernel = the sequential search of the code).
R3  Real multi-process executions (fork): generated kernels around and above the threshold (49+1,
    50, 51, 64, 97 lines) and padded shipped kernels, cpu_count() patched to {1,2,3,5,16,K+7},
    seeded delays in the worker wrapper, with timeout -1 and with the poll loop; event logs and
    results validated by Trace_LCDSearch against an untimed reference of the same kernel and the
    sequential search.  The CLI is run repeatedly (and with different worker counts): reports must
    be byte-identical apart from the Timestamp line."""
import json
import multiprocessing
import os
import random
import shutil
import time

from harness import env, tlc
from harness import lcd_common as lc
from harness.verdict import Run

REPO = env.REPO
TF = os.path.join(REPO, "tests", "test_files")
EXPECTED_ACTIONS = ("StartAll", "WStep", "Check", "Sleep", "JoinAll", "Copy", "PostProcess")


def kernel_specs(tier, seed):
    rnd = random.Random(seed)
    specs = []
    # generated kernels around and above the threshold (synthetic model)
    sizes = [(50, 3), (51, 4), (64, 5)] if tier == "quick" else [(50, 3), (51, 4), (52, 2), (64, 5), (97, 5), (130, 4)]
    for n, c in sizes:
        specs.append({"name": "braid%d" % n, "arch": "syn", "text": lc.braid_text(n, c, random.Random(seed + n))})
    # 49 lines + one trailing comment line: the same kernel below and at the threshold
    specs.append({"name": "braid49+1", "arch": "syn", "text": lc.braid_text(49, 4), "pair": True})
    nrand = 2 if tier == "quick" else 8
    for i in range(nrand):
        n = rnd.choice([50, 53, 60, 75])
        specs.append({"name": "rand%d_%d" % (n, i), "arch": "syn",
                      "text": lc.random_dense_text(random.Random(seed * 31 + i), n, pool=rnd.choice([5, 8, 12]), nsrc=2, p_pad=0.1)})
    # every instruction is a loop-carried cycle of its own, with comment / label / directive lines in between:
    # a line that is not used as a search root is a cycle that is not reported (instruction count 59, line count 66)
    body = ["\tadd x%d, x%d, #1" % (i, i) for i in range(1, 28)] + ["\tfadd d%d, d%d, d%d" % (i, i, i) for i in range(0, 32)]
    for pos, noise in ((3, "// a comment"), (10, ".L7:"), (20, "// another"), (31, ".p2align 4"), (40, ".L8:"), (50, "// c"), (57, "// d")):
        body.insert(pos, noise)
    specs.append({"name": "selfcycles59+7", "arch": "tx2", "text": "\n".join(body) + "\n"})
    shipped = [("kernel_x86.s", "zen2"), ("kernel_aarch64.s", "tx2"), ("kernel_x86_memdep.s", "zen2")]
    if tier != "quick":
        shipped += [("kernel_aarch64_memdep.s", "tx2"), ("kernel_aarch64_sve.s", "tx2"), ("triad_x86_iaca.s", "zen2"),
                    ("kernel_aarch64_deps.s", "tx2")]
    for j, (f, arch) in enumerate(shipped):
        specs.append({"name": f, "arch": arch, "file": os.path.join(TF, f), "pad_to": 50 + (j * 7) % 20})
    for s in specs:
        s["tier"], s["seed"] = tier, seed
    return specs


def real_job(spec):
    """all executions of one kernel; returns cases + failures (small data only)"""
    out = {"name": spec["name"], "cases": [], "meta": {}, "fails": [], "notes": {}}
    try:
        text, kernel, tools = lc.load_kernel(spec)
    except Exception as e:
        out["machinery"] = "cannot prepare %s: %s: %s" % (spec["name"], type(e).__name__, e)
        return out
    n = len(kernel)
    rnd = random.Random(spec["seed"] * 7919 + n)
    ids = lc.CycleIds()
    try:
        if spec.get("pair"):
            # sequential search of the 49-line kernel; the padded kernel is searched in parallel
            k49 = kernel
            seq = lc.sequential_result(k49, tools)
            mm, sem, parser = tools
            text = text + "# one more line\n"
            kernel = parser.parse_file(text)
            sem.add_semantics(kernel)
            n = len(kernel)
            out["notes"]["pair"] = [len(k49), n]
        else:
            seq = lc.sequential_result(kernel, tools)
    except Exception as e:
        out["fails"].append(("exception:sequential:%s" % spec["name"], "%s: %s" % (type(e).__name__, e), {"text": text}))
        return out
    ref = lc.run_real(kernel, tools, 4, -1, tag="c16ref")
    if ref["error"] or not ref["parallel"]:
        if ref["error"]:
            out["fails"].append(("exception:real:%s:nw4" % spec["name"], ref["error"], {"text": text}))
        else:
            out["machinery"] = "%s (%d lines) did not take the parallel path" % (spec["name"], n)
        return out
    table = lc.reference_table(ref, kernel, ids)
    out["notes"]["paths"] = sum(table["np"])
    out["notes"]["lcds"] = len(seq["result"])
    runs = [("ref", ref, 4, -1)]
    nws = [1, 2, 3, 5, 16, n + 7]
    for nw in nws:
        modes = [(-1, rnd.randrange(1 << 30)), (10, rnd.randrange(1 << 30))]
        if spec["tier"] != "quick":
            modes.append((rnd.choice([-1, 10]), rnd.randrange(1 << 30)))
        if spec["tier"] == "quick" and nw > 16:
            modes = modes[:1]
        for to, sd in modes:
            o = lc.run_real(kernel, tools, nw, to, delays=lc.Delays(sd, p=0.35, dmax=0.02), tag="c16")
            runs.append(("nw%d-t%d-s%d" % (nw, to, sd % 1000), o, nw, to))
    for label, o, nw, to in runs:
        cid = "%s|%s" % (spec["name"], label)
        cls = "%s:n%d:nw%d:t%d" % (spec["name"], n, nw, to)
        if o["error"]:
            out["fails"].append(("exception:real:%s" % cls, o["error"], {"text": text, "nw": nw, "timeout": to}))
            continue
        out["cases"].append(lc.real_case(cid, o, kernel, table, ids, seq))
        out["meta"][cid] = {"class": cls, "text": text, "arch": spec["arch"], "nw": nw, "timeout": to, "wall": round(o["wall"], 3),
                            "interleaved": len(set(e["w"] for e in o["raw"] if e["k"] == "app_begin" and e["n"] > 0))}
    return out


def cli_checks(run, tier, seed):
    """repeated CLI runs of the same command (and other worker counts): byte-identical reports"""
    d = env.scratch("lcds-c16-cli-%d" % os.getpid())
    jobs = []
    files = [("kernel_x86.s", "zen2", "#"), ("kernel_aarch64.s", "tx2", "//")]
    if tier != "quick":
        files += [("kernel_x86_memdep.s", "zen2", "#"), ("kernel_aarch64_memdep.s", "tx2", "//")]
    for f, arch, cm in files:
        path = lc.padded_file(os.path.join(TF, f), os.path.join(d, "padded_" + f), cm, 55)
        for nw in ([0, 0, 3] if tier == "quick" else [0, 0, 1, 3, 16, 70]):
            jobs.append((f, arch, path, nw))
    import concurrent.futures

    def one(j):
        f, arch, path, nw = j
        return j, lc.run_cli_hooked(["--arch", arch, "--lcd-timeout", "-1", path], nw=nw)

    reports = {}
    with concurrent.futures.ThreadPoolExecutor(max_workers=6) as ex:
        for (f, arch, path, nw), (rc, out, err, hook) in ex.map(one, jobs):
            if rc == -999:
                run.fail("C16:no-return:cli:%s" % f, "osaca: %s" % err, {"file": path, "arch": arch, "nw": nw})
                continue
            if rc != 0 or hook is None:
                run.fail("C16:exception:cli:%s" % f, "osaca exits with %s: %s" % (rc, err[-400:]),
                         {"file": path, "arch": arch, "nw": nw})
                continue
            if not hook["n"] or hook["n"][0] < 50 or not hook["exitcodes"]:
                # where the threshold lies is not an observable: the reports are still compared
                run.divergence("threshold", {"file": f, "what": "CLI run did not take the parallel path", "hook": hook})
            reports.setdefault(f, []).append((nw, lc.strip_timestamp(out)))
            run.add_eval(1)
    for f, reps in reports.items():
        base = reps[0][1]
        for nw, rep in reps[1:]:
            if rep != base:
                run.fail("C16:report-differs-between-runs:cli:%s" % f,
                         "two runs of `osaca --arch .. %s` (cpu_count %s vs %s) print different reports" % (f, reps[0][0] or "real", nw or "real"),
                         {"file": f, "first": base, "second": rep})
        run.mark("cli:" + f)
    run.note("cli_runs", sum(len(v) for v in reports.values()))
    shutil.rmtree(d, ignore_errors=True)


def main(tier, seed):
    run = Run("C16", tier, seed)
    quick = tier == "quick"
    run.rule = ("R2: transition cover of the dumped state graph, one replay per path; non-trivial = at least two "
                "workers append. R3: (kernel, cpu_count, timeout mode, delay seed) executions; non-trivial = paths "
                "of at least two workers reach the shared list; plus one key per file for the CLI comparison")
    warm = env.warm_models(["zen2", "tx2"])
    bad = {k: v for k, v in warm.items() if v[0] != 0}
    if bad:
        raise tlc.TLCError("cannot load models: %r" % bad)
    walls = {}
    t0 = time.time()
    # ---- R1
    for cfg in (["MC_LCDSearch_c16"] if quick else ["MC_LCDSearch_c16_thorough", "MC_LCDSearch_c16_nw16"]):
        r = tlc.run_tlc("MC_LCDSearch", cfg, env={"OUTFILE": os.devnull}, workers=16, timeout=1500)
        run.add_mc(r, cfg)
    walls["R1"] = round(time.time() - t0, 1)
    t0 = time.time()
    # ---- R2
    res, stats, _ = lc.replay_graph(run, "MC_LCDSearch_r2_c16", seed, "c16r2", limit=1500 if quick else None)
    run.note("replay", stats)
    if not quick:
        # larger kernels / worker counts: behaviours generated by TLC's simulator
        res2, st2 = lc.replay_simulated(run, "MC_LCDSearch_sim_c16", seed, "c16sim", num=400, depth=150)
        run.note("replay_simulated", st2)
        res = res + res2
    cases, meta = [], {}
    for x in res:
        cls = "%s:nw%d:%s" % (x["kid"], x["nw"], "poll" if x["to"] else "nolimit")
        if x["error"]:
            run.fail("C16:exception:vproc:%s" % cls, x["error"], {"actions": x.get("actions"), "text": x["text"]})
            continue
        if x["divergence"]:
            run.divergence("replay", {"class": cls, "divergence": x["divergence"], "actions": x.get("actions")})
        if "case" in x:
            cases.append(x["case"])
            meta[x["case"]["id"]] = {"class": cls, "text": x["text"], "actions": x["actions"]}
            if len(set(a[1] for a in x["actions"] if a[0] == "WStep")) >= 2:
                run.mark(["vproc", cls, x["actions"]])
    if cases:
        run.sample({"source": "vproc", "case": cases[len(cases) // 2], "actions": meta[cases[len(cases) // 2]["id"]]["actions"]})
    lc.validate_cases(run, "C16", cases, meta, "Trace_LCDSearch", "vproc")
    walls["R2"] = round(time.time() - t0, 1)
    t0 = time.time()
    # ---- R3
    specs = kernel_specs(tier, seed)
    lc.synthetic_env()
    outs = lc.pool_map(real_job, specs, 6, deadline=240.0 if quick else 600.0)
    cases, meta = [], {}
    for o in outs:
        if o.get("hang"):
            run.fail("C16:no-return:real:%s" % o["name"], "the analysis of %s did not return within %s s (job killed)" % (
                o["name"], o.get("after_s")), {"job": {k: v for k, v in o["item"].items() if k != "text"}, "text": o["item"].get("text", "")[:3000]})
            o.update(cases=[], meta={}, fails=[], notes={})
        if o.get("machinery"):
            if "did not take the parallel path" in o["machinery"]:
                # where exactly the threshold lies is not an observable of C16 (the results must agree on
                # either path): noted, and this kernel's parallel-only comparisons are skipped
                run.divergence("threshold", {"kernel": o["name"], "what": o["machinery"]})
                o.update(cases=[], meta={}, fails=o.get("fails") or [], notes={})
            else:
                raise tlc.TLCError(o["machinery"])
        for sig, what, case in o["fails"]:
            run.fail("C16:" + sig, what, case)
        cases += o["cases"]
        meta.update(o["meta"])
        for c in o["cases"]:
            if meta[c["id"]]["interleaved"] >= 2:
                run.mark(["real", c["id"]])
    run.note("real_kernels", {o["name"]: o["notes"] for o in outs})
    if cases:
        c = cases[1]
        run.sample({"source": "real", "id": c["id"], "n": c["n"], "nw": c["nw"], "events": c["events"][:12],
                    "obs": {k: (v if not isinstance(v, list) else v[:10]) for k, v in c["obs"].items()}})
    seen = lc.validate_cases(run, "C16", cases, meta, "Trace_LCDSearch", "real")
    if seen:
        run.note("c19_clauses_seen_in_c16_runs", seen[:10])
    walls["R3"] = round(time.time() - t0, 1)
    t0 = time.time()
    cli_checks(run, tier, seed)
    walls["cli"] = round(time.time() - t0, 1)
    run.note("wall_by_part_s", walls)
    lc.cleanup_synthetic()
    run.assume("virtual processes: threads + baton; a killed virtual process never runs again (SIGKILL semantics); "
               "one Manager-list request is atomic")
    run.assume("real runs use the fork start method; events of different processes are ordered by CLOCK_MONOTONIC")
    run.assume("abstract kernels are rendered 1:1 (one private destination register per line) over a synthetic "
               "machine model; reference tables of larger kernels are projected from an untimed execution")
    return run.finish()


def replay(path):
    return lc.replay_file(path, "C16")
