"""C16  The LCD result is independent of process scheduling and worker count.

R1  TLC explores LCDSearchSM exhaustively for small kernels (MC_LCDSearch_c16*.cfg): every worker
    count in {1,2,3,5,K+1} (16 in a separate run), with the poll loop and with timeout -1, every
    interleaving of worker appends/exits and coordinator steps.  Invariants: PartitionIsOk,
    ResultIndependentOfScheduleAndNW (terminal result = sequential result), WholeRootPrefixes,
    NoOrphans, NoLateWrites, ...
R2  The state graph of MC_LCDSearch_r2_c16 is dumped, a transition cover is computed and every path
    is replayed on the REAL KernelDG.check_for_loopcarried_dep / _extend_path under the virtual
    process scheduler (harness/vproc.py), comparing the abstract state after every action with
    TLC's; the recorded executions are then validated by Trace_LCDSearch (result = what TLC
    computes from the abstract kernel = the sequential search of the code).
R3  Real multi-process executions (fork): generated kernels around and above the threshold (49+1,
    50, 51, 64, 97 lines) and padded shipped kernels, cpu_count() patched to {1,2,3,5,16,K+7},
    seeded delays in the worker wrapper, with timeout -1 and with the poll loop; event logs and
    results validated by Trace_LCDSearch against an untimed reference of the same kernel and the
    sequential search.  The CLI is run repeatedly (and with different worker counts): reports must
    be byte-identical apart from the Timestamp line.
Partition sweep  MC_Partition: LCDSearch!Slice covers every root exactly once for every kernel
    length <= 160 (300) and worker count <= 72 (130) (negative control: the floor chunk size loses
    roots).  The real coordinator then runs, with virtual worker processes, on kernels of 50..140
    lines in which up to 46 lines - the first and last lines, the slice boundaries of the
    specification's partition and of the floor partition, random others - are one-instruction
    loop-carried cycles and every other line carries no dependency, for seeded (length, worker
    count) pairs with 1..70 workers; Trace_Partition: reported cycles = sequential result = the
    cycles by construction (Level A), slices = Slice (Level B)."""
import json
import multiprocessing
import os
import random
import shutil
import time

from harness import env, tlc
from harness import lcd_common as lc
from harness.verdict import Run

REPO = env.REPO
TF = os.path.join(REPO, "tests", "test_files")
EXPECTED_ACTIONS = ("StartAll", "WStep", "Check", "Sleep", "JoinAll", "Copy", "PostProcess")


def kernel_specs(tier, seed):
    rnd = random.Random(seed)
    specs = []
    # generated kernels around and above the threshold (synthetic model)
    sizes = [(50, 3), (51, 4), (64, 5)] if tier == "quick" else [(50, 3), (51, 4), (52, 2), (64, 5), (97, 5), (130, 4)]
    for n, c in sizes:
        specs.append({"name": "braid%d" % n, "arch": "syn", "text": lc.braid_text(n, c, random.Random(seed + n))})
    # the same kind of kernel over a model whose latencies are no dyadic fractions (0.1 / 0.3 / 0.7): the latency of
    # a cycle must not depend on which of its rotations a worker delivered first
    specs.append({"name": "braid57-nd", "arch": "synnd", "text": lc.braid_text(57, 4, random.Random(seed + 57))})
    # 49 lines + one trailing comment line: the same kernel below and at the threshold
    specs.append({"name": "braid49+1", "arch": "syn", "text": lc.braid_text(49, 4), "pair": True})
    nrand = 2 if tier == "quick" else 8
    for i in range(nrand):
        n = rnd.choice([50, 53, 60, 75])
        specs.append({"name": "rand%d_%d" % (n, i), "arch": "syn",
                      "text": lc.random_dense_text(random.Random(seed * 31 + i), n, pool=rnd.choice([5, 8, 12]), nsrc=2, p_pad=0.1)})
    # every instruction is a loop-carried cycle of its own, with comment / label / directive lines in between:
    # a line that is not used as a search root is a cycle that is not reported (instruction count 59, line count 66)
    body = ["\tadd x%d, x%d, #1" % (i, i) for i in range(1, 28)] + ["\tfadd d%d, d%d, d%d" % (i, i, i) for i in range(0, 32)]
    for pos, noise in ((3, "// a comment"), (10, ".L7:"), (20, "// another"), (31, ".p2align 4"), (40, ".L8:"), (50, "// c"), (57, "// d")):
        body.insert(pos, noise)
    specs.append({"name": "selfcycles59+7", "arch": "tx2", "text": "\n".join(body) + "\n"})
    shipped = [("kernel_x86.s", "zen2"), ("kernel_aarch64.s", "tx2"), ("kernel_x86_memdep.s", "zen2")]
    if tier != "quick":
        shipped += [("kernel_aarch64_memdep.s", "tx2"), ("kernel_aarch64_sve.s", "tx2"), ("triad_x86_iaca.s", "zen2"),
                    ("kernel_aarch64_deps.s", "tx2")]
    for j, (f, arch) in enumerate(shipped):
        specs.append({"name": f, "arch": arch, "file": os.path.join(TF, f), "pad_to": 50 + (j * 7) % 20})
    for s in specs:
        s["tier"], s["seed"] = tier, seed
    return specs


class _SlowFirstWorker(object):
    """the worker that holds the first lines delivers last: every cycle reaches the coordinator first as a path
    that starts at another member than the sequential search's"""

    def __call__(self, w, i):
        return 0.25 if (w == 0 and i == 0) else 0.0


def real_job(spec):
    """all executions of one kernel; returns cases + failures (small data only)"""
    out = {"name": spec["name"], "cases": [], "meta": {}, "fails": [], "notes": {}}
    try:
        text, kernel, tools = lc.load_kernel(spec)
    except Exception as e:
        out["machinery"] = "cannot prepare %s: %s: %s" % (spec["name"], type(e).__name__, e)
        return out
    n = len(kernel)
    rnd = random.Random(spec["seed"] * 7919 + n)
    ids = lc.CycleIds()
    try:
        if spec.get("pair"):
            # sequential search of the 49-line kernel; the padded kernel is searched in parallel
            k49 = kernel
            seq = lc.sequential_result(k49, tools)
            mm, sem, parser = tools
            text = text + "# one more line\n"
            kernel = parser.parse_file(text)
            sem.add_semantics(kernel)
            n = len(kernel)
            out["notes"]["pair"] = [len(k49), n]
        else:
            seq = lc.sequential_result(kernel, tools)
    except Exception as e:
        out["fails"].append(("exception:sequential:%s" % spec["name"], "%s: %s" % (type(e).__name__, e), {"text": text}))
        return out
    ref = lc.run_real(kernel, tools, 4, -1, tag="c16ref")
    if ref["error"] or not ref["parallel"]:
        if ref["error"]:
            out["fails"].append(("exception:real:%s:nw4" % spec["name"], ref["error"], {"text": text}))
        else:
            out["machinery"] = "%s (%d lines) did not take the parallel path" % (spec["name"], n)
        return out
    table = lc.reference_table(ref, kernel, ids)
    out["notes"]["paths"] = sum(table["np"])
    out["notes"]["lcds"] = len(seq["result"])
    runs = [("ref", ref, 4, -1)]
    nws = [1, 2, 3, 5, 16, n + 7]
    for nw in nws:
        modes = [(-1, rnd.randrange(1 << 30)), (10, rnd.randrange(1 << 30))]
        if spec["tier"] != "quick":
            modes.append((rnd.choice([-1, 10]), rnd.randrange(1 << 30)))
        if spec["tier"] == "quick" and nw > 16:
            modes = modes[:1]
        for to, sd in modes:
            o = lc.run_real(kernel, tools, nw, to, delays=lc.Delays(sd, p=0.35, dmax=0.02), tag="c16")
            runs.append(("nw%d-t%d-s%d" % (nw, to, sd % 1000), o, nw, to))
    if spec["arch"] == "synnd":
        for nw in (2, 3, 5):
            o = lc.run_real(kernel, tools, nw, -1, delays=_SlowFirstWorker(), tag="c16")
            runs.append(("nw%d-slowfirst" % nw, o, nw, -1))
    for label, o, nw, to in runs:
        cid = "%s|%s" % (spec["name"], label)
        cls = "%s:n%d:nw%d:t%d" % (spec["name"], n, nw, to)
        if o["error"]:
            out["fails"].append(("exception:real:%s" % cls, o["error"], {"text": text, "nw": nw, "timeout": to}))
            continue
        # exact figures: the latency of every reported cycle, bit for bit, is the one of the sequential search
        diff = [(k, seq["rawlat"][k], repr(float(v["latency"]))) for k, v in (o.get("lcd") or {}).items()
                if k in seq.get("rawlat", {}) and repr(float(v["latency"])) != seq["rawlat"][k]]
        if diff:
            out["fails"].append(("lcd-latency-depends-on-completion-order:real:%s" % cls,
                                 "%d cycles are reported with another latency than by the sequential search, e.g. %s: %s vs %s" % (
                                     len(diff), diff[0][0], diff[0][2], diff[0][1]), {"text": text, "nw": nw, "timeout": to, "arch": spec["arch"]}))
        out["cases"].append(lc.real_case(cid, o, kernel, table, ids, seq))
        out["meta"][cid] = {"class": cls, "text": text, "arch": spec["arch"], "nw": nw, "timeout": to, "wall": round(o["wall"], 3),
                            "interleaved": len(set(e["w"] for e in o["raw"] if e["k"] == "app_begin" and e["n"] > 0))}
    return out


def _sweep_kernel(k, nw, rnd):
    W = (k - 1) // nw + 1
    F = max(1, k // nw)
    pts = {1, 2, k}
    for chunk in (W, F):
        for w in range(nw + 1):
            for x in (w * chunk, w * chunk + 1):
                if 1 <= x <= k:
                    pts.add(x)
    tail = set(range(max(1, k - 7), k + 1))
    keep = set(sorted(tail)[-6:]) | {1, k}
    rest = sorted(pts - keep)
    room = len(lc.REGS) - len(keep)
    if len(rest) > room - 4:
        rest = rnd.sample(rest, room - 4)
    keep |= set(rest)
    others = [i for i in range(1, k + 1) if i not in keep]
    keep |= set(rnd.sample(others, min(len(others), len(lc.REGS) - len(keep))))
    cyc = sorted(keep)
    reg = {p: lc.REGS[i] for i, p in enumerate(cyc)}
    lines = ["s1l1 %%%s, %%%s" % (reg[i], reg[i]) if i in reg else "# filler %d" % i for i in range(1, k + 1)]
    return cyc, "\n".join(lines) + "\n"


def sweep_job(job):
    """(k, nw) pairs on the real coordinator with virtual worker processes"""
    from harness import vproc

    tools = lc.synthetic_env()
    out = {"name": "sweep-%d" % job["idx"], "cases": [], "fails": [], "texts": {}}
    for k, nw in job["pairs"]:
        rnd = random.Random("%d|%d|%d" % (job["seed"], k, nw))
        cyc, text = _sweep_kernel(k, nw, rnd)
        cid = "sweep:k%d:nw%d" % (k, nw)
        out["texts"][cid] = text
        try:
            kernel = lc.analyse_text(text, tools)
            if len(kernel) != k:
                out["machinery"] = "sweep kernel of %d lines parsed to %d lines" % (k, len(kernel))
                return out
            pos = lc.positions(kernel)
            seq = lc.sequential_result(kernel, tools)
            with vproc.Replay(kernel, tools, nw, False, threshold=1) as rp:
                rp.freerun()
                err = rp.c.error
                if err is not None and not isinstance(err, vproc.SchedError):
                    out["fails"].append(("exception:vproc:%s" % cid, "%s: %s" % (type(err).__name__, err), {"text": text, "nw": nw}))
                    continue
                if err is not None or rp.dg is None:
                    out["cases"].append({"id": cid, "skip": "scheduler: %s" % err})
                    continue
                res, _ = lc.project_lcds(rp.dg.get_loopcarried_dependencies(), kernel)
                slices = [[pos.get(r, 0) for r in p.roots] for p in rp.f.procs]
                if not any(slices) or any(0 in sl for sl in slices):
                    slices = []     # the code does not hand lists of kernel lines to its workers (any more)
            out["cases"].append({"id": cid, "k": k, "nw": nw, "cyc": cyc,
                                 "found": [x["key"][0] if len(x["key"]) == 1 else 0 for x in res],
                                 "seq": [x["key"][0] if len(x["key"]) == 1 else 0 for x in seq["result"]],
                                 "slices": slices})
        except Exception as e:  # noqa
            import traceback

            out["fails"].append(("exception:vproc:%s" % cid, "%s: %s" % (type(e).__name__, e),
                                 {"text": text, "nw": nw, "trace": traceback.format_exc()[-1500:]}))
    return out


def partition_sweep(run, tier, seed):
    quick = tier == "quick"
    r = tlc.run_tlc("MC_Partition", "MC_Partition_quick" if quick else "MC_Partition", workers=16, timeout=1500)
    run.add_mc(r, "MC_Partition" + ("_quick" if quick else ""))
    if not quick:
        r = tlc.run_tlc("MC_Partition", "MC_Partition_floor", workers=16, timeout=1500, allow_violation=True)
        run.add_mc(r, "MC_Partition_floor (expected: FloorCovers violated)")
        if "FloorCovers" not in r.violated:
            raise tlc.TLCError("model self-test failed: the floor chunk size is reported to cover every root")
    rnd = random.Random(seed * 977 + 5)
    pairs = set()
    # divisible and non-divisible lengths, fewer and more workers than lines, the usual core counts
    for nw in (1, 2, 3, 4, 6, 7, 8, 12, 16, 24, 32, 48, 64):
        for k in (50, 51, 63, 64, 65):
            pairs.add((k, nw))
    want = 170 if quick else 2600
    while len(pairs) < want:
        pairs.add((rnd.randint(50, 140 if not quick else 110), rnd.choice([rnd.randint(1, 70), rnd.randint(2, 20), rnd.choice([8, 16, 32])])))
    pairs = sorted(pairs)
    rnd.shuffle(pairs)
    njobs = 12
    jobs = [{"idx": i, "seed": seed, "pairs": pairs[i::njobs]} for i in range(njobs)]
    lc.synthetic_env()
    outs = lc.pool_map(sweep_job, jobs, 12, deadline=300.0 if quick else 1500.0)
    cases, texts = [], {}
    for o in outs:
        if o.get("hang"):
            run.fail("C16:no-return:vproc:partition-sweep", "a partition-sweep job did not return (job killed)", {"job": o["item"]})
            continue
        if o.get("machinery"):
            raise tlc.TLCError(o["machinery"])
        for sig, what, case in o["fails"]:
            lc.fail_or_gap(run, "C16:" + sig, what, case, "partition-sweep")
        texts.update(o["texts"])
        for c in o["cases"]:
            if "skip" in c:
                run.divergence("partition-sweep", {"case": c["id"], "what": c["skip"]})
            else:
                cases.append(c)
    if not cases:
        return
    # binding self-test: a case that lost the cycle of the last line must be rejected
    bad = dict(cases[0])
    bad["id"] = "selftest-lost-last-root"
    bad["found"] = [x for x in bad["found"] if x != bad["k"]]
    rejects, rv = tlc.batch_validate("Trace_Partition", "Trace_Partition", cases + [bad], tag="c16sweep", timeout=1500)
    run.add_mc(rv, "Trace_Partition")
    run.add_traces(len(cases))
    run.add_eval(len(cases))
    got = {r[0] for r in rejects}
    if "selftest-lost-last-root" not in got:
        raise tlc.TLCError("binding self-test: Trace_Partition accepts a result that lacks the last root's cycle")
    from harness import cache_common as cc

    ndiv = 0
    for v in cc.printed_tuples(rv.raw, "DIVERGE"):
        ndiv += 1
        if ndiv <= 5:
            run.divergence("partition", {"case": v[1], "what": v[2], "detail": v[3:]})
    run.note("partition_sweep", {"pairs": len(cases), "slices_visible": sum(1 for c in cases if c["slices"]),
                                 "slice_divergences": ndiv})
    for cid, clause, detail in rejects:
        if cid.startswith("selftest"):
            continue
        c = next(x for x in cases if x["id"] == cid)
        run.fail("C16:%s:vproc:partition-sweep:k%d:nw%d" % (clause.split(":", 1)[1], c["k"], c["nw"]),
                 "%s on a kernel of %d lines with %d workers: cycles of the lines %s" % (clause, c["k"], c["nw"], detail),
                 {"text": texts[cid], "nw": c["nw"], "k": c["k"], "cyc": c["cyc"], "found": c["found"], "seq": c["seq"], "kind": "partition-sweep"})
    for c in cases:
        if c["nw"] >= 2:
            run.mark(["sweep", c["k"], c["nw"]])
    run.sample({"source": "partition-sweep", "k": cases[0]["k"], "nw": cases[0]["nw"], "cycles_at": cases[0]["cyc"][:12], "slices": cases[0]["slices"][:4]})


def cli_checks(run, tier, seed):
    """repeated CLI runs of the same command (and other worker counts): byte-identical reports"""
    d = env.scratch("lcds-c16-cli-%d" % os.getpid())
    jobs = []
    files = [("kernel_x86.s", "zen2", "#"), ("kernel_aarch64.s", "tx2", "//")]
    if tier != "quick":
        files += [("kernel_x86_memdep.s", "zen2", "#"), ("kernel_aarch64_memdep.s", "tx2", "//")]
    for f, arch, cm in files:
        path = lc.padded_file(os.path.join(TF, f), os.path.join(d, "padded_" + f), cm, 55)
        for nw in ([0, 0, 3] if tier == "quick" else [0, 0, 1, 3, 16, 70]):
            jobs.append((f, arch, path, nw))
    import concurrent.futures

    def one(j):
        f, arch, path, nw = j
        return j, lc.run_cli_hooked(["--arch", arch, "--lcd-timeout", "-1", path], nw=nw)

    reports = {}
    with concurrent.futures.ThreadPoolExecutor(max_workers=6) as ex:
        for (f, arch, path, nw), (rc, out, err, hook) in ex.map(one, jobs):
            if rc == -999:
                run.fail("C16:no-return:cli:%s" % f, "osaca: %s" % err, {"file": path, "arch": arch, "nw": nw})
                continue
            if rc != 0 or hook is None:
                run.fail("C16:exception:cli:%s" % f, "osaca exits with %s: %s" % (rc, err[-400:]),
                         {"file": path, "arch": arch, "nw": nw})
                continue
            if not hook["n"] or hook["n"][0] < 50 or not hook["exitcodes"]:
                # where the threshold lies is not an observable: the reports are still compared
                run.divergence("threshold", {"file": f, "what": "CLI run did not take the parallel path", "hook": hook})
            reports.setdefault(f, []).append((nw, lc.strip_timestamp(out)))
            run.add_eval(1)
    for f, reps in reports.items():
        base = reps[0][1]
        for nw, rep in reps[1:]:
            if rep != base:
                run.fail("C16:report-differs-between-runs:cli:%s" % f,
                         "two runs of `osaca --arch .. %s` (cpu_count %s vs %s) print different reports" % (f, reps[0][0] or "real", nw or "real"),
                         {"file": f, "first": base, "second": rep})
        run.mark("cli:" + f)
    run.note("cli_runs", sum(len(v) for v in reports.values()))
    shutil.rmtree(d, ignore_errors=True)


def main(tier, seed):
    run = Run("C16", tier, seed)
    quick = tier == "quick"
    run.rule = ("R2: transition cover of the dumped state graph, one replay per path; non-trivial = at least two "
                "workers append. R3: (kernel, cpu_count, timeout mode, delay seed) executions; non-trivial = paths "
                "of at least two workers reach the shared list; plus one key per file for the CLI comparison")
    warm = env.warm_models(["zen2", "tx2"])
    bad = {k: v for k, v in warm.items() if v[0] != 0}
    if bad:
        raise tlc.TLCError("cannot load models: %r" % bad)
    walls = {}
    t0 = time.time()
    # ---- R1
    for cfg in (["MC_LCDSearch_c16"] if quick else ["MC_LCDSearch_c16_thorough", "MC_LCDSearch_c16_nw16"]):
        r = tlc.run_tlc("MC_LCDSearch", cfg, env={"OUTFILE": os.devnull}, workers=16, timeout=1500)
        run.add_mc(r, cfg)
    walls["R1"] = round(time.time() - t0, 1)
    t0 = time.time()
    # ---- R2
    res, stats, _ = lc.replay_graph(run, "MC_LCDSearch_r2_c16", seed, "c16r2", limit=1500 if quick else None)
    run.note("replay", stats)
    if not quick:
        # larger kernels / worker counts: behaviours generated by TLC's simulator
        res2, st2 = lc.replay_simulated(run, "MC_LCDSearch_sim_c16", seed, "c16sim", num=400, depth=150)
        run.note("replay_simulated", st2)
        res = res + res2
    cases, meta = [], {}
    for x in res:
        cls = "%s:nw%d:%s" % (x["kid"], x["nw"], "poll" if x["to"] else "nolimit")
        if x["error"]:
            lc.fail_or_gap(run, "C16:exception:vproc:%s" % cls, x["error"], {"actions": x.get("actions"), "text": x["text"]}, "vproc")
            continue
        if x["divergence"]:
            run.divergence("replay", {"class": cls, "divergence": x["divergence"], "actions": x.get("actions")})
        if "case" in x:
            cases.append(x["case"])
            meta[x["case"]["id"]] = {"class": cls, "text": x["text"], "actions": x["actions"]}
            if len(set(a[1] for a in x["actions"] if a[0] == "WStep")) >= 2:
                run.mark(["vproc", cls, x["actions"]])
    if cases:
        run.sample({"source": "vproc", "case": cases[len(cases) // 2], "actions": meta[cases[len(cases) // 2]["id"]]["actions"]})
    lc.validate_cases(run, "C16", cases, meta, "Trace_LCDSearch", "vproc")
    walls["R2"] = round(time.time() - t0, 1)
    t0 = time.time()
    # ---- R3
    specs = kernel_specs(tier, seed)
    lc.synthetic_env()
    outs = lc.pool_map(real_job, specs, 6, deadline=240.0 if quick else 600.0)
    cases, meta = [], {}
    for o in outs:
        if o.get("hang"):
            run.fail("C16:no-return:real:%s" % o["name"], "the analysis of %s did not return within %s s (job killed)" % (
                o["name"], o.get("after_s")), {"job": {k: v for k, v in o["item"].items() if k != "text"}, "text": o["item"].get("text", "")[:3000]})
            o.update(cases=[], meta={}, fails=[], notes={})
        if o.get("machinery"):
            if "did not take the parallel path" in o["machinery"]:
                # where exactly the threshold lies is not an observable of C16 (the results must agree on
                # either path): noted, and this kernel's parallel-only comparisons are skipped
                run.divergence("threshold", {"kernel": o["name"], "what": o["machinery"]})
                o.update(cases=[], meta={}, fails=o.get("fails") or [], notes={})
            else:
                raise tlc.TLCError(o["machinery"])
        for sig, what, case in o["fails"]:
            lc.fail_or_gap(run, "C16:" + sig, what, case, "real")
        cases += o["cases"]
        meta.update(o["meta"])
        for c in o["cases"]:
            if meta[c["id"]]["interleaved"] >= 2:
                run.mark(["real", c["id"]])
    run.note("real_kernels", {o["name"]: o["notes"] for o in outs})
    if cases:
        c = cases[1]
        run.sample({"source": "real", "id": c["id"], "n": c["n"], "nw": c["nw"], "events": c["events"][:12],
                    "obs": {k: (v if not isinstance(v, list) else v[:10]) for k, v in c["obs"].items()}})
    seen = lc.validate_cases(run, "C16", cases, meta, "Trace_LCDSearch", "real")
    if seen:
        run.note("c19_clauses_seen_in_c16_runs", seen[:10])
    walls["R3"] = round(time.time() - t0, 1)
    t0 = time.time()
    partition_sweep(run, tier, seed)
    walls["sweep"] = round(time.time() - t0, 1)
    t0 = time.time()
    cli_checks(run, tier, seed)
    walls["cli"] = round(time.time() - t0, 1)
    run.note("wall_by_part_s", walls)
    lc.cleanup_synthetic()
    run.assume("virtual processes: threads + baton; a killed virtual process never runs again (SIGKILL semantics); "
               "one Manager-list request is atomic")
    run.assume("real runs use the fork start method; events of different processes are ordered by CLOCK_MONOTONIC")
    run.assume("abstract kernels are rendered 1:1 (one private destination register per line) over a synthetic "
               "machine model; reference tables of larger kernels are projected from an untimed execution")
    return run.finish()


def replay(path):
    with open(path) as f:
        rec = json.load(f)
    c = rec.get("case") or {}
    if c.get("kind") == "partition-sweep":
        # the recorded kernel with the recorded worker count on the real coordinator with virtual workers again
        from harness import vproc

        print("replaying %s\n  %s" % (rec["signature"], rec["what"]))
        tools = lc.synthetic_env()
        kernel = lc.analyse_text(c["text"], tools)
        seq = lc.sequential_result(kernel, tools)
        with vproc.Replay(kernel, tools, c["nw"], False, threshold=1) as rp:
            rp.freerun()
            if rp.c.error is not None or rp.dg is None:
                print("  the run fails: %r" % (rp.c.error,))
                return 1
            res, _ = lc.project_lcds(rp.dg.get_loopcarried_dependencies(), kernel)
        found = sorted(x["key"][0] for x in res if len(x["key"]) == 1)
        want = sorted(x["key"][0] for x in seq["result"] if len(x["key"]) == 1)
        print("  sequential search: cycles of the lines %s\n  %d workers:         cycles of the lines %s" % (want, c["nw"], found))
        lc.cleanup_synthetic()
        print("reproduced" if found != want else "not reproduced")
        return 1 if found != want else 0
    return lc.replay_file(path, "C16")
