"""C04  Critical path is the longest latency-weighted dependency chain.

R1  MC_CritPath: TLC runs the relaxation in line order (Level B) on every small graph with load
    stages, zero latencies and ties, and checks it yields the declarative longest chain of Deps.tla.
R2  The kernels TLC enumerated for MC_Deps are rendered (synthetic ISA DBs, both ISAs) and analysed.
R3  Random kernels <= 12 lines over random synthetic models (load stages, zero latencies, chains
    ending in a high-latency instruction) and every shipped example / test kernel on shipped models.
Trace_Deps clause `cp`: reported value in CPAllowed(graph), marked lines form a chain, the
per-line CP cells add up to the total, the total is a length of the marked chain."""
from harness import deps_run
from harness import env
from harness.verdict import Run


def main(tier, seed):
    run = Run("C04", tier, seed)
    run.rule = ("a case = one analysed kernel with observed graph, CP value, marked lines and CP cells; non-trivial = "
                "the graph has >= 2 edges and the longest chain is not a single instruction; distinct by text+model")
    cases = deps_run.run_family(run, "C04", tier, seed, checks=("cp",), validate_now=False)
    quick = tier == "quick"
    cases += deps_run.shipped_cases(run, "C04", ("cp",),
                                    env.QUICK_X86 if quick else env.X86_ARCHS,
                                    env.QUICK_ARM if quick else env.ARM_ARCHS, flag_deps=(False, True))
    deps_run.finish_family(run, "C04", cases)
    # whole-run traces of `inspect` (Osaca.tla): the summary numbers are the numbers the graph stage computed
    from harness import osaca_run
    osaca_run.whole_runs(run, "C04", tier, seed)
    osaca_run.api_reuse(run, "C04", tier, seed)
    for c in cases:
        if "error" not in c and len(c["E"]) >= 2 and len(c["cpMarked"]) >= 2:
            run.mark(c.get("text", "") + "|" + c["id"].split(":")[2])
    return run.finish()


def replay(path):
    return deps_run.replay(path)
