"""C15  Every shipped model entry is well-formed and can be costed.

R1  TLC enumerates a bounded lattice of entry shapes (MC_ModelData: every micro-op good or with
    exactly one of the defects the statement rules out, list and alternative form, all kinds of
    throughput/latency values) and checks WellFormed => CostDefined (the uniform split of
    PortModel is an exact feasible split), that every defect is detected and named.
R2  The well-formed shapes are rendered to one synthetic YAML model and costed by the real code
    (MachineModel.average_port_pressure on the loaded entry, ArchSemantics.assign_tp_lt on an
    instruction using it); TLC compares with the cost it computed (Trace_ModelData).
R3  Every entry of every shipped, non-empty model file and of both ISA databases is exported by a
    plain-YAML load (ruamel safe loader, no OSACA code), encoded syntactically and validated by
    TLC (WellFormed, cost == what the real code computed, no exception); the loaded models'
    entry lists and the --db-check counts are compared with what TLC counts in the export.
    The analysis path (assign_tp_lt + get_throughput_sum + two balancing passes) is run on an
    instruction bound to each loaded entry: all entries in the thorough tier, one per distinct
    micro-op signature in the quick tier."""
import collections
import json
import multiprocessing
import multiprocessing.pool
import os
import re

from harness import env, tlc
from harness import port_common as pc
from harness.verdict import Run

ALL_ARCHS = env.X86_ARCHS + env.ARM_ARCHS
QUICK_FULL = ["zen1", "zen3", "zen4", "spr", "hsw", "n1", "tx2", "a64fx", "v2"]  # loaded completely in the quick tier


# ---------------------------------------------------------------------------------- R1 / R2
def r1_shapes(run):
    out = os.path.join(tlc.WORK, "c15-shapes-%d.ndjson" % os.getpid())
    os.makedirs(tlc.WORK, exist_ok=True)
    if os.path.exists(out):
        os.unlink(out)
    r = tlc.run_tlc("MC_ModelData", "MC_ModelData", env={"OUTFILE": out}, workers=8, timeout=600)
    run.add_mc(r, "MC_ModelData")
    seen, shapes = set(), []
    for rec in tlc.read_emitted(out):
        k = json.dumps(rec, sort_keys=True)
        if k not in seen:
            seen.add(k)
            shapes.append(rec)
    os.unlink(out)
    return shapes


def _render_shape_pp(e):
    def uop(u):
        ports = "".join(u["ports"]) if u["pk"] == "str" else list(u["ports"])
        c = u["c"] / pc.UNIT
        return [int(c) if float(c).is_integer() else c, ports]

    alts = [[uop(u) for u in alt] for alt in e["pp"]["alts"]]
    if e["pp"]["k"] == "list":
        return alts[0]
    return {a: alt for a, alt in enumerate(alts)}


def r2_replay(run, shapes):
    """Well-formed shapes with a cost -> forms of one synthetic model -> real code."""
    good = [s for s in shapes if s["wf"] == "ok" and s["e"]["kind"] == "form"]
    d = env.scratch("c15-r2")
    forms = []
    for k, s in enumerate(good):
        e = s["e"]
        f = {"name": "op%d" % k, "operands": [dict(pc.GPR), dict(pc.GPR)]}
        if e["pp"]["k"] == "null":
            f["port_pressure"] = None
        elif e["pp"]["k"] != "absent":
            f["port_pressure"] = _render_shape_pp(e)
        for key, fld in (("throughput", "tp"), ("latency", "lat")):
            if e[fld]["k"] == "null":
                f[key] = None
            elif e[fld]["k"] == "num":
                f[key] = 1.0
        forms.append(f)
    path = os.path.join(d, "shapes.yml")
    pc.write_yaml(path, {
        "osaca_version": "0.5.0", "micro_architecture": "synthetic", "arch_code": "syn", "isa": "x86",
        "ROB_size": 100, "retired_uOps_per_cycle": 4, "scheduler_size": 60, "hidden_loads": False,
        "load_latency": {"gpr": 4.0, "mm": 4.0, "xmm": 4.0, "ymm": 4.0, "zmm": 4.0},
        "load_throughput": [], "load_throughput_default": [], "store_throughput": [],
        "store_throughput_default": [], "ports": good[0]["e"]["mports"], "port_model_scheme": "synthetic",
        "instruction_forms": forms})
    from harness import synth
    from osaca.semantics import ArchSemantics

    cases = []
    nocost_errs = collections.Counter()
    try:
        mm, sem, parser = synth.load(path)
    except Exception as ex:
        run.fail("C15:exception:load:synthetic-wellformed-model", pc.exc_text(ex), {"model": path})
        return
    for k, s in enumerate(good):
        c = dict(s["e"])
        c["id"] = "shape%d" % k
        entry = mm.get_instruction("op%d" % k, parser.parse_line("op%d %%rax, %%rbx" % k).operands)
        try:
            if entry is None:
                raise LookupError("well-formed entry op%d not found after loading" % k)
            if s["cost"]:
                pp = entry.port_pressure
                keys = list(pp.keys()) if isinstance(pp, dict) else [0]
                c["rows"] = [[pc.units(v) for v in mm.average_port_pressure(pp, option=a)] for a in keys]
            kern = parser.parse_file("op%d %%rax, %%rbx\n" % k)
            sem.add_semantics(kern)
            ArchSemantics.get_throughput_sum(kern)
            if s["cost"]:
                row = [pc.units(v) for v in kern[0].port_pressure]
                if row != c["rows"][0]:
                    c["rows"][0] = row  # what the analysis path assigned differs from the direct cost
        except Exception as ex:
            if s["cost"]:
                c["err"] = "%s @%s" % (pc.exc_text(ex), pc.exc_where(ex))
            else:
                # an entry that lacks port pressure is allowed by the statement (--db-check counts
                # them) but no shipped entry does: what the code does with it is recorded only
                nocost_errs["%s @%s" % (pc.exc_text(ex), pc.exc_where(ex))] += 1
        cases.append(c)
    if nocost_errs:
        run.note("r2_entries_without_port_pressure_raise", dict(nocost_errs))
    rejects, r = tlc.batch_validate("Trace_ModelData", "Trace_ModelData", cases, tag="c15-r2")
    run.add_mc(r, "Trace_ModelData(R2 shapes)")
    run.add_traces(len(cases))
    byid = {c["id"]: c for c in cases}
    for cid, clause, rest in rejects:
        c = byid[cid]
        run.fail("C15:shape:%s:%s" % (clause, pc.sha(c["pp"])),
                 "well-formed synthetic entry %s: %s %s" % (json.dumps(c["pp"])[:200], clause, rest), c)
    for c in cases:
        if c["pp"]["k"] in ("list", "dict") and any(len(a) for a in c["pp"]["alts"]):
            run.mark("shape:" + pc.sha(c["pp"]))
    run.note("r2_wellformed_shapes_costed", len(cases))
    run.note("r1_shapes", {"total": len(shapes), "malformed": sum(1 for s in shapes if s["wf"] != "ok")})
    run.sample({"shape": good[len(good) // 2]["e"]["pp"], "cost_from_tlc": good[len(good) // 2]["cost"]})


# ---------------------------------------------------------------------------------- R3 workers
def _sig_export(name, e):
    return "%s|%s|%s|%s|%d" % (str(name).upper(), json.dumps(pc.plain(e.get("port_pressure")), sort_keys=True),
                               e.get("throughput"), e.get("latency"), len(e.get("operands") or []))


def _sig_loaded(f):
    return "%s|%s|%s|%s|%d" % (str(f.mnemonic).upper(), json.dumps(pc.plain(f.port_pressure), sort_keys=True),
                               f.throughput, f.latency, len(f.operands or []))


def _cost_rows(mm, pp, unit):
    keys = list(pp.keys()) if isinstance(pp, dict) else [0]
    rows = []
    for a in keys:
        row = mm.average_port_pressure(pp, option=a)
        rows.append([pc.units(v, unit) for v in row])
    return rows


def _arch_job(job):
    """Runs in a forked worker: everything that needs the real code for one model file."""
    arch, items, full, analyse, isa_file = job
    from osaca.semantics import ArchSemantics, MachineModel
    from osaca.parser.instruction_form import InstructionForm

    res = {"arch": arch, "rows": {}, "errs": {}, "loaded": None, "load_err": None, "analysis": [], "n_loaded": 0}
    try:
        mm = MachineModel(arch=("isa/" + arch) if isa_file else arch, lazy=not full)
    except Exception as ex:
        res["load_err"] = "%s @%s" % (pc.exc_text(ex), pc.exc_where(ex))
        return res
    for cid, pp, unit in items:  # direct costing of the exported value
        try:
            res["rows"][cid] = _cost_rows(mm, pp, unit)
        except Exception as ex:
            res["errs"][cid] = "%s @%s" % (pc.exc_text(ex), pc.exc_where(ex))
    if not full:
        return res
    loaded = [f for fs in mm["instruction_forms_dict"].values() for f in fs]
    res["loaded"] = sorted(_sig_loaded(f) for f in loaded)
    res["n_loaded"] = len(loaded)
    if isa_file or not analyse:
        return res
    sem = ArchSemantics(mm)
    seen = set()
    for f in loaded:
        sig = _sig_loaded(f)
        if analyse == "sample":
            k = sig.split("|", 1)[1]
            if k in seen:
                continue
            seen.add(k)
        ins = InstructionForm(mnemonic=f.mnemonic, operands=[], line="%s (synthesised)" % f.mnemonic, line_number=1)
        mm.get_instruction = (lambda fx: (lambda *a, **k: fx))(f)  # bind the instruction to this entry
        rec = {"sig": sig, "name": f.mnemonic}
        try:
            sem.assign_tp_lt(ins)
            rec["stage"] = "uniform"
            kern = [ins]
            ArchSemantics.get_throughput_sum(kern)
            rec["row"] = [float(v) for v in ins.port_pressure]
            rec["stage"] = "optimise"
            sem.assign_optimal_throughput(kern)
            sem.assign_optimal_throughput(kern)
            ArchSemantics.get_throughput_sum(kern)
            rec["stage"] = "done"
            # the cost of the entry is conserved: however the micro-ops are spread, the row adds up to their cycles
            uops = ins.port_uops if not isinstance(ins.port_uops, dict) else list(ins.port_uops.values())[0]
            cyc = sum(float(u[0]) for u in uops)
            row2 = [float(v) for v in ins.port_pressure]
            if abs(sum(row2) - cyc) > 0.011 * max(1, len(uops)) + 1e-9 or min(row2 + [0.0]) < -0.011:
                rec["drift"] = {"cycles": cyc, "row_uniform": rec["row"], "row_balanced": row2}
        except Exception as ex:
            rec["err"] = "%s @%s" % (pc.exc_text(ex), pc.exc_where(ex))
        res["analysis"].append(rec)
    try:
        del mm.get_instruction
    except AttributeError:
        pass
    # the whole pipeline through the CLI entry point (parse, semantics, balancing, dependency graph,
    # critical path, LCD search, report) on real instruction lines that match the entries
    try:
        isa = mm.get_ISA().lower()
        lines = _pipeline_lines(arch, isa, loaded, analyse, 0)
        from osaca.parser import ParserAArch64, ParserX86ATT

        parser = ParserX86ATT() if isa == "x86" else ParserAArch64()
        # a synthesised memory variant the parser does not accept is no instruction (the parsers are C09/C10's
        # subject); the own rendering of an entry must parse
        keep, unparsable_own = [], []
        for l in lines:
            try:
                parser.parse_line("\t" + l[2].strip(), 1)
                keep.append(l)
            except Exception:  # noqa
                # what the parser does not accept never reaches the analysis (entries with more operands than the
                # parser takes, odd renderings): the parsers are the subject of C09/C10, the entry is noted
                if l[0] == "own":
                    unparsable_own.append(l[2].strip())
        res["pipeline_unparsable_variants"] = len(lines) - len(keep) - len(unparsable_own)
        res["pipeline_unparsable_own"] = unparsable_own[:20]
        lines = keep
        wd = os.path.join(tlc.WORK, "scratch")
        os.makedirs(wd, exist_ok=True)
        res["pipeline"], res["pipeline_runs"] = _pipeline_crashes(arch, lines, wd, (mm, sem, parser))
        res["pipeline_lines"] = len(lines)
        res["pipeline_odd"] = sum(1 for f in loaded if f.latency is None or f.throughput is None or not f.port_pressure)
    except Exception as ex:  # noqa - machinery
        res["pipeline_machinery"] = "%s @%s" % (pc.exc_text(ex), pc.exc_where(ex))
    return res


# ---------------------------------------------------------------------------------- whole pipeline
def _pipeline_lines(arch, isa, loaded, analyse, seed):
    """Instruction lines for the whole-pipeline runs: the own rendering of an entry and its memory
    variants (one register operand replaced by a memory reference: analysed by composing the entry
    with the load/store tables when the model has no direct entry).  All entries that lack
    throughput, latency or port pressure, and one entry per distinct shape of the others."""
    import random
    from harness import lookup_common as lk

    rnd = random.Random("%s|%d" % (arch, seed))
    out, seen = [], set()
    memkind = lk.K("mem", b="gpr" if isa == "x86" else "x", o="imd", i="", sc="1", pre="f", post="f")
    for f in loaded:
        odd = f.latency is None or f.throughput is None or not f.port_pressure
        kinds = []
        try:
            for op in (f.operands or []):
                k = lk.project_entry_operand(isa, op)
                if k is None:
                    raise ValueError("operand outside the vocabulary")
                w = lk.written_for(isa, k, rnd)
                if isa == "aarch64" and w["k"] == "mem" and (w["pre"] == "t" or w["post"] == "t"):
                    # write-back addressing exists with an immediate only: [xN, #imm]! and [xN], #imm
                    # (a wildcard entry would otherwise be instantiated to something that is no instruction)
                    w = dict(w, i="", sc="1", o="imd" if w["pre"] == "t" else w["o"])
                kinds.append(w)
        except ValueError:
            continue
        shape = (odd, isinstance(f.port_pressure, dict), len(f.port_pressure or []), tuple(k["k"] + str(k.get("c", "")) for k in kinds))
        if not odd and analyse != "all":
            if shape in seen:
                continue
        seen.add(shape)
        name = str(f.mnemonic).lower()
        try:
            out.append(("own", name, lk.render_line(isa, name, kinds, rnd)))
        except Exception:  # noqa - a kind that cannot be written
            continue
        if any(k["k"] == "mem" for k in kinds):
            continue
        regpos = [i for i, k in enumerate(kinds) if k["k"] == "reg"]
        for pos in regpos[:1] + regpos[-1:] if len(regpos) > 1 else regpos:
            kk = list(kinds)
            kk[pos] = memkind
            try:
                out.append(("mem%d" % pos, name, lk.render_line(isa, name, kk, rnd)))
            except Exception:  # noqa
                pass
    return out


def _cli_analyse(arch, text, extra, workdir):
    import io
    import osaca.osaca as oo

    path = os.path.join(workdir, "c15-pipeline-%d.s" % os.getpid())
    with open(path, "w") as fh:
        fh.write(text)
    parser = oo.create_parser()
    args = parser.parse_args(["--arch", arch, "--lcd-timeout", "1", "--ignore-unknown"] + list(extra) + [path])
    oo.check_arguments(args, parser)
    out = io.StringIO()
    try:
        oo.run(args, output_file=out)
    finally:
        args.file.close()
        os.unlink(path)
    return out.getvalue()


def _api_pipeline(arch, line, fixed, tools):
    """The stages of osaca.osaca.inspect on one line with models loaded once (narrowing only)."""
    from osaca.frontend import Frontend
    from osaca.semantics import KernelDG

    mm, sem, parser = tools
    kernel = parser.parse_file("\t" + line + "\n")
    sem.add_semantics(kernel)
    if not fixed:
        sem.assign_optimal_throughput(kernel)
        sem.assign_optimal_throughput(kernel)
    dg = KernelDG(kernel, parser, mm, sem, 1, False)
    fe = Frontend("c15.s", arch=arch)
    fe.full_analysis(kernel, dg, ignore_unknown=True, lcd_warning=dg.timed_out)
    fe.full_analysis_dict(kernel, dg, lcd_warning=dg.timed_out)


def _pipeline_crashes(arch, lines, workdir, tools, chunk=16):
    """Run the CLI analysis (default and --fixed) on chunks of lines.  When a chunk raises, every line
    of it goes through the same stages on its own (models loaded once); the lines that raise there
    are the witnesses, otherwise the chunk as a whole is."""
    import warnings

    res, nrun = [], 0
    for i in range(0, len(lines), chunk):
        grp = lines[i:i + chunk]
        text = "".join("\t" + l[2].strip() + "\n" for l in grp)
        for extra in ((), ("--fixed",)):
            nrun += 1
            try:
                with warnings.catch_warnings():
                    warnings.simplefilter("ignore")
                    rep = _cli_analyse(arch, text, extra, workdir)
                for l in grp:
                    if l[2].strip() not in rep:
                        res.append({"lines": [list(l)], "opts": list(extra), "err": "the instruction line is not in the report", "where": "report"})
                continue
            except Exception as ex:  # noqa
                err = pc.exc_text(ex), pc.exc_where(ex)
            single = []
            for l in grp:
                try:
                    with warnings.catch_warnings():
                        warnings.simplefilter("ignore")
                        _api_pipeline(arch, l[2].strip(), bool(extra), tools)
                except Exception as ex:  # noqa
                    single.append({"lines": [list(l)], "opts": list(extra), "err": pc.exc_text(ex), "where": pc.exc_where(ex)})
            res += single or [{"lines": [list(l) for l in grp], "opts": list(extra), "err": err[0], "where": err[1]}]
    return res, nrun


_DBCHECK = re.compile(r"\((\d+)/(\d+)\) of instruction forms have no (throughput value|latency value|port pressure)")


def _dbcheck(arch):
    anyfile = os.path.join(env.REPO, "tests", "test_files", "kernel_x86.s")
    try:
        rc, out, err = env.run_cli(["--arch", arch, "--db-check", anyfile], timeout=600)
    except Exception as ex:
        return arch, None, pc.exc_text(ex)
    found = {m.group(3).split()[0]: (int(m.group(1)), int(m.group(2))) for m in _DBCHECK.finditer(out)}
    if rc != 0 or len(found) != 3:
        last = (err.strip().splitlines() or ["rc=%d" % rc])[-1]
        return arch, None, "db-check failed: %s" % last[:200]
    return arch, found, None


_AFTER = r"""
import io, sys
import osaca.osaca as oo
def go(argv):
    parser = oo.create_parser()
    args = parser.parse_args(argv)
    oo.check_arguments(args, parser)
    buf = io.StringIO()
    try:
        oo.run(args, output_file=buf)
    finally:
        args.file.close()
    return buf.getvalue()
arch, imp, kind, kernel = sys.argv[1:5]
go(["--arch", arch, "--import", kind, imp])
go(["--arch", arch, kernel])
sys.stdout.write(go(["--arch", arch, "--db-check", kernel]))
"""


def _dbcheck_after(job):
    """--db-check in a process that has imported benchmark results into the same model and analysed a kernel with
    it before: the counts are still those of the model FILE"""
    arch, imp, kind, kernel = job
    import subprocess

    try:
        p = subprocess.run([env.PY, "-B", "-c", _AFTER, arch, imp, kind, kernel], env=env.child_env(None, None), cwd="/",
                           stdout=subprocess.PIPE, stderr=subprocess.PIPE, timeout=600)
    except Exception as ex:
        return arch, None, pc.exc_text(ex)
    out = p.stdout.decode("utf-8", "replace")
    found = {m.group(3).split()[0]: (int(m.group(1)), int(m.group(2))) for m in _DBCHECK.finditer(out)}
    if p.returncode != 0 or len(found) != 3:
        last = (p.stderr.decode("utf-8", "replace").strip().splitlines() or ["rc=%d" % p.returncode])[-1]
        return arch, None, "db-check after an import in the same process failed: %s" % last[:200]
    return arch, found, None


# ---------------------------------------------------------------------------------- R3
def r3_shipped(run, tier):
    files = pc.model_files(ALL_ARCHS + env.EMPTY_ARCHS)
    skipped = [os.path.basename(f) for f in files if os.path.getsize(f) == 0]
    exp = pc.export_models(files)
    run.note("skipped_empty_files", skipped)
    full_archs = ALL_ARCHS if tier == "thorough" else QUICK_FULL
    env.warm_models(full_archs)
    cases, meta, jobs = [], {}, []
    per_file = {}
    for path, d in exp.items():
        base = os.path.basename(path)[:-4]
        isa_file = "/isa/" in path
        head = d["head"]
        isa = str(head.get("isa", "")).lower()
        mports = [str(p) for p in (head.get("ports") or [])]
        items, es = [], []
        for n, e in enumerate(d["entries"]):
            cid = "%s#%d" % (base if not isa_file else "isa-" + base, n)
            c = pc.enc_entry(e, "isa" if isa_file else "form", cid, mports, isa)
            nm = e.get("name") if isinstance(e, dict) else None
            meta[cid] = {"file": os.path.basename(path), "name": nm, "ops": pc.operand_signature(e), "entry": pc.plain(e)}
            cases.append(c)
            if not isa_file:
                if c["pp"]["k"] in ("list", "dict"):
                    items.append((cid, pc.plain(e["port_pressure"]), c["unit"]))
                es.append({"a": len(nm) if isinstance(nm, list) else 1, "tp": c["tp"]["k"], "lat": c["lat"]["k"],
                           "pp": c["pp"]["k"], "empty": 1 if c["pp"]["k"] == "list" and not c["pp"]["alts"][0] else 0})
        if not isa_file:  # load/store tables and their defaults
            for key in ("load_throughput", "store_throughput"):
                for n, row in enumerate(head.get(key) or []):
                    cid = "%s#%s[%d]" % (base, key, n)
                    c = pc.enc_entry(row, "table", cid, mports, isa)
                    meta[cid] = {"file": os.path.basename(path), "name": key, "ops": str(n), "entry": pc.plain(row)}
                    cases.append(c)
                    if c["pp"]["k"] in ("list", "dict"):
                        items.append((cid, pc.plain(row["port_pressure"]), c["unit"]))
                dk = key + "_default"
                cid = "%s#%s" % (base, dk)
                c = pc.enc_entry({"port_pressure": head[dk]} if dk in head else {}, "table", cid, mports, isa)
                meta[cid] = {"file": os.path.basename(path), "name": dk, "ops": "", "entry": pc.plain(head.get(dk))}
                cases.append(c)
                if c["pp"]["k"] in ("list", "dict"):
                    items.append((cid, pc.plain(head[dk]), c["unit"]))
        full = isa_file or base in full_archs
        analyse = False if isa_file else ("all" if tier == "thorough" else "sample")
        jobs.append((base, items, full, analyse, isa_file))
        per_file[base if not isa_file else "isa-" + base] = {"es": es, "entries": d["entries"], "isa_file": isa_file}

    # the real code: costing / loading / analysis path in forked workers, --db-check through the CLI
    env.warm_models([])  # ISA databases
    ctx = multiprocessing.get_context("fork")
    import concurrent.futures

    class _NonDaemonicPool(object):
        """the analyses may start worker processes of their own (multi-process LCD search): pool workers must not be daemonic"""

        def __init__(self, n):
            self.ex = concurrent.futures.ProcessPoolExecutor(max_workers=n, mp_context=ctx)

        def __enter__(self):
            return self

        def __exit__(self, *a):
            self.ex.shutdown(wait=True)
            return False

        def map_async(self, fn, items):
            futs = [self.ex.submit(fn, it) for it in items]

            class R(object):
                def get(s):
                    return [f.result() for f in futs]
            return R()

        def map(self, fn, items):
            return self.map_async(fn, list(items)).get()

    with _NonDaemonicPool(min(16, len(jobs))) as pool:
        db_async = pool.map_async(_dbcheck, [a for a in full_archs])
        tf = os.path.join(env.REPO, "tests", "test_files")
        after_jobs = [("zen1", os.path.join(tf, "ibench_import_x86.dat"), "ibench", os.path.join(tf, "kernel_x86.s")),
                      ("tx2", os.path.join(tf, "asmbench_import_aarch64.dat"), "asmbench", os.path.join(tf, "kernel_aarch64.s"))]
        after_jobs = [j for j in after_jobs if j[0] in full_archs]
        after_async = pool.map_async(_dbcheck_after, after_jobs)
        results = pool.map(_arch_job, sorted(jobs, key=lambda j: -len(j[1])))
        dbres = db_async.get()
        afterres = after_async.get()
    byid = {c["id"]: c for c in cases}
    n_costed = 0
    for res in results:
        key = res["arch"] if res["arch"] not in ("x86", "aarch64") else "isa-" + res["arch"]
        for cid, rows in res["rows"].items():
            byid[cid]["rows"] = rows
            n_costed += 1
        for cid, err in res["errs"].items():
            byid[cid]["err"] = err
        if res["load_err"]:
            cases.append({"id": "loaded:" + key, "kind": "loaded", "err": res["load_err"], "exported": [], "loaded": []})
        elif res["loaded"] is not None:
            pf = per_file[key]
            expsig = []
            for e in pf["entries"]:
                names = e["name"] if isinstance(e.get("name"), list) else [e.get("name")]
                expsig += [_sig_export(nm, e) for nm in names]
            cases.append({"id": "loaded:" + key, "kind": "loaded", "exported": sorted(expsig), "loaded": res["loaded"]})
        # the analysis path is judged directly: an exception is never an allowed outcome for an
        # instruction that matches a shipped form
        for rec in res["analysis"]:
            run.add_eval(1)
            if "drift" in rec:
                run.fail("C15:analysis-cost-not-conserved:%s:%s:%s" % (res["arch"], rec["name"], pc.sha(rec["sig"].split("|")[1:])),
                         "%s: the balanced port pressure of an instruction bound to entry %s adds up to %.2f cy, its micro-ops take %.2f cy" % (
                             res["arch"], rec["sig"][:120], sum(rec["drift"]["row_balanced"]), rec["drift"]["cycles"]),
                         {"arch": res["arch"], "entry": rec["sig"], "drift": rec["drift"]})
            if "err" in rec:
                nm = rec["name"]
                run.fail("C15:analysis-exception:%s:%s:%s:%s:%s" % (
                    res["arch"], nm, pc.sha(rec["sig"].split("|")[1:]), rec["err"].split("@")[-1], rec["err"].split(":")[0]),
                         "%s: analysing an instruction bound to entry %s raises %s (stage %s)" % (
                             res["arch"], rec["sig"][:120], rec["err"], rec.get("stage", "lookup")),
                         {"arch": res["arch"], "entry": rec["sig"], "error": rec["err"]})
        run.note("analysis_path_entries_%s" % res["arch"], len(res["analysis"])) if res["analysis"] else None
        if res.get("pipeline_machinery"):
            raise RuntimeError("whole-pipeline scenario failed for %s: %s" % (res["arch"], res["pipeline_machinery"]))
        if "pipeline" in res:
            run.add_eval(res["pipeline_lines"])
            run.add_traces(res["pipeline_runs"])
            run.note("pipeline_%s" % res["arch"], {"lines": res["pipeline_lines"], "cli_runs": res["pipeline_runs"],
                                                   "entries_lacking_data": res["pipeline_odd"],
                                                   "own_renderings_the_parser_rejects": len(res.get("pipeline_unparsable_own") or [])})
            if res.get("pipeline_unparsable_own"):
                run.divergence("own-rendering-not-parsable", {"arch": res["arch"], "examples": res["pipeline_unparsable_own"][:5]})
            for rec in res["pipeline"]:
                first = rec["lines"][0]
                what = "own rendering" if first[0] == "own" else "memory variant (operand %s)" % first[0][3:]
                run.fail("C15:pipeline-exception:%s:%s:%s:%s:%s" % (res["arch"], first[1], first[0], rec["where"], rec["err"].split(":")[0]),
                         "%s: osaca --arch %s %s on %s of a shipped entry raises %s at %s" % (
                             res["arch"], res["arch"], " ".join(rec["opts"]), what, rec["err"], rec["where"]),
                         {"arch": res["arch"], "lines": [l[2] for l in rec["lines"]], "opts": rec["opts"], "error": rec["err"],
                          "kind": "pipeline"})
    for tagname, arch, found, err in [("counts:", a, f, e) for a, f, e in dbres] + [("counts-after-import:", a, f, e) for a, f, e in afterres]:
        c = {"id": tagname + arch, "kind": "counts", "es": per_file[arch]["es"]}
        if err:
            c["err"] = err
        else:
            c["obs"] = {"tp": found["throughput"][0], "lat": found["latency"][0], "pp": found["port"][0],
                        "total": found["throughput"][1]}
        cases.append(c)
    # self-test of the binding: a corrupted cost must be rejected
    probe = next((c for c in cases if c.get("kind") == "form" and c.get("rows") and "err" not in c
                  and any(c["rows"][0])), None)
    if probe is not None:
        bad = json.loads(json.dumps(probe))
        bad["id"] = "selftest|" + probe["id"]
        bad["rows"][0][next(i for i, v in enumerate(bad["rows"][0]) if v)] += 1
        cases.append(bad)
    # TLC: several JVMs in parallel over chunks
    chunks = [cases[i::6] for i in range(6)]
    with multiprocessing.pool.ThreadPool(6) as tp:
        outs = tp.map(lambda ch: tlc.batch_validate("Trace_ModelData", "Trace_ModelData", ch[1], tag="c15-%d" % ch[0],
                                                    timeout=1200), list(enumerate(chunks)))
    rejects = []
    for k, (rej, r) in enumerate(outs):
        run.add_mc(r, "Trace_ModelData(chunk %d)" % k)
        rejects += rej
    if probe is not None:
        hit = [r for r in rejects if r[0].startswith("selftest|")]
        if not hit or hit[0][1] != "cost-mismatch":
            raise tlc.TLCError("self-test: corrupted cost of %s was not rejected (%r)" % (probe["id"], hit))
        rejects = [r for r in rejects if not r[0].startswith("selftest|")]
        cases = [c for c in cases if not str(c["id"]).startswith("selftest|")]
        run.note("selftest_corrupted_cost_rejected", True)
    run.add_traces(len(cases))
    run.note("entries_exported", sum(1 for c in cases if c.get("kind") in ("form", "isa", "table")))
    run.note("entries_costed_by_average_port_pressure", n_costed)
    run.note("models_loaded_completely", sorted(r["arch"] for r in results if r["loaded"] is not None))
    allcases = {c["id"]: c for c in cases}
    unreach = []
    for cid, clause, rest in rejects:
        c = allcases[cid]
        detail = rest[0] if rest else ""
        if c["kind"] in ("counts", "loaded"):
            where = cid.split(":")[1] if not cid.startswith("counts-after-import") else "after-import-" + cid.split(":")[1]
            run.fail("C15:%s:%s" % (clause, where), "%s: %s %s (observed %s)" % (
                cid, clause, detail, c.get("obs") or c.get("err") or ""), {"id": cid, "clause": clause, "obs": c.get("obs")})
            continue
        m = meta[cid]
        nm = "+".join(m["name"]) if isinstance(m["name"], list) else str(m["name"])
        if clause == "malformed" and detail == "unreachable-register-class":
            unreach.append((cid, c, m, nm))
            continue
        sig = "C15:%s:%s:%s:%s:%s" % (clause, m["file"], nm, m["ops"], detail if clause == "malformed" else "")
        run.fail(sig.rstrip(":"), "%s entry %s [%s]: %s %s%s" % (
            m["file"], nm, m["ops"], clause, detail, (" -- " + c["err"]) if "err" in c else ""),
            {"id": cid, "file": m["file"], "entry": m["entry"], "clause": clause, "detail": detail, "error": c.get("err")})
    _confirm_unreachable(run, unreach)
    for c in cases:
        if c.get("kind") == "form" and c["pp"]["k"] in ("list", "dict") and any(len(a) > 1 for a in c["pp"]["alts"]):
            run.mark(c["id"])
    some = [c for c in cases if c.get("kind") == "form" and "rows" in c]
    if some:
        s = some[len(some) // 3]
        run.sample({"id": s["id"], "entry": meta[s["id"]]["entry"], "cost_observed_units": s["rows"]})


# ---------------------------------------------------------------------------------- unreachable classes
_X86_REG = {"gpr": "%r{n}", "mm": "%mm{n}", "xmm": "%xmm{n}", "ymm": "%ymm{n}", "zmm": "%zmm{n}", "k": "%k{n}"}


def _synth_x86(entry, fix):
    """Assembly text for an x86 entry; register classes go through `fix` (class -> class)."""
    ops = []
    for n, o in enumerate(entry.get("operands") or []):
        c = o.get("class")
        if c == "register":
            cls = fix(o.get("name"))
            if cls not in _X86_REG:
                return None
            ops.append(_X86_REG[cls].format(n=n + 9 if cls == "gpr" else n + 1))
        elif c == "immediate":
            ops.append("$1")
        elif c == "memory":
            t = "%d" % (8 * (n + 1)) if o.get("offset") else ""
            t += "(%rax" + (",%rbx" if o.get("index") else "")
            t += (",%s" % o.get("scale")) if o.get("index") and o.get("scale") not in (None, 1) else ""
            ops.append(t + ")")
        elif c == "identifier":
            ops.append("somelabel")
        else:
            return None
    name = entry["name"][0] if isinstance(entry["name"], list) else entry["name"]
    return "%s %s" % (name, ", ".join(ops))


def _confirm_unreachable(run, unreach):
    """Entries whose register class no written register can have (TLC clause
    unreachable-register-class): confirm on the real lookup that the instruction the entry was
    written for (same operands, the architectural register of the intended class) is unknown."""
    if not unreach:
        return
    from harness import synth

    by_arch = collections.defaultdict(list)
    for item in unreach:
        by_arch[item[2]["file"][:-4]].append(item)
    counts = collections.Counter()
    for arch, items in by_arch.items():
        try:
            mm, sem, parser = synth.load_arch(arch)
        except Exception:
            mm = None
        for cid, c, m, nm in items:
            bad = sorted({r for r in c["regs"] if r not in ("gpr", "mm", "xmm", "ymm", "zmm", "k", "*",
                                                            "x", "w", "b", "h", "s", "d", "q", "v", "z", "p")})
            confirmed = None
            if mm is not None and c["isa"] == "x86":
                intended = {"mm0": "mm", "ximm": "xmm"}
                text = _synth_x86(m["entry"], lambda cls: intended.get(cls, cls))
                if text:
                    try:
                        line = parser.parse_line(text)
                        sem.assign_src_dst(line)
                        sem.assign_tp_lt(line)
                        from osaca.semantics.isa_semantics import INSTR_FLAGS

                        hit = mm.get_instruction(line.mnemonic, line.operands)
                        mine = hit is not None and json.dumps(pc.plain(hit.port_pressure)) == json.dumps(
                            m["entry"].get("port_pressure")) and any(
                                getattr(o, "name", None) in bad for o in hit.operands)
                        confirmed = not mine
                    except Exception:
                        confirmed = None
            cls = "+".join(bad) or "none"
            if confirmed is False:
                continue  # the entry is reachable after all: not a violation
            counts[(m["file"], cls)] += 1
            sig = "C15:unreachable-register-class:%s:%s:%s:%s" % (m["file"], cls, nm, m["ops"])
            run.fail(sig, "%s entry %s [%s] names register class %r which no %s register belongs to%s" % (
                m["file"], nm, m["ops"], cls, c["isa"],
                "; the instruction written for it is not served by it" if confirmed else " (not replayed)"),
                {"id": cid, "file": m["file"], "entry": m["entry"], "classes": bad, "confirmed_on_lookup": confirmed})
    run.note("unreachable_register_class_entries", {"%s:%s" % k: v for k, v in sorted(counts.items())})


# ---------------------------------------------------------------------------------- main
def main(tier, seed):
    run = Run("C15", tier, seed)
    run.rule = ("R1/R2: every shape of the bounded entry lattice (MC_ModelData), well-formed ones rendered to a "
                "synthetic model and costed by the real code; R3: every entry, load/store table row and default "
                "of every non-empty shipped model file and both ISA databases (plain-YAML export), one TLC case "
                "each, plus one case per model for the loaded entry list and one for the --db-check counts; "
                "non-trivial = an entry with a micro-op list of at least two micro-ops (or a shape with at "
                "least one micro-op)")
    shapes = r1_shapes(run)
    r2_replay(run, shapes)
    r3_shipped(run, tier)
    run.exhaustive = tier == "thorough"
    run.assume("TLC evaluates ModelData.WfClause / Cost on data (DESIGN section 8): the specification content is the "
               "declarative well-formedness definition and the uniform split shared with C01")
    run.assume("the syntactic encoding of YAML values (harness/port_common.py: enc_entry) is trusted; it classifies "
               "value kinds, it does not judge them")
    run.assume("quick tier loads %s completely (entry list, analysis path on one entry per distinct micro-op list, "
               "--db-check); the other models are costed through a header-only (lazy) MachineModel" % ",".join(QUICK_FULL))
    return run.finish()


def replay(path):
    with open(path) as f:
        rec = json.load(f)
    print("replaying", rec["signature"])
    case = rec["case"]
    if "entry" in case and "file" in case and isinstance(case.get("entry"), (dict, list)):
        from osaca.semantics import MachineModel

        arch = case["file"][:-4]
        mm = MachineModel(arch=arch, lazy=True)
        pp = case["entry"].get("port_pressure") if isinstance(case["entry"], dict) else case["entry"]
        if isinstance(pp, dict):
            pp = {int(k): v for k, v in pp.items()}
        try:
            print("average_port_pressure ->", mm.average_port_pressure(pp))
        except Exception as ex:
            print("average_port_pressure raises", pc.exc_text(ex))
    if case.get("kind") == "pipeline":
        # whole-pipeline witness: the recorded lines through the CLI entry point again
        import warnings

        env.warm_models([case["arch"]])
        wd = os.path.join(tlc.WORK, "scratch")
        os.makedirs(wd, exist_ok=True)
        text = "".join("\t" + l.strip() + "\n" for l in case["lines"])
        print("osaca --arch %s %s on:\n%s" % (case["arch"], " ".join(case["opts"]), text))
        try:
            with warnings.catch_warnings():
                warnings.simplefilter("ignore")
                _cli_analyse(case["arch"], text, case["opts"], wd)
        except Exception as ex:  # noqa
            print("reproduced: raises %s at %s" % (pc.exc_text(ex), pc.exc_where(ex)))
            return 1
        print("not reproduced: the analysis completes")
        return 0
    print(json.dumps(case, indent=1)[:2000])
    return 0
