"""C02  Optimised schedule never worse than uniform and close to the true optimum.

Level A (verdicts, evaluated by TLC in Trace_Port on totals taken from the real code):
  OptNotWorse   max(totals after 1 / 2 passes) <= bottleneck of the uniform 1/N split
  NotBelowHall  max(totals) >= Hall - 0.01, Hall = max over port sets S of (cycles confined to S)/|S|
                (exact optimum of the fractional restricted-assignment problem; cross-multiplied)
  Within15      on the bounded family, two passes (CLI configuration): max(totals) <= Hall + 0.15

R1  TLC enumerates the bounded family of the statement -- every ordered kernel of length <= 4
    (<= 3 with 2-cycle forms) over all single-micro-op forms on every non-empty subset of 3 ports,
    5355 kernels (MC_PortSched_family_table: kernel, Hall optimum, uniform bottleneck) -- and
    model-checks the balancer state machine on it (Level B, two passes, CapsResetPerPass as in the
    code) with OptNotWorse / NotBelowHall / Within15 / FeasibleAll as invariants: the whole family
    in the thorough tier, the sub-family (<= 3 lines, <= 2 with 2-cycle forms) in the quick tier.
R2  All 5355 kernels emitted by TLC are replayed on the real code through a synthetic YAML model
    (process pool): uniform, one pass, two passes; TLC decides the three clauses on the observed
    totals; rows after two passes are compared with the Level-B terminal states (divergence only).
R3  Seeded random synthetic models and shipped models x shipped kernels (as C01), same clauses
    without Within15."""
import collections
import json
import multiprocessing.pool
import os

from harness import env, tlc
from harness import port_common as pc
from harness.verdict import Run


def r1(run, tier):
    os.makedirs(tlc.WORK, exist_ok=True)
    out_t = os.path.join(tlc.WORK, "c02-table-%d.ndjson" % os.getpid())
    out_b = os.path.join(tlc.WORK, "c02-levelb-%d.ndjson" % os.getpid())
    for p in (out_t, out_b):
        if os.path.exists(p):
            os.unlink(p)
    cfg_b = "MC_PortSched_small" if tier == "quick" else "MC_PortSched_family"

    def job(k):
        if k == "table":
            return k, tlc.run_tlc("MC_PortSched", "MC_PortSched_family_table", env={"OUTFILE": out_t}, workers=6,
                                  timeout=900)
        return k, tlc.run_tlc("MC_PortSched", cfg_b, env={"OUTFILE": out_b}, workers=10, timeout=1700)

    with multiprocessing.pool.ThreadPool(2) as tp:
        res = dict(tp.map(job, ["table", "levelb"]))
    run.add_mc(res["table"], "MC_PortSched(MC_PortSched_family_table)")
    run.add_mc(res["levelb"], "MC_PortSched(%s)" % cfg_b)
    table = {}
    for rec in tlc.read_emitted(out_t):
        table[tuple(rec["k"])] = rec
    levelb = collections.defaultdict(list)
    for rec in tlc.read_emitted(out_b):
        levelb[tuple(rec["k"])].append(rec)
    os.unlink(out_t)
    os.unlink(out_b)
    return table, levelb


def judge(run, recs, source_of, tagname, family=0):
    cases, owner = [], {}
    for rec in recs:
        c = pc.c02_case(rec["cid"], rec["np"], rec["obs"], rec["abs"], family=family)
        if c is None:
            continue
        if rec["abs"] is None:
            # shipped model: the reference uniform bottleneck is the one the code reports under
            # uniform scheduling (C01 checks that it is the 1/N split)
            c["uni"] = rec["obs"]["uniform"]["totals"]
        cases.append(c)
        owner[c["id"]] = rec
    if not cases:
        return
    probe = next((c for c in cases if "opt2" in c and max(c["opt2"]) > 30 * pc.STEP), None)
    if probe is not None:  # self-test of the binding: an all-zero bottleneck (below any optimum) must be rejected
        bad = json.loads(json.dumps(probe))
        bad["id"] = "selftest|" + probe["id"]
        bad["opt2"] = [0 for v in bad["opt2"]]
        bad.pop("opt1", None)
        cases.append(bad)
    chunks = [cases[i::4] for i in range(4)] if len(cases) > 1500 else [cases]
    with multiprocessing.pool.ThreadPool(len(chunks)) as tp:
        outs = tp.map(lambda ch: tlc.batch_validate("Trace_Port", "Trace_Port", ch[1], tag="c02-%s-%d" % (tagname, ch[0]),
                                                    timeout=1500), list(enumerate(chunks)))
    byid = {c["id"]: c for c in cases}
    seen_selftest = []
    for k, (rejects, r) in enumerate(outs):
        run.add_mc(r, "Trace_Port(%s/%d)" % (tagname, k))
        for cid, clause, rest in rejects:
            if cid.startswith("selftest|"):
                seen_selftest.append(cid)
                continue
            c, rec = byid[cid], owner[cid]
            npass = rest[0] if rest else 0
            feats = pc.kernel_features(c["lines"]) - {"nosum"} or {"single-uop"}
            snap = rec["obs"].get("opt%s" % npass) or {}
            if any(v < 0 for ln in snap.get("lines", []) for v in ln["row"]):
                feats = feats | {"neg"}  # some instruction row has a negative entry after that pass
            cls = pc.fclass(feats)
            tot = {k2: [v / pc.UNIT for v in c[k2]] for k2 in ("opt1", "opt2") if k2 in c}
            run.fail("C02:%s:%s:pass%s:%s" % (source_of(rec), clause, npass, cls),
                     "%s: %s after %s pass(es); totals %s; kernel micro-ops %s" % (
                         rec["cid"], clause, npass, tot,
                         [[[(u["c"] / pc.UNIT, u["p"]) for u in a] for a in ln["alts"]] for ln in c["lines"] if ln["tp"]][:6]),
                     {"cid": rec["cid"], "text": rec.get("text"), "model": rec.get("model"), "kernel": rec.get("kernel"),
                      "arch": rec.get("arch"), "case": c})
    if probe is not None:
        if not seen_selftest:
            raise tlc.TLCError("self-test: zeroed bottleneck of %s was not rejected" % probe["id"])
        cases = [c for c in cases if not c["id"].startswith("selftest|")]
    run.add_traces(len(cases))
    for c in cases:
        # non-trivial: balancing can change something (some summed line has a micro-op with >= 2 ports)
        if any(ln["tp"] and any(len(set(u["p"])) > 1 for a in ln["alts"] for u in a) for ln in c["lines"]):
            run.mark(c["id"])


def r2(run, tier, table, levelb):
    model = pc.family_model()
    d = env.scratch("c02-r2")
    path = pc.render_model(os.path.join(d, "family.yml"), model)
    recs, items = [], []
    for k in sorted(table):
        kern = [x - 1 for x in k]
        cid = "fam" + "-".join(map(str, k))
        text = pc.render_kernel(kern)
        items.append((cid, text))
        recs.append({"cid": cid, "np": 3, "abs": pc.abstract_lines(model, kern), "kernel": list(k), "text": text, "k": k,
                     "model": None})
    obs = pc.observe_many([(("yaml", path), items, {"e2e": False})], chunk=60)
    for rec in recs:
        rec["obs"] = obs[rec["cid"]]
        for st, o in rec["obs"].items():
            if "error" in o:
                run.fail("C02:exception:fam:%s:%s:%s" % (st, o["where"], o["error"].split(":")[0]),
                         "%s: %s raises %s" % (rec["cid"], st, o["error"]), {"kernel": rec["kernel"], "text": rec["text"]})
    judge(run, recs, lambda r: "fam", "fam", family=1)
    # measured gap to the optimum (reporting only) and Level-B conformance
    gap1 = gap2 = 0.0
    exact = near = compared = 0
    for rec in recs:
        t = table[rec["k"]]
        hall = t["hall"][0] / t["hall"][1]
        o1, o2 = rec["obs"].get("opt1"), rec["obs"].get("opt2")
        if o1 and "totals" in o1:
            gap1 = max(gap1, (max(o1["totals"]) - hall) / pc.UNIT)
        if o2 and "totals" in o2:
            gap2 = max(gap2, (max(o2["totals"]) - hall) / pc.UNIT)
        rs = levelb.get(rec["k"])
        if rs and o2 and "lines" in o2:
            compared += 1
            rows = [ln["row"] for ln in o2["lines"]]
            best = min(max(abs(a - b) for ra, rb in zip(rows, r["rows"]) for a, b in zip(ra, rb)) for r in rs)
            if best == 0:
                exact += 1
            elif best <= pc.STEP:
                near += 1
            else:
                run.divergence("levelB:rows-differ-by-more-than-one-step",
                               {"kernel": rec["kernel"], "code": rows, "model": [r["rows"] for r in rs]})
    run.note("family_kernels_enumerated_by_tlc", len(table))
    run.note("family_kernels_replayed_on_code", len(recs))
    run.note("largest_gap_to_optimum_one_pass_cy", round(gap1, 4))
    run.note("largest_gap_to_optimum_two_passes_cy", round(gap2, 4))
    run.note("levelB_compared", compared)
    run.note("levelB_rows_exact", exact)
    run.note("levelB_rows_within_one_step", near)
    # the CLI configuration itself: `osaca --arch` with the family model placed in a private user
    # data directory; totals parsed from the report (every 5th kernel in the thorough tier, every 31st in the quick tier)
    home = pc.cli_home("port-c02-cli", model)
    step = 5 if tier == "thorough" else 31
    sel = recs[::step]
    got = pc.cli_many(home, "zen1", [(r["cid"], r["text"]) for r in sel], 3)
    clirecs = []
    for r in sel:
        t = got[r["cid"]]
        if isinstance(t, dict):
            run.fail("C02:exception:cli:fam:%s" % t["error"].split(":")[0], "%s: osaca --arch (synthetic family model) "
                     "fails: %s" % (r["cid"], t["error"]), {"kernel": r["kernel"], "text": r["text"]})
            continue
        clirecs.append({"cid": "cli-" + r["cid"], "np": 3, "abs": r["abs"], "kernel": r["kernel"], "text": r["text"],
                        "model": None, "obs": {"uniform": r["obs"]["uniform"], "opt2": {"totals": t, "lines": []}}})
    judge(run, clirecs, lambda r: "cli", "cli", family=1)
    run.note("family_kernels_through_cli", len(clirecs))
    # long kernels through the CLI (the report is produced from the very rows the bottleneck is read from): whatever the
    # schedule, the bottleneck cannot lie below cycles / ports, and must not lie above the uniform split's
    full = next(k for k in range(7) if len(pc.SUBSETS3[k]) == 3)
    singles = [k for k in range(7) if len(pc.SUBSETS3[k]) == 1]
    longs = []
    for reps, extra in ((21, 2), (34, 0), (47, 5)):
        forms = [full] * reps + [singles[0]] * extra
        cycles = reps + extra
        longs.append(("long-%d-%d" % (reps, extra), pc.render_kernel(forms), cycles, max(reps / 3.0 + extra, 0)))
    got = pc.cli_many(home, "zen1", [(c, t) for c, t, _, _ in longs], 3)
    for cid, text, cycles, uniform in longs:
        t = got[cid]
        if isinstance(t, dict):
            run.fail("C02:exception:cli:long:%s" % t["error"].split(":")[0], "%s: osaca --arch (synthetic family model) fails: %s" % (cid, t["error"]),
                     {"text": text})
            continue
        bott = max(t) / float(pc.UNIT)
        run.add_eval(1)
        tol = 0.011 if bott < 10 else 0.051     # the report shows two decimals below 10 cycles, one from 10 on
        if bott < cycles / 3.0 - tol:
            run.fail("C02:below-optimum:cli:long", "%s: the report shows a bottleneck of %.2f cy for %d cycles of work on 3 ports (at least %.2f)" % (
                cid, bott, cycles, cycles / 3.0), {"text": text, "totals_units": t})
        elif bott > uniform + tol:
            run.fail("C02:worse-than-uniform:cli:long", "%s: the report shows a bottleneck of %.2f cy, the uniform split gives %.2f" % (cid, bott, uniform),
                     {"text": text, "totals_units": t})
    import shutil
    shutil.rmtree(home, ignore_errors=True)
    k = sorted(table)[len(table) // 2]
    run.sample({"kernel_forms": list(k), "hall_optimum_units": table[k]["hall"], "uniform_bottleneck_units": table[k]["uni"],
                "text": pc.render_kernel([x - 1 for x in k])})


def main(tier, seed):
    run = Run("C02", tier, seed)
    run.rule = ("R2: the 5355 kernels of the bounded family (enumerated by TLC); R3: seeded random synthetic models x "
                "kernels and shipped models x shipped kernels; one case per kernel with the totals after one and two "
                "passes; non-trivial = some summed line has a micro-op with at least two admissible ports (balancing "
                "can change the result)")
    table, levelb = r1(run, tier)
    if len(table) != 5355:
        raise tlc.TLCError("family table has %d kernels, expected 5355" % len(table))
    r2(run, tier, table, levelb)
    nm, nk = (60, 10) if tier == "quick" else (500, 14)
    syn = pc.synthetic_campaign(seed + 1, nm, nk, "c02-syn", e2e=False)
    judge(run, syn, lambda r: "syn", "syn")
    archs = (env.QUICK_X86 + env.QUICK_ARM) if tier == "quick" else (env.X86_ARCHS + env.ARM_ARCHS)
    ship = pc.shipped_campaign(archs, "c02-ship", e2e=False)
    judge(run, ship, lambda r: "ship:" + r["arch"], "ship")
    run.note("synthetic_kernels", len(syn))
    run.note("shipped_model_kernel_pairs", len(ship))
    run.exhaustive = True
    run.assume("the exact optimum is the Hall bound max_S Confined(S)/|S| (max-flow/min-cut for the fractional "
               "restricted-assignment problem), evaluated by TLC with cross-multiplied integers")
    run.assume("with alternative assignments the optimum / uniform bottleneck are taken over the weakest choice of "
               "alternatives (the statement leaves the choice open)")
    run.assume("for shipped models the uniform reference is the bottleneck the code reports under uniform scheduling "
               "(validated as the 1/N split by C01) and the micro-ops are the reported ones")
    # whole-run traces of `inspect` validated against specs/Osaca.tla (clauses owned by this property)
    from harness import osaca_run
    osaca_run.whole_runs(run, "C02", tier, seed, n_quick=24)
    return run.finish()


def replay(path):
    with open(path) as f:
        rec = json.load(f)
    print("replaying", rec["signature"])
    c = rec["case"]
    from harness import synth

    if c.get("arch"):
        env.warm_models([c["arch"]])
        mm, sem, parser = synth.load_arch(c["arch"])
        obs = pc.observe(mm, sem, parser, c["text"], arch=c["arch"], e2e=False)
    else:
        model = c.get("model") or pc.family_model()
        d = env.scratch("c02-replay")
        p = pc.render_model(os.path.join(d, "m.yml"), model)
        mm, sem, parser = synth.load(p)
        obs = pc.observe(mm, sem, parser, c["text"], yaml_path=p, e2e=False)
    for st, o in obs.items():
        print(st, [v / pc.UNIT for v in o["totals"]] if "totals" in o else o)
    return 0
