"""C12  Register dependence equals architectural register overlap.

R1  TLC enumerates every ordered pair of register names of each ISA (MC_RegAlias) and checks
    that the specified relation is an equivalence with the family sizes of the statement.
R2  The table emitted by that run (one row per register: the set of dependent names) is
    replayed on ParserX86ATT / ParserAArch64 .is_reg_dependend_of for every ordered pair in
    lower, upper and mixed case, both through operands produced by the real parser and through
    directly constructed RegisterOperand objects.
R3  The observations (per register and mode: the set of names the code calls dependent) are
    validated by TLC against RegAlias (Trace_RegAlias), which names the failing clause."""
import json
import os
import random

from harness import tlc
from harness.verdict import Run, VERIF

MODES = ["lower", "upper", "mixed"]


def _case(name, mode, rnd):
    if mode == "lower":
        return name.lower()
    if mode == "upper":
        return name.upper()
    return "".join(ch.upper() if rnd.random() < 0.5 else ch.lower() for ch in name)


def _emit_table(run, isa):
    out = os.path.join(tlc.WORK, "c12-%s-%d.ndjson" % (isa, os.getpid()))
    os.makedirs(tlc.WORK, exist_ok=True)
    if os.path.exists(out):
        os.unlink(out)
    r = tlc.run_tlc("MC_RegAlias", "MC_RegAlias_%s" % isa, env={"OUTFILE": out}, workers=16, timeout=600)
    run.add_mc(r, "MC_RegAlias_%s" % isa)
    rows = {}
    for rec in tlc.read_emitted(out):
        rows[rec["name"]] = rec
    os.unlink(out)
    return rows


class X86Driver:
    isa = "x86"

    def __init__(self):
        from osaca.parser import ParserX86ATT
        from osaca.parser.register import RegisterOperand

        self.p = ParserX86ATT()
        self.R = RegisterOperand

    def parsed(self, text):
        # let the real parser build the operand
        line = self.p.parse_line("vmovq %{}, %{}".format(text, text))
        op = line.operands[0]
        assert type(op).__name__ == "RegisterOperand", (text, op)
        return op

    def direct(self, text):
        return self.R(name=text)

    def dep(self, a, b):
        return bool(self.p.is_reg_dependend_of(a, b))


class A64Driver:
    isa = "aarch64"

    def __init__(self):
        from osaca.parser import ParserAArch64
        from osaca.parser.register import RegisterOperand

        self.p = ParserAArch64()
        self.R = RegisterOperand

    def parsed(self, text):
        line = self.p.parse_line("mov {}, {}".format(text, text))
        op = line.operands[0]
        assert type(op).__name__ == "RegisterOperand", (text, op)
        return op

    def direct(self, text):
        # what a caller of the public API writes down for the register `text`
        low = text.lower()
        if low in ("sp", "wsp", "xzr", "wzr"):
            if low == "sp":
                return self.R(prefix="x" if text.islower() else "X", name=text)
            return self.R(prefix=text[0], name=text[1:])
        return self.R(prefix=text[0], name=text[1:])

    def dep(self, a, b):
        return bool(self.p.is_reg_dependend_of(a, b))


def _observe(drv, rows, mode, via, rnd):
    """For every register a: the set of names b with dep(a,b).  Returns list of cases."""
    names = sorted(rows)
    build = drv.parsed if via == "parser" else drv.direct
    ops = {}
    for n in names:
        ops[n] = build(_case(n, mode, rnd))
    # second, independently cased operand for the b side in mixed mode
    ops_b = ops if mode != "mixed" else {n: build(_case(n, mode, rnd)) for n in names}
    cases = []
    for a in names:
        deps = []
        err = None
        for b in names:
            try:
                if drv.dep(ops[a], ops_b[b]):
                    deps.append(b)
            except Exception as e:  # a crash is not an allowed outcome
                err = "%s: %s" % (type(e).__name__, e)
        cases.append({"id": "%s|%s|%s|%s" % (drv.isa, via, mode, a), "isa": drv.isa, "name": a,
                      "deps": deps, "asked": len(names), "mode": mode, "via": via, "error": err})
    return cases


def _observe_lanes(drv, rows):
    """AArch64: the v registers as they stand inside instructions - one lane of them (`v1.d[0]`), another lane
    (`v1.d[1]`), all lanes (`v1.2d`).  All of them are views of the architectural register vN: the dependents are
    those of the name vN, whichever lane or arrangement the two operands name."""
    names = sorted(rows)
    vnames = [n for n in names if n[0] == "v" and n[1:].isdigit()]

    def lane(n, idx, shape="d"):
        line = drv.p.parse_line("ins {}.{}[{}], x3".format(n, shape, idx))
        return line.operands[0]

    def arr(n):
        line = drv.p.parse_line("fadd {0}.2d, {0}.2d, {0}.2d".format(n))
        return line.operands[0]
    plain = {n: drv.parsed(n) for n in names}
    cases = []
    for tag, mk_a, mk_b in (("lane0-lane1", lambda n: lane(n, 0), lambda n: lane(n, 1)),
                            ("lane1-arr", lambda n: lane(n, 1), arr),
                            ("arr-lane0s", arr, lambda n: lane(n, 0, "s")),
                            ("lane3s-lane0d", lambda n: lane(n, 3, "s"), lambda n: lane(n, 0))):
        side_b = {b: (mk_b(b) if b in vnames else plain[b]) for b in names}   # parsed once per name
        for a in vnames:
            deps, err = [], None
            op_a = mk_a(a)
            for b in names:
                try:
                    if drv.dep(op_a, side_b[b]):
                        deps.append(b)
                except Exception as e:  # a crash is not an allowed outcome
                    err = "%s: %s" % (type(e).__name__, e)
            cases.append({"id": "%s|lanes:%s|lower|%s" % (drv.isa, tag, a), "isa": drv.isa, "name": a, "deps": deps,
                          "asked": len(names), "mode": "lower", "via": "lanes:" + tag, "error": err})
    return cases


def _signature(c, clause, rows):
    exp = set(rows[c["name"]]["deps"])
    obs = set(c["deps"])
    diff = sorted((exp - obs) | (obs - exp))
    return "C12:%s:%s:%s:%s:%s:%s" % (c["isa"], c["via"], c["mode"], clause, rows[c["name"]]["fam"], c["name"]), diff


def main(tier, seed):
    run = Run("C12", tier, seed)
    rnd = random.Random(seed)
    run.rule = ("every ordered pair of register names of each ISA (table emitted by TLC from MC_RegAlias) x "
                "{lower, upper, mixed case} x {operand built by the real parser, operand constructed directly}; "
                "a case = one register with the set of names the code reports dependent; "
                "non-trivial = the register's family has more than one member")
    total_pairs = 0
    for drv_cls in (X86Driver, A64Driver):
        drv = drv_cls()
        rows = _emit_table(run, drv.isa)
        cases = []
        for via in ("parser", "direct"):
            for mode in (MODES if via == "direct" else MODES[:2]):
                cs = _observe(drv, rows, mode, via, rnd)
                cases += cs
                total_pairs += len(cs) * len(rows)
        if drv.isa == "aarch64":
            cs = _observe_lanes(drv, rows)
            cases += cs
            total_pairs += len(cs) * len(rows)
        for c in cases:
            if c["error"]:
                run.fail("C12:%s:exception:%s" % (c["isa"], c["name"]), c["error"], c)
        rejects, r = tlc.batch_validate("Trace_RegAlias", "Trace_RegAlias", cases, tag="c12-" + drv.isa)
        run.add_mc(r, "Trace_RegAlias_%s" % drv.isa)
        run.add_traces(len(cases))
        byid = {c["id"]: c for c in cases}
        for cid, clause, _ in rejects:
            c = byid[cid]
            sig, diff = _signature(c, clause, rows)
            run.fail(sig, "%s %r (%s, %s case): expected dependents %s, observed %s (differs on %s)" % (
                c["isa"], c["name"], c["via"], c["mode"], sorted(rows[c["name"]]["deps"]), c["deps"], diff), c)
        for c in cases:
            if len(rows[c["name"]]["deps"]) > 1:
                run.mark(c["id"])
        run.sample({k: cases[0][k] for k in ("id", "isa", "name", "deps", "mode", "via")})
        run.sample({k: cases[-1][k] for k in ("id", "isa", "name", "deps", "mode", "via")})
    run.add_eval(total_pairs)
    run.note("ordered_pairs_evaluated_on_code", total_pairs)
    run.exhaustive = True
    run.assume("register names are rendered from RegAlias.tla's name tables; the parser-built operands go through "
               "ParserX86ATT/ParserAArch64.parse_line, direct ones through RegisterOperand(prefix, name)")
    run.assume("TLC acts as evaluator of a finite table here (DESIGN section 8)")
    return run.finish()


def replay(path):
    with open(path) as f:
        rec = json.load(f)
    c = rec["case"]
    drv = X86Driver() if c["isa"] == "x86" else A64Driver()
    print("replaying", rec["signature"])
    if str(c["via"]).startswith("lanes:"):
        # lane / arrangement views: observed again on the current tree
        now = [x for x in _observe_lanes(drv, {n: None for n in c.get("names", [])} or _emit_table(Run("C12", "quick", 0), "aarch64"))
               if x["id"] == c["id"]]
        print("register", c["name"], "recorded dependents", c["deps"], "now", now[0]["deps"] if now else "?")
        return 0
    build = drv.parsed if c["via"] == "parser" else drv.direct
    rnd = random.Random(rec.get("seed", 0))
    a = build(_case(c["name"], c["mode"], rnd))
    print("register", c["name"], "recorded dependents", c["deps"])
    return 0
