"""C20  Benchmark import snaps measurements and emits every imported form.

R1  TLC checks MC_BenchImport (a state machine shaped like import_benchmark_output: entries consumed
    into a dictionary keyed by the form, first malformed asmbench block stops the scan, dump) against
    the Level-A clauses Snap / Merged / StopsAtMalformed / EveryFormEmitted of BenchImport.tla, on a
    measurement grid around the 5 % windows (single-entry files) and on all files of <= 3 (thorough:
    <= 4) entries over 3 forms x in/out-of-tolerance values (+ 3 kinds of malformed block).
R2  Dumped states are emitted by TLC (file + Level-B prediction), rendered to ibench / asmbench text
    and imported through the real CLI `osaca --arch A --import MODE FILE` (x86: zen1, AArch64: n1);
    the emitted stream is read back as plain YAML (ruamel safe load) and projected.
R3  Seeded random files: form names over all documented operand codes of both ISAs (fresh mnemonics,
    mnemonics already in the target model, upper-case mnemonics), measurements around and away from
    the snapping points, seeded corruption of the asmbench block structure; zen1, n1, tx2.
Every observation is decided by TLC (Trace_BenchImport) with BenchImport's own definitions."""
import collections
import json
import os
import random
import re
import shutil
import sys
import time

from harness import env, tlc
from harness.verdict import Run

ARCH = {"x86": ["zen1"], "aarch64": ["n1", "tx2"]}
U = 10 ** 6


# ------------------------------------------------------------------ rendering (abstract -> text)
def op(c, sh="", fb=False, fo=False, fi=False, fs=False, fr=False, fp=False):
    return {"c": c, "sh": sh, "fb": fb, "fo": fo, "fi": fi, "fs": fs, "fr": fr, "fp": fp}


def code_text(o):
    """operand code as documented in README 'Benchmark import'"""
    if o["c"] == "m":
        return "m" + "".join(ch for ch, f in (("b", "fb"), ("o", "fo"), ("i", "fi"), ("s", "fs"), ("r", "fr"), ("p", "fp")) if o[f])
    return o["c"] + o["sh"]


def form_name(form):
    return form["mnem"] + "-" + "_".join(code_text(o) for o in form["ops"])


def cycles(m, rnd=None):
    """micro-cycles -> exact decimal text (3..6 decimals)"""
    s = "%d.%06d" % (m // U, m % U)
    while len(s.split(".")[1]) > 3 and s.endswith("0"):
        s = s[:-1]
    return s


def render_ibench(file, rnd):
    lines = ["Using frequency %s." % rnd.choice(["2.50GHz", "2.20GHz", "3.00GHz"])]
    for e in file:
        pad = " " * rnd.choice([1, 3, 4])
        lines.append("%s-%s:%s%s (clock cycles)    [DEBUG - result: %s]" % (
            form_name(e["form"]), e["t"].upper(), pad, cycles(e["m"]), rnd.choice(["0.007813", "1.000000"])))
    return "\n".join(lines) + "\n"


def render_asmbench(file, rnd):
    out = []
    for e in file:
        name = form_name(e["form"])
        if e["t"] == "block":
            out += [name, "Latency: %s cy" % cycles(e["lt"]), "Throughput: %s cy" % cycles(e["tp"]), ""]
        else:
            lt, tp = "Latency: 4.01 cy", "Throughput: 0.501 cy"
            if e["why"] == "noblank":      # the empty line after the throughput line is missing
                out += [name, lt, tp]
            elif e["why"] == "extra":      # an additional output line inside the block
                out += [name, lt, tp, "Iterations: 1000", ""]
            elif e["why"] == "short":      # the latency line is missing
                out += [name, tp, ""]
            else:
                raise ValueError(e["why"])
    return "".join(l + "\n" for l in out)


# ------------------------------------------------------------------ projection (emitted YAML -> abstract)
def _micro(v):
    if v is None:
        return -1
    if isinstance(v, bool) or not isinstance(v, (int, float)):
        return -2
    return int(round(v * U))


def proj_operand(o):
    if not isinstance(o, dict):
        return {"k": "other"}
    cls = o.get("class")
    if cls == "register":
        return {"k": "reg", "name": str(o.get("name") or ""), "prefix": str(o.get("prefix") or ""),
                "shape": str(o.get("shape") or "")}
    if cls == "immediate":
        return {"k": "imm", "imd": str(o.get("imd"))}
    if cls == "memory":
        sc = o.get("scale")
        if isinstance(sc, bool) or not isinstance(sc, int) or sc < 1:
            return {"k": "other"}
        return {"k": "mem", "base": o.get("base") is not None, "offset": o.get("offset") is not None,
                "index": o.get("index") is not None, "scaled": sc > 1,
                "pre": bool(o.get("pre_indexed", False)), "post": bool(o.get("post_indexed", False))}
    return {"k": "other"}


def _mnemonic(e):
    m = e.get("mnemonic") if e.get("mnemonic") is not None else e.get("name")
    return m if isinstance(m, str) else ""


def _key(e):
    return json.dumps(e, sort_keys=True, default=str)


def load_emitted(text):
    """the emitted stream as plain YAML -> list of instruction-form dicts"""
    import ruamel.yaml

    y = ruamel.yaml.YAML(typ="safe")
    d = y.load(text)
    forms = d.get("instruction_forms") if isinstance(d, dict) else None
    if not isinstance(forms, list):
        raise ValueError("emitted stream has no instruction_forms list")
    return [e for e in forms if isinstance(e, dict)]


_CHUNK_MEMO = {}


def split_forms(text):
    """Reader optimisation: the dump writes instruction_forms last, as a block sequence whose items start
    with '- ' in column 0.  -> list of item texts, or None if the stream does not have that shape (the
    caller then parses the whole stream)."""
    i = text.rfind("\ninstruction_forms:\n")
    if i < 0:
        return None
    lines = text[i + len("\ninstruction_forms:\n"):].split("\n")
    if not lines or not lines[0].startswith("- "):
        return None
    chunks, cur = [], []
    for l in lines:
        if l.startswith("- "):
            if cur:
                chunks.append("\n".join(cur))
            cur = [l]
        elif l == "" or l.startswith(" "):
            cur.append(l)
        else:
            return None      # another top-level key follows: not the expected shape
    if cur:
        chunks.append("\n".join(cur))
    # the last item is followed by the final newline of the stream: an item never ends in empty lines
    return [c.rstrip("\n") for c in chunks]


def parse_chunk(chunk):
    import ruamel.yaml

    if chunk not in _CHUNK_MEMO:
        d = ruamel.yaml.YAML(typ="safe").load(chunk)
        if not (isinstance(d, list) and len(d) == 1 and isinstance(d[0], dict)):
            raise ValueError("unexpected instruction_forms item")
        if len(_CHUNK_MEMO) > 20000:
            _CHUNK_MEMO.clear()
        _CHUNK_MEMO[chunk] = d[0]
    return _CHUNK_MEMO[chunk]


_RE_FIRST = re.compile(r"^- (?:name|mnemonic): (\S+)\s*$")


def read_stream(text, wanted):
    """-> list of (entry dict, raw key) for every emitted instruction form whose mnemonic (lower case) is in
    `wanted` or could not be read off its first line; all other entries are returned as (None, raw key)."""
    chunks = split_forms(text)
    if chunks is None:
        return [(e, _key(e)) for e in load_emitted(text)]
    out = []
    for c in chunks:
        m = _RE_FIRST.match(c.split("\n", 1)[0])
        if m and m.group(1).strip("'\"").lower() not in wanted:
            out.append((None, c))
        else:
            out.append((parse_chunk(c), c))
    return out


def project(case, emitted, baseline):
    """emitted: [(entry or None, raw key)] from read_stream; baseline: raw keys of the empty import"""
    base = collections.Counter(baseline)
    by_mn = collections.defaultdict(list)
    for e, k in emitted:
        new = base[k] <= 0
        if not new:
            base[k] -= 1
        if e is None:
            if new:      # cannot happen: unparsed entries are only skipped on a readable first line
                e = parse_chunk(k)
            else:
                continue
        by_mn[_mnemonic(e).lower()].append((e, new))
    forms, seen = [], set()
    for ent in case["file"]:
        f = ent["form"]
        if f["id"] in seen:
            continue
        seen.add(f["id"])
        entries = []
        for e, new in by_mn.get(f["mnem"].lower(), []):
            ops = e.get("operands")
            entries.append({"ops": [proj_operand(o) for o in ops] if isinstance(ops, list) else [{"k": "other"}],
                            "tp": _micro(e.get("throughput")), "lt": _micro(e.get("latency")), "new": new})
        forms.append({"id": f["id"], "entries": entries})
    return forms


# ------------------------------------------------------------------ running the CLI
def cli_forked(argv, scratch, tag):
    """`osaca <argv>` = osaca.osaca.main() with sys.argv set, in a process forked from this one, which has
    imported the osaca modules from the repository under test but never loaded a model (saves the 0.6 s
    import per run).  stdout/stderr go to files.  -> (rc, stdout, stderr) like env.run_cli."""
    import osaca.osaca  # noqa: F401  (import only)

    po, pe = os.path.join(scratch, tag + ".out"), os.path.join(scratch, tag + ".err")
    sys.stdout.flush()
    sys.stderr.flush()
    pid = os.fork()
    if pid == 0:
        code = 1
        try:
            for path, fd in ((po, 1), (pe, 2)):
                f = os.open(path, os.O_WRONLY | os.O_CREAT | os.O_TRUNC, 0o644)
                os.dup2(f, fd)
                os.close(f)
            sys.stdout = os.fdopen(1, "w", closefd=False)
            sys.stderr = os.fdopen(2, "w", closefd=False)
            sys.argv = ["osaca"] + list(argv)
            os.chdir("/")
            try:
                osaca.osaca.main()
                code = 0
            except SystemExit as e:
                code = e.code if isinstance(e.code, int) else (0 if e.code is None else 1)
            except BaseException:
                import traceback

                traceback.print_exc()
                code = 1
            sys.stdout.flush()
            sys.stderr.flush()
        finally:
            os._exit(code)
    _, status = os.waitpid(pid, 0)
    rc = os.WEXITSTATUS(status) if os.WIFEXITED(status) else -1
    with open(po, encoding="utf-8", errors="replace") as f:
        out = f.read()
    with open(pe, encoding="utf-8", errors="replace") as f:
        err = f.read()
    os.unlink(po)
    os.unlink(pe)
    return rc, out, err


def _import(args):
    """child: write the file, run the CLI, read the stream back -> (id, err, [(entry, raw key)])"""
    cid, arch, mode, text, scratch, wanted, fresh = args
    tag = cid.replace("/", "_")
    path = os.path.join(scratch, "%s.%s.dat" % (tag, mode))
    with open(path, "w") as f:
        f.write(text)
    argv = ["--arch", arch, "--import", mode, path]
    try:
        if fresh:
            rc, out, err = env.run_cli(argv, timeout=300)
        else:
            rc, out, err = cli_forked(argv, scratch, tag)
    except Exception as e:  # timeout etc.
        return cid, "%s: %s" % (type(e).__name__, e), []
    finally:
        os.unlink(path)
    if rc != 0:
        tail = [l for l in err.strip().splitlines() if l.strip()]
        return cid, "exit code %d: %s" % (rc, tail[-1][:200] if tail else ""), []
    try:
        return cid, "", read_stream(out, wanted)
    except Exception as e:
        return cid, "emitted stream unreadable: %s: %s" % (type(e).__name__, str(e)[:160]), []


def run_imports(cases, scratch, baselines):
    import multiprocessing as mp

    jobs = [(c["id"], c["arch"], c["mode"], c["text"], scratch, {e["form"]["mnem"].lower() for e in c["file"]},
             bool(c.get("fresh_interpreter"))) for c in cases]
    byid = {c["id"]: c for c in cases}
    with mp.get_context("fork").Pool(14) as pool:
        for cid, err, emitted in pool.imap_unordered(_import, jobs, chunksize=4):
            c = byid[cid]
            c["obs"] = {"err": err, "forms": project(c, emitted, baselines[c["arch"]]) if not err else []}
    return cases


def baseline(arch, scratch):
    """raw keys of the stream emitted for an empty benchmark file; computed in a fresh interpreter and in a
    forked one, which must agree (self-test of cli_forked)"""
    res = []
    for fresh in (True, False):
        cid, err, emitted = _import(("baseline-%s-%d" % (arch, fresh), arch, "ibench", "Using frequency 2.50GHz.\n", scratch, set(), fresh))
        if err:
            raise tlc.TLCError("baseline import into %s failed: %s" % (arch, err))
        res.append([k for _, k in emitted])
    if res[0] != res[1]:
        raise tlc.TLCError("forked CLI and fresh-interpreter CLI emit different models for %s" % arch)
    return res[0]


def model_index(arch):
    """(MNEMONIC, arity) pairs of the target model, read as plain YAML (harness knowledge of the input)"""
    import ruamel.yaml

    with open(os.path.join(env.REPO, "osaca", "data", arch + ".yml")) as f:
        d = ruamel.yaml.YAML(typ="safe").load(f)
    idx = set()
    for e in d.get("instruction_forms", []):
        names = e["name"] if isinstance(e["name"], list) else [e["name"]]
        for n in names:
            idx.add((str(n).upper(), len(e.get("operands") or [])))
    return idx


# ------------------------------------------------------------------ concrete forms
def concrete_forms(isa, index):
    """the three abstract forms of MC_BenchImport: A, B fresh mnemonics, C a mnemonic+arity the target has"""
    if isa == "x86":
        existing = "mov" if ("MOV", 2) in index else sorted(n for n, a in index if a == 2)[0].lower()
        return {"A": {"id": "A", "mnem": "vtestadd", "ops": [op("x"), op("x"), op("x")]},
                "B": {"id": "B", "mnem": "testld", "ops": [op("m", fb=True, fo=True, fi=True, fs=True), op("r")]},
                "C": {"id": "C", "mnem": existing, "ops": [op("m", fb=True, fo=True, fi=True), op("r")]}}
    existing = "fadd" if ("FADD", 3) in index else sorted(n for n, a in index if a == 3)[0].lower()
    return {"A": {"id": "A", "mnem": "ftestop", "ops": [op("v", "d"), op("v", "d"), op("v")]},
            "B": {"id": "B", "mnem": "ldtest", "ops": [op("d"), op("d"), op("m", fb=True, fo=True, fr=True)]},
            "C": {"id": "C", "mnem": existing, "ops": [op("v", "s"), op("v", "s"), op("v", "s")]}}


def concretise(rec, forms):
    file = []
    for e in rec["file"]:
        e = dict(e)
        e["form"] = dict(forms[e["form"]["id"]], mkey=forms[e["form"]["id"]]["mnem"].lower())
        file.append(e)
    return file


# ------------------------------------------------------------------ seeded random inputs (R3)
X86_CODES = ["r", "x", "y", "z", "i"]
A64_CODES = ["w", "x", "b", "h", "s", "d", "q", "i"]


def rand_opcode(isa, rnd):
    r = rnd.random()
    if r < 0.3:
        fb, fo, fi = rnd.random() < 0.85, rnd.random() < 0.5, rnd.random() < 0.5
        fs = fi and rnd.random() < 0.5
        fr = fp = False
        if isa == "aarch64":
            x = rnd.random()
            fr, fp = x < 0.2, 0.2 <= x < 0.4
        return op("m", fb=fb, fo=fo, fi=fi, fs=fs, fr=fr, fp=fp)
    if isa == "aarch64" and r < 0.55:
        return op("v", rnd.choice(["", "b", "h", "s", "d"]))
    return op(rnd.choice(X86_CODES if isa == "x86" else A64_CODES))


def rand_measure_tp(rnd):
    r = rnd.random()
    if r < 0.55:    # around a snapping point, clear of the open slivers
        n = rnd.randint(1, 12)
        f = rnd.choice([rnd.uniform(0.9, 0.9485), rnd.uniform(0.9530, 1.0490), rnd.uniform(0.9530, 1.0490), rnd.uniform(1.0530, 1.09), 1.0])
        return max(1, int(round(U * f / n)))
    if r < 0.7:     # next to an edge (possibly inside an open sliver)
        n = rnd.randint(1, 10)
        return max(1, int(round(U * rnd.choice([0.95, 1.05]) / n)) + rnd.randint(-300, 300))
    return rnd.choice([rnd.randint(1, 2 * U), rnd.randint(U, 30 * U), rnd.randint(1, 120000)])


def rand_measure_lt(rnd):
    r = rnd.random()
    if r > 0.94:
        # a latency measured as exactly 0 (an eliminated move) is the integer 0; a hair above 0 is within 5 % of nothing
        return rnd.choice([0, 0, 0, 1, 40000])
    if r < 0.6:
        n = rnd.choice([1, 1, 2, 3, 4, 5, 6, 8, 9, 10, 13, 20, 47, 120])
        f = rnd.choice([rnd.uniform(0.90, 0.9485), rnd.uniform(0.9530, 1.0490), rnd.uniform(0.9530, 1.0490), rnd.uniform(1.0530, 1.10), 1.0])
        return max(0, int(round(U * f * n)))
    if r < 0.75:
        n = rnd.randint(1, 12)
        return max(0, int(round(U * n * rnd.choice([0.95, 1.05]))) + rnd.randint(-3000, 3000))
    return rnd.choice([rnd.randint(0, 12 * U), rnd.randint(0, U), rnd.randint(0, 300 * U)])


FRESH = ["vnewop", "xfoo", "tinst", "qqadd", "Vmixed", "UPPERCASE", "zmul2x", "ld1new", "fmlaq", "st4x"]
WITH_TP = ["VCVTPD2PSX", "XTPOSE", "CVTPI2PSNEW"]      # upper-case mnemonics containing the letters TP / LT
WITH_LT = ["HLTNEW", "VPMULTISHIFTNEW"]


def rand_forms(isa, rnd, index, n):
    existing = sorted(index)
    forms, names = [], set()
    while len(forms) < n:
        r = rnd.random()
        arity = rnd.randint(1, 4)
        if r < 0.55:
            mn = rnd.choice(FRESH) + str(rnd.randint(0, 999))
        elif r < 0.75:
            mn, arity = rnd.choice(existing)
            mn = mn.lower() if rnd.random() < 0.7 else mn
            if arity == 0:
                continue
        elif r < 0.88:
            mn = rnd.choice(WITH_TP + WITH_LT)
        else:
            mn = rnd.choice(existing)[0].lower()      # existing mnemonic, arity possibly different
        f = {"id": "f%d" % len(forms), "mnem": mn, "mkey": mn.lower(), "ops": [rand_opcode(isa, rnd) for _ in range(arity)]}
        nm = form_name(f).lower()
        # two names that denote ONE form (a bare `v` is `vd` by the documented default) are two forms of the file but one
        # instruction form of the model: what "one entry per form" means for them is not stated, so they are not generated
        decoded = (mn.lower(), tuple((o["c"], o["sh"] or ("d" if o["c"] == "v" else "")) + tuple(bool(o.get(k)) for k in ("fb", "fo", "fi", "fs", "fr", "fp"))
                                     for o in f["ops"]))
        if "-" in mn or "_" in mn or ":" in mn or nm in names or decoded in names:
            continue
        names.add(nm)
        names.add(decoded)
        forms.append(f)
    return forms


def rand_case(cid, isa, arch, rnd, index):
    mode = rnd.choice(["ibench", "asmbench"])
    forms = rand_forms(isa, rnd, index, rnd.randint(1, 30))
    file = []
    if mode == "ibench":
        for f in forms:
            kinds = rnd.choice([["tp", "lt"], ["tp", "lt"], ["lt", "tp"], ["tp"], ["lt"]])
            for k in kinds:
                file.append({"t": k, "form": f, "m": rand_measure_tp(rnd) if k == "tp" else rand_measure_lt(rnd)})
        if rnd.random() < 0.5:     # ibench runs are not necessarily grouped by form
            rnd.shuffle(file)
        text = render_ibench(file, rnd)
    else:
        for f in forms:
            file.append({"t": "block", "form": f, "lt": rand_measure_lt(rnd), "tp": rand_measure_tp(rnd)})
        if rnd.random() < 0.6:     # seeded corruption of the block structure
            i = rnd.randrange(len(file))
            file[i] = {"t": "bad", "form": file[i]["form"], "why": rnd.choice(["noblank", "extra", "short"])}
        text = render_asmbench(file, rnd)
    return {"id": cid, "isa": isa, "arch": arch, "mode": mode, "file": file, "text": text, "origin": "random"}


# ------------------------------------------------------------------ verdicts
def form_class(case, form, indexes):
    cls = []
    key = (form["mnem"].upper(), len(form["ops"]))
    others = {(e["form"]["mnem"].upper(), len(e["form"]["ops"])) for e in case["file"] if e["form"]["id"] != form["id"]}
    if case["isa"] == "x86" and key in indexes[case["arch"]]:
        cls.append("mnemonic-and-arity-in-target-model")
    elif case["isa"] == "x86" and key in others:
        cls.append("mnemonic-and-arity-shared-with-another-imported-form")
    else:
        cls.append("no-entry-with-mnemonic-and-arity")
    if case["mode"] == "ibench" and "TP" in form_name(form):
        cls.append("name-contains-TP")
    return "+".join(cls)


def exception_class(case):
    if case["mode"] == "asmbench" and case["file"] and case["file"][-1]["t"] == "bad" and case["file"][-1]["why"] in ("noblank", "short"):
        bad = [i for i, e in enumerate(case["file"]) if e["t"] == "bad"]
        if bad[0] == len(case["file"]) - 1:
            return "truncated-last-block"
    return "other"


def validate(run, cases, indexes, label):
    slim = [{"id": c["id"], "isa": c["isa"], "mode": c["mode"], "file": c["file"], "obs": c["obs"]} for c in cases]
    rejects, r = tlc.batch_validate("Trace_BenchImport", "Trace_BenchImport", slim, tag="c20", timeout=1200)
    run.add_mc(r, label)
    run.add_traces(len(cases))
    byid = {c["id"]: c for c in cases}
    unknown = []
    for cid, clause, rest in rejects:
        c = byid[cid]
        fid, detail = (rest + ["", ""])[:2]
        keep = {k: c[k] for k in ("id", "isa", "arch", "mode", "file", "text", "origin", "obs")}
        if clause == "exception":
            sig = "C20:exception:%s:%s" % (c["mode"], exception_class(c))
            if run.fail(sig, "osaca --arch %s --import %s on %s (%d entries): %s" % (c["arch"], c["mode"], c["id"], len(c["file"]), c["obs"]["err"]), keep) != "known":
                unknown.append((cid, clause))
            continue
        form = [e["form"] for e in c["file"] if e["form"]["id"] == fid][0]
        sig = "C20:%s:%s:%s:%s" % (c["mode"], c["isa"], clause, form_class(c, form, indexes))
        obs = [f["entries"] for f in c["obs"]["forms"] if f["id"] == fid]
        what = "osaca --arch %s --import %s, form %s: clause %s fails; emitted entries with this mnemonic: %s; measurements/allowed outcomes %s" % (
            c["arch"], c["mode"], form_name(form), clause,
            json.dumps([e for e in (obs[0] if obs else []) if e["new"]][:3]) + (" (+%d pre-existing)" % sum(1 for e in obs[0] if not e["new"]) if obs and obs[0] else ""),
            detail)
        keep["form"] = fid
        if run.fail(sig, what, keep) != "known":
            unknown.append((cid, clause, fid))
    return unknown


def emit(run, cfg):
    out = os.path.join(tlc.WORK, "c20-%s-%d.ndjson" % (cfg, os.getpid()))
    if os.path.exists(out):
        os.unlink(out)
    try:
        r = tlc.run_tlc("MC_BenchImport", "MC_BenchImport_" + cfg, env={"OUTFILE": out}, workers=8, timeout=900, coverage=True)
        recs = tlc.read_emitted(out)
    finally:
        if os.path.exists(out):
            os.unlink(out)
    run.add_mc(r, "MC_BenchImport_" + cfg)
    # no action of the model may be vacuous (HARNESS_GUIDE R1)
    from harness.parsers_common import _cov_actions

    acts = _cov_actions(r.raw)
    need = {"grid": ["IbenchTP", "IbenchLT", "Dump"], "ibench": ["IbenchTP", "IbenchLT", "Dump"],
            "asmbench": ["AsmbenchBlock", "Malformed", "Ignored", "Dump"]}[cfg]
    for a in need:
        if acts.get(a, 0) == 0:
            raise tlc.TLCError("MC_BenchImport_%s: action %s never taken (vacuous model)" % (cfg, a))
    run.note("actions_covered_" + cfg, {a: acts[a] for a in need})
    seen, rows = set(), []
    for rec in recs:
        k = json.dumps(rec["file"], sort_keys=True)
        if k not in seen:
            seen.add(k)
            rows.append(rec)
    if len(rows) != acts.get("Dump", -1):
        raise tlc.TLCError("MC_BenchImport_%s: %d files emitted for %d dumped states" % (cfg, len(rows), acts.get("Dump", -1)))
    rows.sort(key=lambda x: json.dumps(x["file"], sort_keys=True))
    return rows


def level_b_divergence(run, c):
    """the Level-B prediction (db of MC_BenchImport) vs. the observation: evidence only"""
    if c["obs"]["err"] or "db" not in c:
        return
    for f in c["obs"]["forms"]:
        new = [e for e in f["entries"] if e["new"]]
        pred = c["db"].get(f["id"]) if isinstance(c["db"], dict) else None
        if pred is None or len(new) != 1:
            continue
        if abs(new[0]["tp"] - pred["tp"]) > 10 or new[0]["lt"] != pred["lt"]:
            run.divergence("level-B-snapping", {"id": c["id"], "form": f["id"], "predicted": pred,
                                                "observed": {"tp": new[0]["tp"], "lt": new[0]["lt"]}})


def main(tier, seed):
    run = Run("C20", tier, seed)
    quick = tier == "quick"
    rnd = random.Random(seed * 104729 + 20)
    run.rule = ("a case = one benchmark file imported through the real CLI and decided by TLC; files: the single-entry "
                "measurement grid and (a seeded sample of) all files of <= 3/4 entries emitted by TLC, on x86 (zen1) and "
                "AArch64 (n1), plus seeded random files of 1-30 forms over all documented operand codes; non-trivial = "
                "distinct (mode, isa, entry sequence) with a TP and an LT line of one form to merge, a value emitted as "
                "missing, or a malformed block")
    archs = ["zen1", "n1"] + ([] if quick else ["tx2"])
    env.warm_models(archs)
    indexes = {a: model_index(a) for a in ["zen1", "n1", "tx2"]}
    scratch = env.scratch("c20-%d" % os.getpid())
    try:
        baselines = {a: baseline(a, scratch) for a in archs}
        cases = []

        def add_from(rows, cfg, archlist, pick=None):
            for i, rec in enumerate(rows):
                if pick is not None and i not in pick:
                    continue
                for arch in archlist(i):
                    isa = "x86" if arch == "zen1" else "aarch64"
                    file = concretise(rec, concrete_forms(isa, indexes[arch]))
                    text = render_ibench(file, rnd) if rec["mode"] == "ibench" else render_asmbench(file, rnd)
                    cases.append({"id": "%s/%d/%s" % (cfg, i, arch), "isa": isa, "arch": arch, "mode": rec["mode"], "file": file,
                                  "text": text, "origin": "tlc:" + cfg, "db": rec["db"],
                                  "fresh_interpreter": cfg == "grid" and arch == "zen1"})

        # ---- R1 + R2: measurement grid (every grid point on both ISAs)
        add_from(emit(run, "grid"), "grid", lambda i: ["zen1", "n1"] if (not quick or i % 5 == 0) else ["zen1"])
        # ---- R1 + R2: file structure
        for mode, n_quick, n_thorough in (("ibench", 80, 1200), ("asmbench", 110, 1500)):
            rows = emit(run, mode)
            if not quick:
                run.add_mc(tlc.run_tlc("MC_BenchImport", "MC_BenchImport_%s4" % mode, env={"OUTFILE": "/dev/null"}, workers=16, timeout=900),
                           "MC_BenchImport_%s4 (exhaustive check only)" % mode)
            want = n_quick if quick else n_thorough
            short = [i for i, r in enumerate(rows) if len(r["file"]) <= 1]
            rest = [i for i in range(len(rows)) if i not in set(short)]
            rnd.shuffle(rest)
            pick = set(short + rest[:max(0, want - len(short))])
            run.note("replayed_of_emitted_" + mode, "%d of %d" % (len(pick), len(rows)))
            add_from(rows, mode, lambda i: [rnd.choice(["zen1", "zen1", "n1"])], pick)
        # ---- R3: seeded random files
        for i in range(40 if quick else 500):
            arch = rnd.choice(archs)
            cases.append(rand_case("rand/%d/%s" % (i, arch), "x86" if arch == "zen1" else "aarch64", arch, rnd, indexes[arch]))
        t_imp = time.time()
        run_imports(cases, scratch, baselines)
        run.note("wall_imports_s", round(time.time() - t_imp, 1))
    finally:
        shutil.rmtree(scratch, ignore_errors=True)
    validate(run, cases, indexes, "Trace_BenchImport")
    nforms = 0
    for c in cases:
        level_b_divergence(run, c)
        nforms += len({e["form"]["id"] for e in c["file"]})
        kinds_per_form = collections.defaultdict(set)
        for e in c["file"]:
            kinds_per_form[e["form"]["id"]].add(e["t"])
        merged = any({"tp", "lt"} <= k for k in kinds_per_form.values())
        missing = any(en["new"] and (en["tp"] == -1 or en["lt"] == -1) for f in c["obs"]["forms"] for en in f["entries"])
        if merged or missing or any(e["t"] == "bad" for e in c["file"]):
            run.mark(c["id"].split("/")[0] + ":" + c["isa"] + ":" + json.dumps(
                [(e["t"], e["form"]["id"], e.get("m"), e.get("tp"), e.get("lt"), e.get("why")) for e in c["file"]]))
    for c in (cases[3], cases[len(cases) // 2], cases[-1]):
        run.sample({"id": c["id"], "cli": "osaca --arch %s --import %s FILE" % (c["arch"], c["mode"]), "file_text": c["text"][:600],
                    "observed": c["obs"]["forms"][:2], "error": c["obs"]["err"]})
    run.note("imports_through_cli", len(cases))
    run.note("forms_imported", nforms)
    run.add_eval(nforms)
    run.exhaustive = False
    run.assume("file text is rendered from the abstract file by harness code (trusted); the emitted stream is parsed as plain YAML "
               "(ruamel safe load), entries 'new' = not present in the stream emitted for an empty benchmark file")
    run.assume("'within 5 %' is accepted relative to the snapped value or to the measurement; outcomes exactly on a window edge are open")
    run.assume("the mnemonic of an emitted entry is read from key 'mnemonic' or 'name'; operand decoding per README 'Benchmark import' "
               "('s' = any scale factor > 1)")
    return run.finish()


def replay(path):
    with open(path) as f:
        rec = json.load(f)
    c = rec["case"]
    print("replaying", rec["signature"])
    run = Run("C20", "replay", rec.get("seed", 0))
    env.warm_models([c["arch"]])
    indexes = {a: model_index(a) for a in ["zen1", "n1", "tx2"]}
    scratch = env.scratch("c20-replay-%d" % os.getpid())
    try:
        base = {c["arch"]: baseline(c["arch"], scratch)}
        c.pop("obs", None)
        run_imports([c], scratch, base)
    finally:
        shutil.rmtree(scratch, ignore_errors=True)
    print(c["text"])
    print("observed:", json.dumps(c["obs"])[:2000])
    rej = validate(run, [c], indexes, "replay")
    print("still failing" if rej else "no longer failing")
    return 1 if rej else 0
