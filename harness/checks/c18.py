"""C18  Analyses are independent of what was analysed before in the same process.

R1  TLC enumerates every call history of length <= 3 over the 8 request kinds of Session.tla
    (585 states) and checks ReportIsFunctionOfRequest and [][shared' = shared]; with the named
    deviations (in-place mutation of a model row by read-modify-write kernels + re-use of the
    loaded model object) switched on it produces the history-dependence counterexample.
R2  Every history emitted by that run is replayed through osaca.osaca.run inside ONE interpreter
    per history: the tree of histories is walked with os.fork(), so each node continues the very
    interpreter state of its prefix; the report of every call (io.StringIO) is compared with the
    report of a fresh `osaca` process for the same request (minus the timestamp line).
R3  Seeded random histories (length <= 12 in the thorough tier) run linearly in fresh
    interpreters, with fingerprints of the process-wide model data before/after every call as a
    diagnostic; all recorded histories are validated by Trace_Session."""
import concurrent.futures
import hashlib
import io
import json
import os
import pickle
import random
import shutil
import subprocess
import sys
import time

from harness import env, tlc
from harness.verdict import Run

WORKROOT = os.path.join(tlc.WORK, "cache-c18-%d" % os.getpid())

RMW_X86 = """# OSACA-BEGIN
.L1:
	addq	$1, (%rax)
	addq	$2, 8(%rax)
	addq	%rbx, 16(%rax,%rcx,8)
	vaddpd	(%rsi), %ymm0, %ymm1
	vmulpd	32(%rsi,%rcx,8), %ymm1, %ymm2
	vmovapd	%ymm2, (%rdi)
	subq	$1, %rdx
	jne	.L1
# OSACA-END
"""
RMW_A64 = """// OSACA-BEGIN
.L1:
	ldr	q0, [x1, x3]
	ldr	q1, [x2], 16
	fmla	v0.2d, v1.2d, v2.2d
	str	q0, [x1, x3]
	ldp	q3, q4, [x4, 32]
	fadd	v5.2d, v3.2d, v4.2d
	str	q5, [x5, 16]!
	ld1	{v6.2d}, [x7], #16
	st1	{v6.2d}, [x8], #16
	add	x3, x3, 16
	cmp	x3, x6
	bne	.L1
// OSACA-END
"""


LINES_X86 = "".join("\t%s\n" % l for l in (
    "vmovapd (%rsi), %ymm0", "vaddpd %ymm0, %ymm1, %ymm1", "addq $32, %rsi", "vmulpd %ymm1, %ymm2, %ymm3",
    "vmovapd %ymm3, (%rdi)", "addq $1, %rax", "imulq %rax, %rbx", "addq %rbx, %rcx", "subq $1, %rdx", "vaddpd %ymm3, %ymm4, %ymm4"))


def _long_a64(variant):
    """>= 50 lines (multi-process LCD search): one-instruction cycles plus a chain that differs per variant"""
    body = ["\tadd x%d, x%d, #1" % (i, i) for i in range(1, 27)] + ["\tfadd d%d, d%d, d%d" % (i, i, i) for i in range(0, 28)]
    if variant == "a":
        body += ["\tfmul d28, d29, d28", "\tfadd d29, d28, d29"]
    else:
        body = body[3:] + ["\tfmul d30, d28, d30", "\tfadd d28, d30, d29", "\tfadd d29, d28, d29", "\tadd x27, x27, x26",
                           "\tadd x28, x27, #1", "\tadd x26, x28, #2"]
    return "\n".join(body) + "\n"


ABSENT_X86 = "".join("\t%s\n" % l for l in (
    "vsqrtpd %ymm1, %ymm2", "vsubpd %ymm2, %ymm3, %ymm3", "mulpd %xmm4, %xmm5", "addpd %xmm5, %xmm6", "subq $1, %rdx"))


TREE_KINDS = 8      # kinds 1..8 are enumerated exhaustively (fork tree); 9.. occur in the linear histories


def requests(kdir):
    """The request kinds, in the order of Session!ReqTable."""
    ex = lambda *p: os.path.join(env.REPO, *p)  # noqa
    return [
        ("zen1-triad", ["--arch", "zen1", ex("examples", "triad", "triad.s.zen.gcc.s")]),
        ("zen4-daxpy", ["--arch", "zen4", ex("examples", "triad", "triad.s.csx.icc.s")]),   # same text as zen1-unknown under another model
        ("n1-composed-rmw", ["--arch", "n1", os.path.join(kdir, "rmw_a64.s")]),
        ("tx2-kernel", ["--arch", "tx2", ex("tests", "test_files", "kernel_aarch64.s")]),
        ("zen1-fixed", ["--arch", "zen1", "--fixed", ex("examples", "j2d", "j2d.s.zen.gcc.s")]),
        ("zen4-flagdeps", ["--arch", "zen4", "--consider-flag-deps", ex("tests", "test_files", "kernel_x86.s")]),
        ("zen1-unknown", ["--arch", "zen1", ex("examples", "triad", "triad.s.csx.icc.s")]),
        ("zen1-rmw", ["--arch", "zen1", os.path.join(kdir, "rmw_x86.s")]),
        # other entry points and option paths of osaca.osaca.run (linear histories only)
        ("zen1-dbcheck", ["--arch", "zen1", "--db-check", ex("tests", "test_files", "kernel_x86.s")]),
        ("zen1-import", ["--arch", "zen1", "--import", "ibench", ex("tests", "test_files", "ibench_import_x86.dat")]),
        ("zen1-lines-a", ["--arch", "zen1", "--lines", "1-3", os.path.join(kdir, "lines_x86.s")]),
        ("zen1-lines-b", ["--arch", "zen1", "--lines", "6-9", os.path.join(kdir, "lines_x86.s")]),
        ("tx2-long-a", ["--arch", "tx2", os.path.join(kdir, "long_a.s")]),
        ("tx2-long-b", ["--arch", "tx2", os.path.join(kdir, "long_b.s")]),
        # one kernel whose mnemonics zen1 does not list at all and zen4 does
        ("zen1-absent", ["--arch", "zen1", os.path.join(kdir, "absent_x86.s")]),
        ("zen4-absent", ["--arch", "zen4", os.path.join(kdir, "absent_x86.s")]),
    ]


def write_kernels(kdir):
    for name, text in (("rmw_x86.s", RMW_X86), ("rmw_a64.s", RMW_A64), ("lines_x86.s", LINES_X86),
                       ("long_a.s", _long_a64("a")), ("long_b.s", _long_a64("b")), ("absent_x86.s", ABSENT_X86)):
        with open(os.path.join(kdir, name), "w") as f:
            f.write(text)


def normalise(report):
    return "\n".join(l for l in report.splitlines() if not l.startswith("Timestamp:"))


def sha(text):
    return hashlib.sha1(text.encode()).hexdigest()[:16]


# ------------------------------------------------------------------------------- child side
def _analyze(argv):
    from osaca import osaca as oo

    parser = oo.create_parser()
    args = parser.parse_args(argv)
    oo.check_arguments(args, parser)
    buf = io.StringIO()
    try:
        oo.run(args, output_file=buf)
    finally:
        args.file.close()
    return buf.getvalue()


def tree_child():
    """Explore every history starting with cfg['first'] up to cfg['maxlen'] calls by forking."""
    cfg = json.loads(os.environ["C18_CHILD"])
    import warnings

    warnings.filterwarnings("ignore")
    reqs, refsha, outdir, maxlen = cfg["requests"], cfg["refsha"], cfg["outdir"], cfg["maxlen"]
    sys.stdout = sys.stderr

    def node(hist):
        """Runs in a process whose interpreter state is that after hist[:-1]; performs the last call."""
        r = hist[-1]
        try:
            text = normalise(_analyze(reqs[r - 1]))
            rec = {"h": hist, "sha": sha(text)}
            if rec["sha"] != refsha[r - 1]:
                rec["text"] = text
        except BaseException as ex:  # noqa
            import traceback

            rec = {"h": hist, "sha": "exception", "exc": type(ex).__name__, "text": traceback.format_exc()[-1200:]}
        with open(os.path.join(outdir, "h_" + "_".join(map(str, hist)) + ".json"), "w") as f:
            json.dump(rec, f)
        if len(hist) >= maxlen:
            return
        nxt = cfg.get("next") or list(range(1, TREE_KINDS + 1))
        parallel = len(hist) + 1 < maxlen  # inner levels fork in parallel, leaves one after another
        pids = []
        for r2 in nxt:
            pid = os.fork()
            if pid == 0:
                try:
                    node(hist + [r2])
                finally:
                    os._exit(0)
            if parallel:
                pids.append(pid)
            else:
                os.waitpid(pid, 0)
        for pid in pids:
            os.waitpid(pid, 0)

    node([cfg["first"]])
    os._exit(0)


def _fingerprints():
    from osaca.semantics.hw_model import MachineModel

    out = {}
    for path, data in MachineModel._runtime_cache.items():
        try:
            out[os.path.basename(str(path))] = hashlib.sha1(pickle.dumps(data)).hexdigest()[:12]
        except Exception as ex:  # noqa
            out[os.path.basename(str(path))] = "unpicklable:" + type(ex).__name__
    return out


def linear_child():
    """One interpreter, one history, fingerprints of the shared model data around every call."""
    cfg = json.loads(os.environ["C18_CHILD"])
    import warnings

    warnings.filterwarnings("ignore")
    real_stdout = os.fdopen(os.dup(1), "w")
    os.dup2(2, 1)
    sys.stdout = sys.stderr
    reqs = cfg["requests"]
    events = []
    for r in cfg["history"]:
        if r == 0:
            # Work: the process computes for longer than the LCD search limit of the analyses that follow
            # (default --lcd-timeout 10 s), in CPU time and therefore also in wall time
            t0, x = time.process_time(), 0
            while time.process_time() - t0 < cfg.get("burn", 10.6):
                x += sum(i * i for i in range(2000))
            events.append({"req": 0, "sha": None, "text": None, "before": {}, "after": {}, "cpu": time.process_time()})
            real_stdout.write("EVENT " + json.dumps(events[-1]) + "\n")
            real_stdout.flush()
            continue
        before = _fingerprints()
        try:
            text = normalise(_analyze(reqs[r - 1]))
            rec = {"req": r, "sha": sha(text), "text": text if cfg.get("keep_text") else None}
            if rec["sha"] != cfg["refsha"][r - 1]:
                rec["text"] = text
        except BaseException as ex:  # noqa
            import traceback

            rec = {"req": r, "sha": "exception", "exc": type(ex).__name__, "text": traceback.format_exc()[-1200:]}
        rec["before"] = before
        rec["after"] = _fingerprints()
        events.append(rec)
        real_stdout.write("EVENT " + json.dumps(rec) + "\n")   # one line per finished call: a call that never
        real_stdout.flush()                                     # returns is then known by its position
    real_stdout.write("END\n")
    real_stdout.flush()
    os._exit(0)


# ------------------------------------------------------------------------------- driver side
def _spawn(fn, cfg, home, timeout=900):
    e = env.child_env(home, {"C18_CHILD": json.dumps(cfg)})
    return subprocess.run([env.PY, "-B", "-c", "from harness.checks.c18 import %s as f; f()" % fn],
                          env=e, cwd="/", stdout=subprocess.PIPE, stderr=subprocess.PIPE, timeout=timeout)


LINEAR_DEADLINE = 420.0   # a history of <= 12 calls takes well under a minute; 10.6 s per Work step


def _run_linear(cfg, home, h):
    """One linear history in its own process group.  A call that does not return within the deadline is
    recorded as such (sha 'no-return'): the same request returns in a fresh process."""
    import signal

    e = env.child_env(home, {"C18_CHILD": json.dumps(cfg)})
    p = subprocess.Popen([env.PY, "-B", "-c", "from harness.checks.c18 import linear_child as f; f()"],
                         env=e, cwd="/", stdout=subprocess.PIPE, stderr=subprocess.PIPE, start_new_session=True)
    hung = False
    try:
        out, err = p.communicate(timeout=LINEAR_DEADLINE)
    except subprocess.TimeoutExpired:
        hung = True
        try:
            os.killpg(p.pid, signal.SIGKILL)
        except OSError:
            pass
        out, err = p.communicate()
    lines = out.decode("utf-8", "replace").splitlines()
    evs = [json.loads(l[6:]) for l in lines if l.startswith("EVENT ")]
    if "END" in lines:
        return evs
    if not hung:
        raise RuntimeError("linear child failed: %s" % err.decode("utf-8", "replace")[-1500:])
    if len(evs) < len(h):
        r = h[len(evs)]
        evs.append({"req": r, "sha": "no-return", "exc": "NoReturn", "before": {}, "after": {},
                    "text": "the call did not return within %d s (process group killed)" % LINEAR_DEADLINE})
    return evs


def fresh_refs(reqs, home):
    """Ref[req]: the report of a fresh `osaca` process (the CLI entry point itself)."""
    def one(rq):
        rc, out, err = env.run_cli(rq[1], home=home)
        return rc, normalise(out), err

    with concurrent.futures.ThreadPoolExecutor(max_workers=8) as ex:
        res = list(ex.map(one, reqs))
    # determinism of the reference itself: a second fresh process
    with concurrent.futures.ThreadPoolExecutor(max_workers=8) as ex:
        res2 = list(ex.map(one, reqs))
    return res, res2


def main(tier="quick", seed=0):
    run = Run("C18", tier, seed)
    shutil.rmtree(WORKROOT, ignore_errors=True)
    os.makedirs(WORKROOT)
    try:
        return _main(run, tier, seed)
    finally:
        shutil.rmtree(WORKROOT, ignore_errors=True)


def _main(run, tier, seed):
    quick = tier == "quick"
    t0 = time.time()
    run.rule = ("a case is one call history inside one interpreter (R2: every history of length <= 3 over 8 request "
                "kinds, taken from TLC's enumeration; R3: seeded random histories); non-trivial = a later call "
                "uses a machine model or ISA database that an earlier call of the same history already used")
    home = env.sandbox_home()
    env.warm_models(["zen1", "zen4", "n1", "tx2"], home)
    kdir = os.path.join(WORKROOT, "kernels")
    os.makedirs(kdir)
    write_kernels(kdir)
    reqs = requests(kdir)
    argvs = [r[1] for r in reqs]

    # ---- R1 + emitted histories
    out = os.path.join(WORKROOT, "hist.ndjson")
    r = tlc.run_tlc("MC_Session", "MC_Session_today", env={"OUTFILE": out}, workers=1, timeout=300, coverage=True)
    run.add_mc(r, "MC_Session_today")
    emitted = tlc.read_emitted(out)
    r2 = tlc.run_tlc("MC_Session", "MC_Session_fixedreuse", workers=1, timeout=300)
    run.add_mc(r2, "MC_Session_fixedreuse")
    r3 = tlc.run_tlc("MC_Session", "MC_Session_reused", workers=1, timeout=300, allow_violation=True)
    run.add_mc(r3, "MC_Session_reused")
    if "ReportIsFunctionOfRequest" not in r3.violated:
        raise tlc.TLCError("MC_Session_reused: expected the history-dependence counterexample")
    for cfg, expect in (("MC_Session_today14", None), ("MC_Session_reused14", "ReportIsFunctionOfRequest")):
        rr = tlc.run_tlc("MC_Session", cfg, workers=1, timeout=300, allow_violation=bool(expect))
        run.add_mc(rr, cfg)
        if expect and expect not in rr.violated:
            raise tlc.TLCError("%s: expected a history-dependence counterexample over the 14 request kinds" % cfg)
    r4 = tlc.run_tlc("MC_Session", "MC_Session_aged", workers=1, timeout=300, coverage=True)
    run.add_mc(r4, "MC_Session_aged")
    r5 = tlc.run_tlc("MC_Session", "MC_Session_procclock", workers=1, timeout=300, allow_violation=True)
    run.add_mc(r5, "MC_Session_procclock")
    if "ReportIsFunctionOfRequest" not in r5.violated:
        raise tlc.TLCError("MC_Session_procclock: expected the aged-process counterexample")
    if len(emitted) != 584:
        raise tlc.TLCError("expected 584 non-empty histories from MC_Session_today, got %d" % len(emitted))
    hists = sorted(tuple(e["h"]) for e in emitted)
    for e in emitted:
        if [x[0] for x in e["exp"]] != e["h"] or any(x[1] != 0 for x in e["exp"]):
            raise tlc.TLCError("emitted expectation is not Ref(request): %r" % e)

    # ---- references
    refs, refs2 = fresh_refs(reqs, home)
    for (name, argv), (rc, text, err), (rc2, text2, _) in zip(reqs, refs, refs2):
        if rc != 0 or not text.strip():
            run.fail("C18:exception:fresh-process:" + name, "fresh process failed: rc=%s %s" % (rc, err[-400:]),
                     {"request": name, "argv": argv})
        if text != text2:
            run.fail("C18:fresh-process-nondeterministic:" + name,
                     "two fresh processes give different reports for %s" % name, {"request": name, "argv": argv})
    reftext = [t for _, t, _ in refs]
    refsha = [sha(t) for t in reftext]
    run.note("setup_wall_s", round(time.time() - t0, 1))

    # ---- R2: the fork tree
    outdir = os.path.join(WORKROOT, "tree")
    os.makedirs(outdir)
    maxlen = 3
    firsts = list(range(1, 9))
    nxt = None
    if quick:
        # all histories of length <= 2 (72) and, below a seeded choice of second-level nodes, all
        # of length 3: done by restricting nothing but running the depth-3 level only where time allows
        pass
    cfgs = [{"requests": argvs, "refsha": refsha, "outdir": outdir, "maxlen": maxlen, "first": f, "next": nxt}
            for f in firsts]
    with concurrent.futures.ThreadPoolExecutor(max_workers=8) as ex:
        procs = list(ex.map(lambda c: _spawn("tree_child", c, home), cfgs))
    for c, p in zip(cfgs, procs):
        if p.returncode != 0:
            raise RuntimeError("tree child %d failed: %s" % (c["first"], p.stderr.decode("utf-8", "replace")[-1500:]))
    nodes = {}
    for fn in os.listdir(outdir):
        with open(os.path.join(outdir, fn)) as f:
            rec = json.load(f)
        nodes[tuple(rec["h"])] = rec
    missing = [h for h in hists if h not in nodes]
    if missing:
        raise RuntimeError("%d histories were not replayed, e.g. %r" % (len(missing), missing[:3]))
    run.note("tree_wall_s", round(time.time() - t0, 1))

    deviants = {}  # req -> list of distinct deviating shas

    def rep_of(req, s):
        if s == refsha[req - 1]:
            return 0
        lst = deviants.setdefault(req, [])
        if s not in lst:
            lst.append(s)
        return lst.index(s) + 1

    cases, meta = [], {}
    for i, h in enumerate(hists):
        ev = [{"req": h[k], "rep": rep_of(h[k], nodes[h[:k + 1]]["sha"]), "ch": []} for k in range(len(h))]
        cid = "t%d" % i
        cases.append({"id": cid, "events": ev})
        meta[cid] = {"hist": list(h), "kind": "tree", "recs": [nodes[h[:k + 1]] for k in range(len(h))]}
        if _shares(h):
            run.mark("tree:" + "_".join(map(str, h)))

    # ---- R3: seeded linear histories with fingerprints
    rnd = random.Random(seed)
    nlin, maxl = (8, 8) if quick else (160, 12)
    lin = []
    for k in range(nlin):
        n = rnd.randint(4, maxl)
        h = [rnd.randint(1, len(reqs)) for _ in range(n)]
        if k % 3 == 0:
            # bias: repetitions of requests that share a model
            pool = rnd.choice([[1, 5, 7, 8], [2, 6], [3, 4], [8, 8, 1], [3, 3, 4]])
            h = [rnd.choice(pool) for _ in range(n)]
        lin.append(h)
    # aged processes: Work (more CPU and wall time than the search limit) before and between analyses
    aged = [[0, 1, 3, 8, 4], [0, 6, 2, 5, 7]] if quick else [[0] + rnd.sample(range(1, 9), 8) for _ in range(6)] + [[1, 0, 1], [3, 0, 4, 3]]
    lin += aged
    # other entry points (database check, benchmark import), --lines selections and kernels that take the
    # multi-process LCD search, before and after one another and mixed with plain analyses
    lin += [[10, 9], [9, 10, 9, 1], [11, 12, 11], [12, 11, 7], [13, 14, 13], [14, 13, 4], [10, 5, 9, 8],
            [15, 16], [16, 15, 16, 2], [3, 15, 4, 16]]
    if not quick:
        lin += [[rnd.choice([9, 10, 11, 12, 13, 14, 15, 16]) for _ in range(rnd.randint(3, 7))] for _ in range(24)]
    single = [[r] for r in range(1, len(reqs) + 1)]  # single-call processes: reference fingerprints

    def run_lin(h):
        return _run_linear({"requests": argvs, "refsha": refsha, "history": h}, home, h)

    with concurrent.futures.ThreadPoolExecutor(max_workers=12) as ex:
        lres = list(ex.map(run_lin, single + lin))
    fpref = {}
    for h, evs in zip(single, lres[:len(single)]):
        fpref[h[0]] = evs[0]["after"]
    for i, (h, evs) in enumerate(zip(single + lin, lres)):
        ev = []
        for e in evs:
            if e["req"] == 0:
                ev.append({"req": 0, "rep": 0, "ch": []})
                continue
            touched = set(fpref[e["req"]])
            ch = sorted(k for k in e["after"] if k not in touched and k in e["before"] and e["before"][k] != e["after"][k])
            ch += sorted("state-of-" + k for k in touched if e["after"].get(k) != fpref[e["req"]].get(k))
            ev.append({"req": e["req"], "rep": rep_of(e["req"], e["sha"]), "ch": ch})
        cid = "l%d" % i
        cases.append({"id": cid, "events": ev})
        meta[cid] = {"hist": h, "kind": "linear", "recs": evs}
        if _shares(h):
            run.mark("lin:" + "_".join(map(str, h)))
        if 0 in h:
            run.mark("aged:" + "_".join(map(str, h)))
    run.note("linear_wall_s", round(time.time() - t0, 1))

    # self-test of the binding: a report id that is not the reference, and an unknown request kind
    st = [{"id": "selftest-corrupt", "events": [dict(e) for e in cases[-1]["events"]]},
          {"id": "selftest-unknown", "events": [{"req": 99, "rep": 0, "ch": []}]}]
    st[0]["events"][-1]["rep"] = 7
    rejects, rv = tlc.batch_validate("Trace_Session", "Trace_Session", cases + st, tag="c18")
    run.add_mc(rv, "Trace_Session")
    run.add_traces(len(cases))
    run.add_eval(sum(len(c["events"]) for c in cases))
    from harness import cache_common as cc

    for v in cc.printed_tuples(rv.raw, "DIVERGE"):
        if v[1] not in meta:      # the corrupted copy made for the binding self-test
            continue
        m = meta[v[1]]
        run.divergence("shared-model-data-changed", {"history": [rname(reqs, x) for x in m["hist"]],
                                                     "call": v[3], "objects": v[4]})
    failing = []
    got = {v[1] for v in cc.printed_tuples(rv.raw, "REJECT")}
    for c in st:
        if c["id"] not in got:
            raise tlc.TLCError("binding self-test: %s was not rejected by Trace_Session" % c["id"])
    run.note("binding_selftest", "%d corrupted traces rejected" % len(st))
    for v in cc.printed_tuples(rv.raw, "REJECT"):
        if v[1].startswith("selftest"):
            continue
        cid, clause, at, req, rep = v[1], v[2], v[3], v[4], v[5]
        failing.append((len(meta[cid]["hist"]), at, cid, req))
    # report minimal witnesses first (shortest history, earliest deviating call)
    seen = set()
    for _, at, cid, req in sorted(failing):
        m = meta[cid]
        names = [rname(reqs, x) for x in m["hist"]]
        rec = m["recs"][at - 1]
        if rec["sha"] in ("exception", "no-return"):
            sig = "C18:%s:%s:%s" % (rec["sha"], names[at - 1], rec.get("exc"))
        else:
            sig = "C18:history-dependent:%s:after:%s" % (names[at - 1], "+".join(sorted(set(names[:at - 1]))) or "nothing")
        what = "report of %s differs from the fresh-process report after %s in the same interpreter" % (
            names[at - 1], " -> ".join(names[:at - 1]) or "(nothing)")
        if sig in seen and len(seen) > 12:
            continue
        seen.add(sig)
        import difflib

        diff = list(difflib.unified_diff(reftext[req - 1].splitlines(), (rec.get("text") or "").splitlines(),
                                         "fresh-process", "in-process", lineterm="", n=0))[:30]
        run.fail(sig, what, {"history": m["hist"], "names": names, "call": at, "kind": m["kind"], "diff": diff,
                             "argvs": [argvs[x - 1] if x else ["<work: 10.6 s of CPU>"] for x in m["hist"]]})
    run.sample({"history": [reqs[x - 1][0] for x in hists[100]], "reports_equal_fresh_process": True})
    run.sample({"history": [rname(reqs, x) for x in lin[0]], "kind": "linear"})
    run.note("requests", [{"name": n, "argv": a} for n, a in reqs])
    run.note("tree_histories", len(hists))
    run.note("linear_histories", len(lin) + len(single))
    run.note("analyses_in_tree", len(nodes))
    run.exhaustive = False
    run.assume("a forked child continues the interpreter state of its parent, so the history tree is replayed with "
               "one analysis per node; histories in R3 run linearly without fork")
    run.assume("fresh-process reference = stdout of the CLI entry point in a new interpreter, timestamp line removed; "
               "in-process report = osaca.osaca.run(args, output_file=io.StringIO())")
    run.assume("TLC acts as enumerator of the 585 histories and evaluator of Ref(request) (DESIGN section 8); the "
               "fingerprints of MachineModel._runtime_cache entries are diagnostics only")
    return run.finish()


def rname(reqs, x):
    return reqs[x - 1][0] if x else "work-10.6s-cpu"


def _shares(h):
    h = [x for x in h if x]
    arch = {1: "zen1", 2: "zen4", 3: "n1", 4: "tx2", 5: "zen1", 6: "zen4", 7: "zen1", 8: "zen1",
            9: "zen1", 10: "zen1", 11: "zen1", 12: "zen1", 13: "tx2", 14: "tx2", 15: "zen1", 16: "zen4"}
    isa = {1: "x", 2: "x", 3: "a", 4: "a", 5: "x", 6: "x", 7: "x", 8: "x", 9: "x", 10: "x", 11: "x", 12: "x", 13: "a", 14: "a", 15: "x", 16: "x"}
    for i in range(1, len(h)):
        if any(arch[h[j]] == arch[h[i]] or isa[h[j]] == isa[h[i]] for j in range(i)):
            return True
    return False


def replay(path):
    with open(path) as f:
        rec = json.load(f)
    c = rec["case"]
    print("replaying", rec["signature"])
    shutil.rmtree(WORKROOT, ignore_errors=True)
    kdir = os.path.join(WORKROOT, "kernels")
    os.makedirs(kdir)
    try:
        write_kernels(kdir)
        reqs = requests(kdir)
        argvs = [r[1] for r in reqs]
        home = env.sandbox_home()
        env.warm_models(["zen1", "zen4", "n1", "tx2"], home)
        refs, _ = fresh_refs(reqs, home)
        refsha = [sha(t) for _, t, _ in refs]
        evs = _run_linear({"requests": argvs, "refsha": refsha, "history": c["history"]}, home, c["history"])
        bad = 0
        for e in evs:
            if e["req"] == 0:
                print("  %-18s %.1f s of CPU used by the process" % ("(work)", e.get("cpu", 0)))
                continue
            ok = e["sha"] == refsha[e["req"] - 1]
            print("  %-18s %s" % (reqs[e["req"] - 1][0], "equals fresh process" if ok else "DIFFERS"))
            bad += not ok
        print("reproduced" if bad else "not reproduced")
        return 1 if bad else 0
    finally:
        shutil.rmtree(WORKROOT, ignore_errors=True)
