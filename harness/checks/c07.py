"""C07  Instruction-form lookup is sound and complete for operand kinds.

R1  TLC checks the entry-scan machine of specs/MC_Lookup.tla (TryEntry / DropSuffix / GiveUp)
    against the declarative FindAllowed of specs/Lookup.tla (FoundIffSomeMatch, FirstMatchWins,
    NeverWrongKind, ResultAllowed) on (a) the COMPLETE entry-kind x written-kind table of each
    ISA and (b) all entry lists up to length 2 (thorough: 3) over an alphabet with two mnemonics
    related by the suffix fall-back, duplicates, shadowing, wildcard-before-specific and
    different arities x queries in lower / upper / mixed case.
R2  Every initial state is emitted by TLC together with the set of results the specification
    allows.  The harness renders the entries to synthetic YAML models and the queries to
    assembly text, has the REAL parser produce the operands and looks them up through
    MachineModel.get_instruction and through ArchSemantics.assign_tp_lt (which entry was
    applied, flags tp_unknown/lt_unknown); the result must be in the emitted set.
R3  Recorded lookups far outside the bounded space are validated by TLC (Trace_Lookup):
    seeded random synthetic models (all operand kinds, wildcards, duplicates, shadowing,
    multi-name entries, names in both cases) with matching and near-miss instructions; and for
    every entry of shipped models (quick: one per distinct operand signature of the quick
    model subset; thorough: all entries of all models) the instruction synthesised from the
    entry's own pattern plus near-miss mutants, entries taken in FILE order."""
import concurrent.futures
import copy
import json
import os
import random
import time

from harness import env, synth, tlc
from harness import lookup_common as lc
from harness.verdict import Run

PID = "C07"
UNK = ("tp_unknown", "lt_unknown")
_SCRATCH = []


def _cleanup():
    import shutil
    while _SCRATCH:
        shutil.rmtree(_SCRATCH.pop(), ignore_errors=True)


# ------------------------------------------------------------------------------------ TLC (R1)
def _run_cfg(cfg, coverage=False):
    out = os.path.join(tlc.WORK, "c07-%s-%d.ndjson" % (cfg, os.getpid()))
    hdr = out + ".hdr"
    for p in (out, hdr):
        if os.path.exists(p):
            os.unlink(p)
    r = tlc.run_tlc("MC_Lookup", cfg, env={"OUTFILE": out, "HDRFILE": hdr}, workers=4, timeout=1500,
                    coverage=coverage)
    if coverage:
        vac = [a for a in ("TryEntry", "DropSuffix", "GiveUp") if r.coverage.get(a, (0, 0))[0] == 0]
        if vac:
            raise tlc.TLCError("%s: actions never taken: %s" % (cfg, vac))
    recs = tlc.read_emitted(out)
    h = tlc.read_emitted(hdr)
    for p in (out, hdr):
        if os.path.exists(p):
            os.unlink(p)
    if len(h) != 1:
        raise tlc.TLCError("%s: expected one header record, got %d" % (cfg, len(h)))
    return cfg, r, h[0]["hdr"], recs


def _tlc_all(run, tier):
    cfgs = []
    for isa in ("x86", "aarch64"):
        cfgs.append((isa, "table", "MC_Lookup_%s_table" % isa, 1))
        if tier == "thorough":
            cfgs.append((isa, "lists", "MC_Lookup_%s_lists3" % isa, 3))
            cfgs.append((isa, "cov", "MC_Lookup_%s_lists" % isa, 2))   # with -coverage: no action is vacuous
        else:
            cfgs.append((isa, "lists", "MC_Lookup_%s_lists" % isa, 2))
    out = {}
    with concurrent.futures.ThreadPoolExecutor(len(cfgs)) as ex:
        futs = {ex.submit(_run_cfg, c[2], c[1] == "cov"): c for c in cfgs}
        for f in futs:
            isa, mode, cfg, maxlen = futs[f]
            _, r, hdr, recs = f.result()
            run.add_mc(r, cfg + (" (-coverage)" if mode == "cov" else ""))
            if mode == "cov":
                continue
            a = len(hdr["entries"])
            n_lists = a if mode == "table" else sum(a ** k for k in range(1, maxlen + 1))
            expect = n_lists * len(hdr["qnames"]) * len(hdr["qops"])
            if len(recs) != expect:
                raise tlc.TLCError("%s: %d records emitted, %d initial states expected" % (cfg, len(recs), expect))
            out[(isa, mode)] = (hdr, recs)
    return out


# ------------------------------------------------------------------------------------ drivers
def _load_latency(isa):
    if isa == "x86":
        return {k: 100.0 for k in ("gpr", "mm", "xmm", "ymm", "zmm")}
    return {k: 100.0 for k in "wxbhsdqvzp*"}


def _build(isa, forms, tag, mirror_isa=False):
    d = env.scratch("c07-%s-%d" % (tag, os.getpid()))
    _SCRATCH.append(d)
    a = synth.write_arch_model(os.path.join(d, "model.yml"), isa, ["0", "1", "2", "3"], forms,
                               load_default=[[1, "2"]], store_default=[[1, "3"]],
                               load_latency=_load_latency(isa))
    iforms = []
    if mirror_isa:
        for f in forms:
            g = copy.deepcopy(f)
            for o in g["operands"]:
                o["source"], o["destination"] = True, False
            iforms.append(g)
    i = synth.write_isa_db(os.path.join(d, "isa.yml"), isa, iforms)
    return synth.load(a, i)


def _form(name, ops_yaml, lat):
    return {"name": name, "operands": ops_yaml, "throughput": 1.0, "latency": float(lat),
            "port_pressure": [[1, "0"]]}


class CompositionError(Exception):
    def __init__(self, own, reg, exc):
        Exception.__init__(self, "%s: %s" % (type(exc).__name__, exc))
        self.own, self.reg, self.exc = own, reg, exc


class Spy:
    """Observation point of C07: MachineModel.get_instruction (arguments and result)."""

    def __init__(self, mm):
        self.calls = []
        self.mm = mm
        self._orig = mm.get_instruction
        mm.get_instruction = self

    def remove(self):
        del self.mm.get_instruction

    def __call__(self, name, operands):
        r = self._orig(name, operands)
        wild = any(isinstance(o, dict) for o in (operands or []))
        self.calls.append((name, wild, r))
        return r

    def take(self):
        c, self.calls = self.calls, []
        return c


def _assign(sem, spy, form):
    """assign_src_dst + assign_tp_lt on a parsed line.  Returns (own, reg, unknown):
    the entry applied for the instruction as written, else the entry of its register form."""
    spy.take()
    exc = None
    try:
        sem.assign_src_dst(form)
        sem.assign_tp_lt(form)
    except Exception as ex:  # noqa
        exc = ex
    calls = spy.take()
    own = next((r for _, wild, r in calls if not wild and r is not None), None)
    reg = next((r for _, wild, r in calls if wild and r is not None), None) if own is None else None
    if exc is not None:
        if own is not None or reg is not None:
            # the lookups were completed (own entry, or no own entry and the register form found); the
            # exception comes from applying the entry's data (malformed port list: C15) or from composing
            # the memory form (load latency / multiplier of that register type: C08)
            raise CompositionError(own, reg, exc)
        raise exc
    unknown = all(f in form.flags for f in UNK)
    return own, reg, unknown


def _has_mem(kinds):
    return any(k["k"] == "mem" for k in kinds)


# ------------------------------------------------------------------------------------ R2: table
def _r2_table(run, isa, hdr, recs, tier, rnd):
    ents = hdr["entries"]
    qops = hdr["qops"]
    pad = lc.K("reg", c="x") if isa == "aarch64" else None
    forms = []
    for j, e in enumerate(ents, 1):
        y = lc.entry_yaml(isa, e["ops"][0])
        if pad is None:
            forms.append(_form("t%d" % j, [y], j))
        else:
            # AArch64: condition codes only parse after the first operand, prefetch operations only
            # as first operand -> every entry gets a register operand that always matches
            forms.append(_form("tr%d" % j, [lc.entry_yaml(isa, pad), y], j))
            forms.append(_form("tl%d" % j, [y, lc.entry_yaml(isa, pad)], j))
    mm, sem, parser = _build(isa, forms, "table-" + isa)
    spy = Spy(mm)
    nvar = 2 if tier == "quick" else 4
    written = {}
    for qo, ops in enumerate(qops, 1):
        w = ops[0]
        left = pad is not None and w["k"] == "prf"
        texts = []
        for v in range(nvar):
            t = lc.render(isa, w, lc.FIRST if v == 0 else rnd, first=(pad is None or left))
            if t not in texts:
                texts.append(t)
        parsed = []
        for t in texts:
            line = ("tq %s" % t) if pad is None else (("tq %s, x7" % t) if left else ("tq x7, %s" % t))
            parsed.append((line, parser.parse_line(line).operands))
        written[qo] = (left, parsed)
    n_calls = 0
    n_assign = 0
    protos = {}
    assign_budget = {"x86": 10 ** 9, "aarch64": 12000 if tier == "quick" else 10 ** 9}[isa]
    interesting = [r for r in recs if r["v"] != "N"]
    boring = [r for r in recs if r["v"] == "N"]
    rnd.shuffle(boring)
    assign_set = set((r["el"][0], r["qo"]) for r in interesting + boring[:max(0, assign_budget - len(interesting))])
    for r in recs:
        j, qo = r["el"][0], r["qo"]
        e, w = ents[j - 1]["ops"][0], qops[qo - 1][0]
        left, parsed = written[qo]
        name = ("t%d" % j) if pad is None else (("tl%d" % j) if left else ("tr%d" % j))
        for line, ops in parsed:
            try:
                got = mm.get_instruction(name, ops)
            except Exception as ex:  # noqa
                run.fail("C07:%s:exception:get_instruction:e=%s:w=%s" % (isa, lc.opsstr([e]), lc.opsstr([w])),
                         "%s: get_instruction(%r, operands of %r) raised %s: %s" % (isa, name, line, type(ex).__name__, ex),
                         {"stage": "r2-table", "isa": isa, "entry": e, "written": w, "line": line})
                continue
            spy.take()
            n_calls += 1
            served = 0 if got is None else 1
            if served not in r["scan1"]:
                sig = "C07:%s:r2:table:get_instruction:allowed=%s:served=%d:e=%s:w=%s" % (
                    isa, "".join(map(str, sorted(r["scan1"]))), served, lc.opsstr([e]), lc.opsstr([w]))
                run.fail(sig, "%s entry operand %s vs written %r (%s): specification says %s, get_instruction %s" % (
                    isa, lc.kstr(e), line, lc.kstr(w), r["v"], "matched" if served else "did not match"),
                    {"stage": "r2-table", "isa": isa, "entry": e, "written": w, "line": line, "v": r["v"]})
        if (j, qo) in assign_set:
            line = parsed[0][0].replace("tq ", name + " ", 1)
            n_assign += 1
            if n_assign % 13 == 0:
                form = parser.parse_line(line)
            else:
                if qo not in protos:
                    protos[qo] = parser.parse_line(parsed[0][0])
                form = copy.deepcopy(protos[qo])
                form.mnemonic = name
                form.line = line
            try:
                own, reg, unknown = _assign(sem, spy, form)
            except Exception as ex:  # noqa
                run.fail("C07:%s:exception:assign_tp_lt:e=%s:w=%s" % (isa, lc.opsstr([e]), lc.opsstr([w])),
                         "%s: %r raised %s: %s" % (isa, line, type(ex).__name__, ex),
                         {"stage": "r2-table", "isa": isa, "entry": e, "written": w, "line": line})
                continue
            n_calls += 1
            served = 0 if own is None else 1
            okay = served in r["allowed"]
            if okay and served == 0:
                regserved = 0 if reg is None else 1
                okay = (regserved in r["rwa"] if w["k"] == "mem" else reg is None) and (unknown == (reg is None))
            elif okay:
                okay = not unknown
            if not okay:
                sig = "C07:%s:r2:table:assign_tp_lt:allowed=%s:served=%d:e=%s:w=%s" % (
                    isa, "".join(map(str, sorted(r["allowed"]))), served, lc.opsstr([e]), lc.opsstr([w]))
                run.fail(sig, "%s %r: entry %s, specification %s; assign_tp_lt own=%s regform=%s unknown=%s" % (
                    isa, line, lc.kstr(e), r["v"], served, reg is not None, unknown),
                    {"stage": "r2-table", "isa": isa, "entry": e, "written": w, "line": line, "v": r["v"]})
        if r["v"] == "Y":
            run.mark("table|%s|%d|%d" % (isa, j, qo))
    run.add_traces(len(recs))
    run.add_eval(n_calls)
    run.sample({"stage": "r2-table", "isa": isa, "entry": lc.kstr(ents[0]["ops"][0]),
                "written": written[1][1][0][0], "allowed": recs[0]["allowed"]})
    del mm.get_instruction
    return n_calls


# ------------------------------------------------------------------------------------ R2: lists
def _case_style(chars):
    s = "".join(chars)
    return "upper" if s.isupper() else "other"


def _r2_lists(run, isa, hdr, recs, tier, rnd):
    alpha = hdr["entries"]
    qnames, qops = hdr["qnames"], hdr["qops"]
    lists = {}
    for r in recs:
        lists.setdefault(tuple(r["el"]), len(lists) + 1)
    forms = []
    by_lat = {}
    for el, L in sorted(lists.items(), key=lambda x: x[1]):
        for pos, a in enumerate(el, 1):
            e = alpha[a - 1]
            lat = len(forms) + 1
            by_lat[float(lat)] = (L, pos)
            nm = "u%dx%s" % (L, lc.render_name(e["n"]))
            if rnd.random() < 0.3:
                nm = nm.upper()
            forms.append(_form(nm, [lc.entry_yaml(isa, k, rnd) for k in e["ops"]], lat))
    mm, sem, parser = _build(isa, forms, "lists-" + isa, mirror_isa=True)
    spy = Spy(mm)
    ispy = Spy(sem._isa_model)   # the ISA database is searched by the same matcher with its own fall-backs
    # one parsed line per (query name, operand list); the mnemonic is substituted per list
    proto = {}
    for qn, nchars in enumerate(qnames, 1):
        for qo, ops in enumerate(qops, 1):
            line = lc.render_line(isa, "QQ" + lc.render_name(nchars), ops, lc.FIRST)
            proto[(qn, qo)] = (line, parser.parse_line(line))
    n_calls = 0
    full_parse_every = 17
    for n, r in enumerate(recs):
        L = lists[tuple(r["el"])]
        qn, qo = r["qn"], r["qo"]
        nchars = qnames[qn - 1]
        prefix = "u%dx" % L
        if _case_style(nchars) == "upper":
            prefix = prefix.upper()
        name = prefix + lc.render_name(nchars)
        line0, form0 = proto[(qn, qo)]
        line = line0.replace("QQ" + lc.render_name(nchars), name, 1)
        if n % full_parse_every == 0:
            form = parser.parse_line(line)
        else:
            form = copy.deepcopy(form0)
            form.mnemonic = name
            form.line = line
        ctx = {"stage": "r2-lists", "isa": isa, "line": line, "query": {"n": nchars, "ops": qops[qo - 1]},
               "entries": [alpha[a - 1] for a in r["el"]], "allowed": r["allowed"]}
        tag = "n=%s:q=%s:el=%s" % (lc.render_name(nchars), lc.opsstr(qops[qo - 1]),
                                  "+".join("%s%s" % (lc.render_name(alpha[a - 1]["n"]), lc.opsstr(alpha[a - 1]["ops"]))
                                           for a in r["el"]))
        # (1) get_instruction alone: the mnemonic as written, no fall-back
        try:
            got = mm.get_instruction(form.mnemonic, form.operands)
        except Exception as ex:  # noqa
            run.fail("C07:%s:exception:get_instruction:%s" % (isa, tag),
                     "%s: get_instruction for %r raised %s: %s" % (isa, line, type(ex).__name__, ex), ctx)
            continue
        spy.take()
        n_calls += 1
        served = 0 if got is None else by_lat[got.latency][1]
        if got is not None and by_lat[got.latency][0] != L:
            served = -1
        if served not in r["scan1"]:
            run.fail("C07:%s:r2:lists:get_instruction:allowed=%s:served=%d:%s" % (
                isa, "".join(map(str, sorted(r["scan1"]))), served, tag),
                "%s %r on entries %s: get_instruction served entry %d, specification allows %s" % (
                    isa, line, tag, served, sorted(r["scan1"])), ctx)
        # (2) assign_tp_lt: with the suffix fall-backs and the register form
        ispy.take()
        try:
            own, reg, unknown = _assign(sem, spy, form)
        except Exception as ex:  # noqa
            run.fail("C07:%s:exception:assign_tp_lt:%s" % (isa, tag),
                     "%s: %r raised %s: %s" % (isa, line, type(ex).__name__, ex), ctx)
            continue
        n_calls += 1
        # (3) assign_src_dst: the ISA database holds the same entries
        iown = next((x for _, wild, x in ispy.take() if not wild and x is not None), None)
        si = 0 if iown is None else (by_lat[iown.latency][1] if by_lat[iown.latency][0] == L else -1)
        if si not in r["allowed"]:
            if si in r["dev"]:
                sig = "C07:%s:r2:lists:assign_src_dst:dev-suffix-case:n=%s" % (isa, lc.render_name(nchars))
            else:
                sig = "C07:%s:r2:lists:assign_src_dst:allowed=%s:served=%d:%s" % (
                    isa, "".join(map(str, sorted(r["allowed"]))), si, tag)
            run.fail(sig, "%s %r on entries %s: assign_src_dst used ISA entry %d, specification allows %s" % (
                isa, line, tag, si, sorted(r["allowed"])), ctx)

        def pos_of(x):
            if x is None:
                return 0
            LL, p = by_lat[x.latency]
            return p if LL == L else -1
        so, sr = pos_of(own), pos_of(reg)
        mem = _has_mem(qops[qo - 1])

        def consistent(allowed, rwa):
            if so not in allowed:
                return False
            if so != 0:
                return not unknown and form.latency_wo_load == own.latency
            if mem:
                return sr in rwa and unknown == (sr == 0)
            return sr == 0 and unknown
        if not consistent(r["allowed"], r["rwa"]):
            if consistent(r["dev"], r["rwd"]):
                sig = "C07:%s:r2:lists:assign_tp_lt:dev-suffix-case:n=%s" % (isa, lc.render_name(nchars))
            else:
                sig = "C07:%s:r2:lists:assign_tp_lt:allowed=%s:rwa=%s:own=%d:reg=%d:unknown=%s:%s" % (
                    isa, "".join(map(str, sorted(r["allowed"]))), "".join(map(str, sorted(r["rwa"]))),
                    so, sr, unknown, tag)
            run.fail(sig, "%s %r on entries %s: assign_tp_lt applied entry %d (register form %d, unknown=%s); "
                          "specification allows own %s / register form %s" % (
                              isa, line, tag, so, sr, unknown, sorted(r["allowed"]), sorted(r["rwa"])), ctx)
        if len(r["el"]) > 1 and r["allowed"] != [0]:
            run.mark("lists|%s|%s|%d|%d" % (isa, r["el"], qn, qo))
    run.add_traces(len(recs))
    run.add_eval(n_calls)
    run.sample({"stage": "r2-lists", "isa": isa, "entries": len(forms), "lists": len(lists),
                "example": proto[(1, 1)][0]})
    spy.remove()
    ispy.remove()
    return n_calls


# ------------------------------------------------------------------------------------ R3: cases
def _case(cid, isa, qname, qkinds, entries, served):
    return {"id": cid, "isa": isa, "qn": lc.chars(qname), "qops": [lc.clean(k) for k in qkinds],
            "entries": [{"n": lc.chars(n), "ops": [lc.clean(k) for k in ks]} for n, ks in entries],
            "served": served}


BAD = lc.K("bad")  # stands for an entry operand outside the kind vocabulary (matches nothing)


def _drop_name(isa, name):
    if isa == "x86":
        return name[:-1] if name and name[-1].upper() in "BSWLQT" else None
    return name[:name.index(".")] if "." in name else None


def _mutants(isa, kinds, rnd, n):
    pool = lc.mutant_pool(isa)
    out = []
    kinds = list(kinds)
    choices = []
    if kinds:
        choices += ["change", "drop"]
    if len(kinds) < (4 if isa == "x86" else 5):
        choices.append("add")
    for _ in range(n):
        c = rnd.choice(choices)
        ks = list(kinds)
        if c == "change":
            p = rnd.randrange(len(ks))
            cand = [x for x in pool if lc.clean(x) != lc.clean(ks[p])]
            ks[p] = rnd.choice(cand)
        elif c == "drop":
            del ks[rnd.randrange(len(ks))]
        else:
            ks.insert(rnd.randrange(len(ks) + 1), rnd.choice(pool))
        # the parsers accept bare identifiers / prefetch operations only in some positions
        out.append((c, ks))
    return out


def _renderable(isa, kinds):
    """positions in which the real parsers can produce an operand of that kind"""
    for j, k in enumerate(kinds):
        if isa == "aarch64":
            if k["k"] == "cc" and j == 0:
                return False
            if k["k"] == "prf" and j != 0:
                return False
            # `[x1], x2` IS a post-indexed access: a memory operand must be the last operand
            if k["k"] == "mem" and (j != len(kinds) - 1 or (k["pre"] == "t" and k["post"] == "t")):
                return False
        elif k["k"] == "id" and j != 0 and False:
            return False
    return True


def _parse_ops(isa, parser, name, kinds, rnd):
    """(line, InstructionForm) through the real parser; falls back to operand-wise parsing when
    the line as a whole is outside the parser's grammar (more operands than it supports)."""
    line = lc.render_line(isa, name, kinds, rnd)
    try:
        return line, parser.parse_line(line), False
    except Exception:
        pass
    form = parser.parse_line(name)
    ops = []
    for j, k in enumerate(kinds):
        t = lc.render(isa, k, rnd, first=(j == 0))
        if isa == "aarch64" and k["k"] != "prf":
            o = parser.parse_line("%s x7, %s" % (name, t)).operands[1:]
        else:
            o = parser.parse_line("%s %s" % (name, t)).operands
        ops += o
    form.operands = ops
    form.line = line
    return line, form, True


# ------------------------------------------------------------------------------------ R3a: random models
def _rand_entry_kind(isa, rnd):
    r = rnd.random()
    if isa == "x86":
        if r < 0.45:
            return lc.K("reg", c=rnd.choice(["gpr", "xmm", "ymm", "zmm", "mm", "k", "*", "gpr", "xmm"]),
                        m=("y" if rnd.random() < 0.1 else ""))
        if r < 0.55:
            return lc.K("imm", t="int")
        if r < 0.6:
            return lc.K("id")
        return lc.K("mem", b=rnd.choice(["gpr", "*", "*", ""]), o=rnd.choice(["", "imd", "id", "*", "*"]),
                    i=rnd.choice(["", "gpr", "*", "*"]), sc=rnd.choice(["1", "n", "*", "*"]), pre="f", post="f")
    if r < 0.5:
        c = rnd.choice(["x", "w", "d", "s", "q", "h", "b", "v", "v", "z", "p", "*"])
        s = rnd.choice(["", "b", "h", "s", "d", "*"]) if c in ("v", "z", "p", "*") else ""
        return lc.K("reg", c=c, s=s)
    if r < 0.6:
        return lc.K("imm", t=rnd.choice(["int", "int", "float", "double", "*"]))
    if r < 0.65:
        return lc.K("id")
    if r < 0.7:
        return lc.K("cc", t=rnd.choice(["EQ", "NE", "*"]))
    return lc.K("mem", b=rnd.choice(["x", "x", "*"]), o=rnd.choice(["", "imd", "*", "*"]),
                i=rnd.choice(["", "x", "*", "*"]), sc=rnd.choice(["1", "n", "*", "*"]),
                pre=rnd.choice(["f", "t", "*"]), post=rnd.choice(["f", "t", "*"]))


def _r3_random(run, isa, seed, n_models, n_stems):
    rnd = random.Random("%s-c07-r3a-%s" % (seed, isa))
    cases, info = [], {}
    n_eval = 0
    for mi in range(n_models):
        # raw entries in file order: (names tuple, kinds)
        raw = []
        stems = ["k%dm%dv" % (mi, s) for s in range(n_stems)]
        sfx = ["q", "l", "b", "w", "s", "t"] if isa == "x86" else [".s", ".ne", ".d"]
        for st in stems:
            base_ops = [_rand_entry_kind(isa, rnd) for _ in range(rnd.randrange(0, 4))]
            for _ in range(rnd.randrange(1, 5)):
                ops = [(_rand_entry_kind(isa, rnd) if rnd.random() < 0.35 else copy.deepcopy(k)) for k in base_ops]
                if rnd.random() < 0.15 and ops:
                    del ops[rnd.randrange(len(ops))]
                if rnd.random() < 0.15:
                    ops.append(_rand_entry_kind(isa, rnd))
                if isa == "aarch64":
                    ops = [k for j, k in enumerate(ops) if not (k["k"] == "cc" and j == 0)]
                    ops = [k for j, k in enumerate(ops) if k["k"] != "mem" or j == len(ops) - 1]
                nm = st + (rnd.choice(sfx) if rnd.random() < 0.4 else "")
                names = [nm]
                if rnd.random() < 0.2:
                    other = rnd.choice(stems) + (rnd.choice(sfx) if rnd.random() < 0.4 else "")
                    if other != nm:
                        names.append(other)
                names = [n.upper() if rnd.random() < 0.3 else n for n in names]
                raw.append((tuple(names), ops))
        forms = []
        for j, (names, ops) in enumerate(raw, 1):
            forms.append(_form(list(names) if len(names) > 1 else names[0],
                               [lc.entry_yaml(isa, k, rnd) for k in ops], j))
        mm, sem, parser = _build(isa, forms, "rand-%s-%d" % (isa, mi))
        spy = Spy(mm)
        # queries: from every entry (match) + mutants + name variants
        queries = []
        for names, ops in raw:
            for nm in names:
                try:
                    w = [lc.written_for(isa, k, rnd) for k in ops]
                except ValueError:
                    continue
                variants = [nm.lower(), nm.upper(), nm.lower() + (rnd.choice(sfx)), (nm + rnd.choice(sfx)).upper()]
                queries.append((rnd.choice(variants[:2]), w))
                queries.append((rnd.choice(variants), w))
                for _, ks in _mutants(isa, w, rnd, 2):
                    queries.append((rnd.choice(variants), ks))
        for qi, (qname, w) in enumerate(queries):
            if not _renderable(isa, w):
                continue
            try:
                line, form, piecewise = _parse_ops(isa, parser, qname, w, rnd)
            except (ValueError, IndexError):
                continue
            cid = "rand|%s|%d|%d" % (isa, mi, qi)
            try:
                own, reg, unknown = _assign(sem, spy, form)
            except CompositionError as ce:
                own, reg, unknown = ce.own, ce.reg, None
                run.divergence("composition-exception (C08 domain)", {"line": line, "error": str(ce)})
            except Exception as ex:  # noqa
                run.fail("C07:%s:exception:assign_tp_lt:random" % isa,
                         "%s: %r raised %s: %s" % (isa, line, type(ex).__name__, ex),
                         {"stage": "r3-random", "isa": isa, "line": line, "model": mi})
                continue
            n_eval += 1
            up, dn = qname.upper(), _drop_name(isa, qname)
            ents, lat2pos = [], {}
            for j, (names, ops) in enumerate(raw, 1):
                for nm in names:
                    if nm.upper() == up or (dn is not None and nm.upper() == dn.upper()):
                        ents.append((nm, ops))
                        lat2pos.setdefault((float(j), nm.upper()), len(ents))
            if own is None:
                served = 0
            else:
                # the loader splits multi-name entries: identify by (latency, name)
                served = lat2pos.get((own.latency, own.mnemonic.upper()), -1)
            cases.append(_case(cid, isa, qname, w, ents, served))
            info[cid] = {"stage": "r3-random", "isa": isa, "line": line, "model": mi, "query": w, "qname": qname,
                         "entries": [(n, [lc.kstr(k) for k in ks]) for n, ks in ents], "served": served,
                         "multi": [len(names) > 1 for names, _ in raw for nm in names
                                   if nm.upper() == up or (dn is not None and nm.upper() == dn.upper())],
                         "unknown": unknown}
            if own is not None and unknown is True:
                run.fail("C07:%s:r3:random:flagged-unknown-though-found" % isa,
                         "%r: an entry was applied but the instruction is flagged unknown" % line, info[cid])
            if own is None and reg is None and unknown is False:
                run.fail("C07:%s:r3:random:not-flagged-unknown" % isa,
                         "%r: no entry applied but the instruction is not flagged unknown" % line, info[cid])
        del mm.get_instruction
    return cases, info, n_eval


# ------------------------------------------------------------------------------------ R3b: shipped models
def _shipped_worker(args):
    arch, isa, seed, per_sig, n_mut = args
    from osaca.semantics import ArchSemantics, MachineModel
    from osaca.parser import ParserAArch64, ParserX86ATT

    rnd = random.Random("%s-c07-r3b-%s" % (seed, arch))
    mm = MachineModel(arch=arch)
    sem = ArchSemantics(mm)
    parser = ParserX86ATT() if isa == "x86" else ParserAArch64()
    spy = Spy(mm)
    path = os.path.join(env.REPO, "osaca", "data", arch + ".yml")
    order = lc.file_order_names(path)
    loaded = mm._data["instruction_forms_dict"]
    singles, multis = {}, {}
    for ridx, names in enumerate(order):
        for nm in names:
            (singles if len(names) == 1 else multis).setdefault(nm, []).append(ridx)
    per_name = {}
    stats = {"entries": 0, "unprojectable": 0, "unrenderable": 0, "piecewise": 0, "cases": 0, "mismatch_order": 0}
    fps = lc.file_order_fingerprints(path)
    for nm, objs in loaded.items():
        # identify every loaded entry with its entry in the file by content (data fingerprint), not by
        # position: no assumption about the order the loader keeps (that order is what is being checked)
        raw = sorted(singles.get(nm, []) + multis.get(nm, []))
        ridx, unused = [], list(raw)
        if len(fps) == len(order):
            for o in objs:
                fp = lc.entry_fingerprint(o.throughput, o.latency, o.port_pressure)
                hit = next((r for r in unused if fps[r] == fp), None)
                if hit is None:
                    ridx = []
                    break
                unused.remove(hit)
                ridx.append(hit)
        if len(ridx) != len(objs):
            stats["mismatch_order"] += 1
            ridx = raw if len(raw) == len(objs) else list(range(len(objs)))
        ents = []
        for r, o in zip(ridx, objs):
            kinds = [lc.project_entry_operand(isa, op) for op in o.operands]
            ents.append({"ridx": r, "obj": o, "kinds": kinds, "multi": len(order[r]) > 1 if r < len(order) else False})
        ents.sort(key=lambda e: e["ridx"])
        per_name[nm] = ents
    todo = []
    seen = {}
    for nm, ents in per_name.items():
        for e in ents:
            stats["entries"] += 1
            if any(k is None for k in e["kinds"]):
                stats["unprojectable"] += 1
                continue
            if per_sig:
                sg = lc.opsstr(e["kinds"])
                if seen.get(sg, 0) >= per_sig:
                    continue
                seen[sg] = seen.get(sg, 0) + 1
            todo.append((nm, e))
    cases, info, errors = [], {}, []
    for nm, e in todo:
        try:
            w = [lc.written_for(isa, k, rnd) for k in e["kinds"]]
            if not _renderable(isa, w):
                raise ValueError("position")
        except ValueError:
            stats["unrenderable"] += 1
            continue
        qs = [("match", nm.lower(), w)]
        for c, ks in _mutants(isa, w, rnd, n_mut):
            qs.append((c, nm.lower(), ks))
        for kind_of, qname, ks in qs:
            if not _renderable(isa, ks):
                continue
            try:
                line, form, piecewise = _parse_ops(isa, parser, qname, ks, rnd)
            except (ValueError, IndexError):
                stats["unrenderable"] += 1
                continue
            stats["piecewise"] += 1 if piecewise else 0
            cid = "ship|%s|%s|%d|%s|%d" % (arch, nm, e["ridx"], kind_of, len(cases))
            try:
                own, reg, unknown = _assign(sem, spy, form)
            except CompositionError as ce:
                own, reg, unknown = ce.own, ce.reg, None
                stats["composition_errors"] = stats.get("composition_errors", 0) + 1
            except Exception as ex:  # noqa
                errors.append((arch, line, "%s: %s" % (type(ex).__name__, ex)))
                continue
            up = qname.upper()
            dn = _drop_name(isa, qname)
            cand = [(up, x) for x in per_name.get(up, [])]
            if dn is not None:
                cand += [(dn.upper(), x) for x in per_name.get(dn.upper(), [])]
            served = 0
            if own is not None:
                served = next((j for j, (_, x) in enumerate(cand, 1) if x["obj"] is own), -1)
            # entries after the one served cannot influence the verdict
            cut = cand if served <= 0 else cand[:served]
            ents = [(n, [k if k is not None else BAD for k in x["kinds"]]) for n, x in cut]
            cases.append(_case(cid, isa, qname, ks, ents, served))
            info[cid] = {"stage": "r3-shipped", "arch": arch, "isa": isa, "line": line, "from_entry": lc.opsstr(e["kinds"]),
                         "mutation": kind_of, "served": served, "unknown": unknown,
                         "cand_all": [(n, lc.opsstr([k if k is not None else BAD for k in x["kinds"]]), x["multi"],
                                       x["ridx"]) for n, x in cut]}
            info[cid]["cand"] = info[cid]["cand_all"][:12]
            stats["cases"] += 1
    return arch, cases, info, stats, errors


def _r3_shipped_start(run, tier, seed):
    if tier == "quick":
        archs = [(a, "x86") for a in env.QUICK_X86] + [(a, "aarch64") for a in env.QUICK_ARM]
        per_sig, n_mut = 1, 2
    else:
        archs = [(a, "x86") for a in env.X86_ARCHS] + [(a, "aarch64") for a in env.ARM_ARCHS]
        per_sig, n_mut = 0, 2
    env.warm_models([a for a, _ in archs])
    ex = concurrent.futures.ProcessPoolExecutor(max_workers=min(12, len(archs)))
    # biggest models first
    archs.sort(key=lambda a: -os.path.getsize(os.path.join(env.REPO, "osaca", "data", a[0] + ".yml")))
    futs = [ex.submit(_shipped_worker, (a, isa, seed, per_sig, n_mut)) for a, isa in archs]
    return ex, futs


def _r3_shipped_collect(run, ex, futs):
    cases, info, stats = [], {}, {}
    for f in futs:
        arch, cs, inf, st, errors = f.result()
        cases += cs
        info.update(inf)
        stats[arch] = st
        for a, line, err in errors:
            run.fail("C07:exception:assign_tp_lt:shipped:%s" % a, "%s: %r raised %s" % (a, line, err),
                     {"stage": "r3-shipped", "arch": a, "line": line})
    ex.shutdown()
    return cases, info, stats


# ------------------------------------------------------------------------------------ validation of R3 cases
def _validate(run, cases, info, label):
    if not cases:
        return
    chunks = [cases[i:i + 6000] for i in range(0, len(cases), 6000)]

    def one(ix):
        return tlc.batch_validate("Trace_Lookup", "Trace_Lookup", chunks[ix], tag="c07-%s-%d" % (label, ix), timeout=1500)
    with concurrent.futures.ThreadPoolExecutor(min(4, len(chunks))) as ex:
        results = list(ex.map(one, range(len(chunks))))
    bycid = {c["id"]: c for c in cases}
    classes = run.extra.setdefault("rejected_by_class", {})
    blamed = run.extra.setdefault("_blamed", {})
    for ix, (rejects, r) in enumerate(results):
        run.add_mc(r, "Trace_Lookup_%s_%d" % (label, ix))
        for cid, clause, extra in rejects:
            c, inf = bycid[cid], info[cid]
            isa = c["isa"]
            qname = "".join(c["qn"])
            blame = extra[0] if extra else 0
            if inf["stage"] == "r3-shipped":
                bl = inf["cand_all"][blame - 1] if 0 < blame <= len(inf["cand_all"]) else None
                multi = bool(bl and bl[2])
                sig = "C07:%s:shipped:%s:%s:%s:%s:blamed=%s%s" % (
                    isa, inf["arch"], clause, qname.upper(), inf["mutation"], bl[1] if bl else "-",
                    ":blamed-is-multi-name-entry" if (clause == "earlier-must-match" and multi) else "")
                key = "shipped:%s:%s" % (inf["arch"], clause)
                classes[key] = classes.get(key, 0) + 1
                if bl:
                    blamed.setdefault(key, set()).add((qname.upper(), bl[3]))
                what = "%s %r (synthesised from entry %s %s, %s): served candidate %d of %s -> %s" % (
                    inf["arch"], inf["line"], qname.upper(), inf["from_entry"], inf["mutation"], c["served"],
                    inf["cand"][:4], clause)
            else:
                multi = clause == "earlier-must-match" and 0 < blame <= len(inf["multi"]) and inf["multi"][blame - 1]
                if clause == "dev-suffix-case":
                    sig = "C07:%s:r3:random:dev-suffix-case" % isa
                else:
                    bl = inf["entries"][blame - 1][1] if 0 < blame <= len(inf["entries"]) else []
                    sig = "C07:%s:r3:random:%s:blamed=[%s]:q=%s%s" % (isa, clause, ";".join(bl), lc.opsstr(inf["query"]),
                                                                    ":blamed-is-multi-name-entry" if multi else "")
                key = "random:%s:%s%s" % (isa, clause, ":multi-name" if multi else "")
                classes[key] = classes.get(key, 0) + 1
                what = "%r on random model %d: served candidate %d of %s -> %s" % (
                    inf["line"], inf["model"], c["served"], inf["entries"][:4], clause)
            run.fail(sig, what, dict(inf, case=c))
    run.add_traces(len(cases))


def _selftest(run):
    """Self-test of the binding: recorded lookups with a wrong `served` field must be rejected by
    Trace_Lookup with the right clause, the correct record must be accepted."""
    g, x = lc.K("reg", c="gpr"), lc.K("reg", c="xmm")
    cs = [(_case("selftest|not-found", "x86", "op", [g], [("op", [g])], 0), "must-match-not-found"),
          (_case("selftest|wrong-kind", "x86", "op", [g], [("op", [x])], 1), "wrong-kind"),
          (_case("selftest|wrong-count", "x86", "op", [g], [("op", [g, g])], 1), "wrong-count"),
          (_case("selftest|second", "x86", "OP", [g], [("op", [g]), ("Op", [g])], 2), "earlier-must-match"),
          (_case("selftest|wrong-name", "x86", "op", [g], [("oq", [g])], 1), "wrong-mnemonic"),
          (_case("selftest|fallback", "x86", "opq", [g], [("op", [g]), ("opq", [g])], 1), "fallback-shadows-own"),
          (_case("selftest|a64-shape", "aarch64", "op.s", [lc.K("reg", c="v", s="s")],
                 [("op", [lc.K("reg", c="v", s="d")])], 1), "wrong-kind"),
          (_case("selftest|ok", "x86", "opq", [g], [("op", [x]), ("OP", [g])], 2), None)]
    rej, r = tlc.batch_validate("Trace_Lookup", "Trace_Lookup", [c for c, _ in cs], tag="c07-selftest")
    run.add_mc(r, "Trace_Lookup_selftest")
    got = {cid: clause for cid, clause, _ in rej}
    wrong = [(c["id"], exp, got.get(c["id"])) for c, exp in cs if got.get(c["id"]) != exp]
    if wrong:
        raise RuntimeError("self-test of Trace_Lookup failed: %s" % wrong)
    run.note("selftest", {"corrupted_records_rejected": len(cs) - 1})


def main(tier, seed):
    run = Run(PID, tier, seed)
    rnd = random.Random("%s-c07" % seed)
    run.rule = ("R2: every (entry kind x written kind) pair of each ISA and every (entry list x query) of the "
                "bounded alphabets, as emitted by TLC with the allowed result set, looked up on a synthetic YAML "
                "model with operands produced by the real parser; R3: seeded random synthetic models and entries of "
                "shipped models with the instruction synthesised from the entry's own pattern + near-miss mutants, "
                "validated by Trace_Lookup; non-trivial = the specification demands a match (table), a list with "
                "more than one entry where some result other than 'unknown' is allowed (lists), or a case with at "
                "least two candidate entries / a fall-back name (R3)")
    t0 = time.time()
    # the shipped-model sweep (worker processes) and the random models run while TLC enumerates
    pool, futs = _r3_shipped_start(run, tier, seed)
    tlc_thread = concurrent.futures.ThreadPoolExecutor(1)
    tlc_fut = tlc_thread.submit(_tlc_all, run, tier)
    n_models, n_stems = (3, 10) if tier == "quick" else (12, 14)
    cases, info = [], {}
    for isa in ("x86", "aarch64"):
        cs, inf, n_eval = _r3_random(run, isa, seed, n_models, n_stems)
        cases += cs
        info.update(inf)
        run.add_eval(n_eval)
    run.note("r3_random_cases", len(cases))
    run.note("t_r3_random_s", round(time.time() - t0, 1))
    emitted = tlc_fut.result()
    tlc_thread.shutdown()
    run.note("t_tlc_s", round(time.time() - t0, 1))
    t0 = time.time()
    for isa in ("x86", "aarch64"):
        hdr, recs = emitted[(isa, "table")]
        _r2_table(run, isa, hdr, recs, tier, rnd)
        hdr, recs = emitted[(isa, "lists")]
        _r2_lists(run, isa, hdr, recs, tier, rnd)
    run.note("t_r2_s", round(time.time() - t0, 1))
    t0 = time.time()
    scases, sinfo, stats = _r3_shipped_collect(run, pool, futs)
    run.note("r3_shipped", stats)
    run.note("r3_shipped_cases", len(scases))
    run.note("t_r3_drive_s", round(time.time() - t0, 1))
    t0 = time.time()
    _selftest(run)
    _validate(run, cases, info, "rand")
    _validate(run, scases, sinfo, "ship")
    run.note("t_r3_validate_s", round(time.time() - t0, 1))
    for c in cases + scases:
        if len(c["entries"]) >= 2 or len(set("".join(e["n"]).upper() for e in c["entries"])) > 1:
            run.mark(c["id"])
    for c in (cases[:1] + scases[:2]):
        run.sample({"id": c["id"], "line": (info.get(c["id"]) or sinfo.get(c["id"]))["line"],
                    "served": c["served"], "candidates": len(c["entries"])})
    bl = run.extra.pop("_blamed", {})
    run.note("distinct_entries_not_served_although_they_must_match", {k: len(v) for k, v in sorted(bl.items())})
    run.exhaustive = False
    run.assume("written operands are rendered from abstract kinds by harness/lookup_common.render and parsed by the "
               "real ParserX86ATT / ParserAArch64; model entries are rendered by lookup_common.entry_yaml and loaded "
               "by MachineModel; shipped entries are abstracted field by field (project_entry_operand), their file "
               "order is read from the YAML text")
    run.assume("open points of the statement (O1-O10 in specs/Lookup.tla) accept either outcome")
    run.assume("entries whose declaration is outside the kind vocabulary (no register class, unknown class names, "
               "scale without index, ...) are counted as unprojectable/unrenderable and belong to C15")
    run.assume("TLC acts as evaluator of finite tables here (DESIGN section 8); the state-machine content is the entry scan")
    _cleanup()
    return run.finish()


def _replay_synthetic(isa, entries, line):
    """entries: [(name, [kinds])] in file order; rebuilds a model with exactly these entries and
    runs the recorded line through the parser, assign_src_dst and assign_tp_lt."""
    forms = [_form(n, [lc.entry_yaml(isa, k) for k in ks], j) for j, (n, ks) in enumerate(entries, 1)]
    mm, sem, parser = _build(isa, forms, "replay", mirror_isa=True)
    spy, ispy = Spy(mm), Spy(sem._isa_model)
    form = parser.parse_line(line)
    own, reg, unknown = _assign(sem, spy, form)
    iown = next((x for _, wild, x in ispy.take() if not wild and x is not None), None)
    pos = lambda x: 0 if x is None else int(x.latency)  # noqa
    print("line %r: assign_tp_lt applied entry %d (register form %d, unknown=%s); assign_src_dst used ISA entry %d" % (
        line, pos(own), pos(reg), unknown, pos(iown)))
    return pos(own), pos(iown), form


def replay(path):
    with open(path) as f:
        rec = json.load(f)
    c = rec["case"]
    print("replaying", rec["signature"])
    print(rec["what"])
    line = c.get("line")
    stage = c.get("stage")
    if stage == "r3-shipped":
        mm, sem, parser = synth.load_arch(c["arch"])
        spy = Spy(mm)
        form = parser.parse_line(line)
        own, reg, unknown = _assign(sem, spy, form)
        print("line %r -> own entry %s, register form %s, unknown=%s" % (
            line, None if own is None else (own.mnemonic, [str(o)[:40] for o in own.operands], own.latency),
            reg is not None, unknown))
        case = c.get("case")
        rej, _ = tlc.batch_validate("Trace_Lookup", "Trace_Lookup", [case], tag="c07-replay")
        print("specification on the recorded case:", rej if rej else "accepts")
        return 1 if rej else 0
    isa = c["isa"]
    if stage == "r2-table":
        mn = line.split()[0]
        e, w = c["entry"], c["written"]
        if isa == "aarch64":
            pad = lc.K("reg", c="x")
            ents = [(mn, [e, pad] if mn.startswith("tl") else [pad, e])]
            qops = [w, pad] if mn.startswith("tl") else [pad, w]
        else:
            ents, qops = [(mn, [e])], [w]
        qname = mn
    elif stage == "r2-lists":
        mn = line.split()[0]
        qn = "".join(c["query"]["n"])
        prefix = mn[:len(mn) - len(qn)].lower()
        ents = [(prefix + "".join(x["n"]), x["ops"]) for x in c["entries"]]
        qname, qops = mn, c["query"]["ops"]
    else:
        case = c["case"]
        ents = [("".join(x["n"]), x["ops"]) for x in case["entries"]]
        qname, qops = "".join(case["qn"]), case["qops"]
    own, iown, form = _replay_synthetic(isa, ents, line)
    cases = [_case("replay|assign_tp_lt", isa, qname, qops, ents, own),
             _case("replay|assign_src_dst", isa, qname, qops, ents, iown)]
    rej, _ = tlc.batch_validate("Trace_Lookup", "Trace_Lookup", cases, tag="c07-replay")
    print("specification:", [(cid, clause) for cid, clause, _ in rej] if rej else "accepts both lookups")
    _cleanup()
    return 1 if rej else 0
