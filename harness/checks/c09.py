"""C09  x86 AT&T parser recovers every line and operand exactly as written.

R1  TLC enumerates the x86 operand-kind lattice (MC_AsmSyntax_x86: all registers, immediates
    dec/hex/+-/64-bit, all base/index/displacement combinations x scales) checking the rules of
    Canon, and all files of <= 4 lines over the line alphabet (MC_ParseFile: Level-B scan machine
    => the four Level-A clauses).
R2  Every emitted operand is rendered in first and non-first position with several seeded layouts
    and parsed by ParserX86ATT.parse_line; every emitted file is rendered and parsed by parse_file.
R3  Seeded random instructions (0-4 operands, valid AT&T order), random files <= 40 lines and the
    repository's own AT&T files; every observation (projected operand objects, line numbers, text,
    kinds) is decided by TLC: Trace_AsmSyntax (Canon) and Trace_ParseFile (the four clauses)."""
from harness import parsers_common as PC


def main(tier, seed):
    return PC.run_check("C09", "x86", tier, seed)


def replay(path):
    return PC.replay_check("C09", "x86", path)
