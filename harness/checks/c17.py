"""C17  Model caches are transparent, also after interrupted or racing writes.

R1  TLC checks MC_ModelCache exhaustively (2 processes, 2 contents, 4 cells per cache file,
    bounded number of runs/edits/environment actions): the intended protocol (atomic write,
    tolerant read, file read once) satisfies RunNeverFails / ResultIsContent / StaleNeverServed /
    NoPartialVisible; with today's named deviations switched on (InPlaceCacheWrite,
    UnreadableCacheRaises, RehashAtWrite) TLC produces counterexamples.
R2  Spec -> code: the counterexamples and a transition cover emitted by TLC (one action path per
    generated transition of the sequential-history graph and of the two-cold-starters race graph)
    are executed on the real loader: every model step is one file-system interaction at which the
    real process is held (module-level collaborators of hw_model substituted inside the child,
    /repo untouched); edits, read-only directory, foreign / old-version / cut cache files are
    made on a throw-away HOME with real copies of the model files.  After every finished run the
    report (`osaca --arch A kernel` minus the timestamp) is compared with the cache-less reference
    of the content the file had during the run.
R3  Code -> spec: seeded longer histories over more models at API level (digest of the loaded
    data), real unscheduled racing cold starts, killed writers, and the caches shipped in the
    package directory; every recorded history (R2 and R3) is validated by Trace_ModelCache, which
    gives the Level-A verdict, names the deviation that explains a failure, and reports
    Level-B divergences (not violations)."""
import concurrent.futures
import glob
import json
import os
import random
import shutil
import threading
import time

from harness import cache_common as cc
from harness import env, tlc
from harness.verdict import Run

WORKROOT = os.path.join(tlc.WORK, "cache-c17-%d" % os.getpid())

R1_HOLD = ["fixed"]
R1_HOLD_THOROUGH = ["atomic_only", "today_noedit"]
R1_VIOLATE = {"today_fail": "RunNeverFails", "today_stale": "ResultIsContent", "rtserves": "ResultIsContent"}


# ------------------------------------------------------------------------------- R1
def _r1(name, out, emit=None):
    envv = {"OUTFILE": emit} if emit else None
    if emit and os.path.exists(emit):
        os.unlink(emit)
    out[name] = tlc.run_tlc("MC_ModelCache", "MC_ModelCache_" + name, env=envv,
                            workers=1 if emit else (8 if name == "fixed" else 3), timeout=800,
                            allow_violation=name in R1_VIOLATE, coverage=(name == "cover_seq"))


def model_checking(run, tier):
    names = R1_HOLD + list(R1_VIOLATE) + (R1_HOLD_THOROUGH if tier == "thorough" else [])
    res, threads = {}, []
    emits = {c: os.path.join(WORKROOT, "emit-%s.ndjson" % c) for c in ("cover_seq", "cover_race")}
    errors = []

    def guarded(*a):
        try:
            _r1(*a)
        except Exception as ex:  # noqa
            errors.append(ex)

    for n in names:
        threads.append(threading.Thread(target=guarded, args=(n, res)))
    for c, f in emits.items():
        threads.append(threading.Thread(target=guarded, args=(c, res, f)))
    for t in threads:
        t.start()
    return threads, res, emits, errors


def collect_r1(run, threads, res, emits, errors):
    for t in threads:
        t.join()
    if errors:
        raise errors[0]
    ce = {}
    for n, r in sorted(res.items()):
        run.add_mc(r, "MC_ModelCache_" + n)
        if n in R1_VIOLATE:
            if R1_VIOLATE[n] not in r.violated:
                raise tlc.TLCError("MC_ModelCache_%s: expected a counterexample to %s, TLC reported %r"
                                   % (n, R1_VIOLATE[n], r.violated))
            ce[n] = cc.last_hist(r.raw)
            if not ce[n]:
                raise tlc.TLCError("could not read the counterexample of MC_ModelCache_" + n)
        elif r.violated:
            raise tlc.TLCError("MC_ModelCache_%s violates %r" % (n, r.violated))
    cov = res["cover_seq"].coverage
    never = [a for a, v in cov.items() if v[1] == 0 and a not in ("WriteTmp", "Rename")]
    if never or not cov:
        raise tlc.TLCError("vacuous actions in MC_ModelCache_cover_seq: %r" % never)
    run.note("r1_summary", {
        "intended protocol (atomic write + tolerant read + read once)": "all invariants hold",
        "atomic write only, no cut files pre-existing": "all invariants hold",
        "today (in-place write, unguarded read)": "RunNeverFails violated, %d steps" % len(ce["today_fail"]),
        "today (hash recomputed at write)": "ResultIsContent violated, %d steps" % len(ce["today_stale"]),
        "variant: in-process cache hit returns immediately": "ResultIsContent violated, %d steps" % len(ce["rtserves"]),
    })
    covers = {c: tlc.read_emitted(f) for c, f in emits.items()}
    for f in emits.values():
        if os.path.exists(f):
            os.unlink(f)
    return ce, covers


# ------------------------------------------------------------------------------- path selection
def order_paths(recs, rnd):
    """Maximal paths of a transition cover, ordered so that a prefix of the list covers as many
    transition classes (action, parameter, abstract post-state) as possible; the rest shuffled."""
    cls = {}
    for r in recs:
        p = tuple((e["a"], e["p"], e["x"]) for e in r["path"])
        last = p[-1]
        cls[p] = (last[0], last[2] if last[0] != "legacy" else (last[1], last[2]),
                  tuple(r["pcs"]), r["ck"], r["hk"], r["yaml"])
    paths = cc.maximal_paths(recs)
    covers = {}
    for p in paths:
        covers[p] = {cls[p[:i]] for i in range(1, len(p) + 1) if p[:i] in cls}
    allc = set(cls.values())
    chosen, covered = [], set()
    rest = set(paths)
    while covered != allc and rest:
        best = max(sorted(rest), key=lambda q: len(covers[q] - covered))
        if not covers[best] - covered:
            break
        chosen.append(best)
        covered |= covers[best]
        rest.discard(best)
    tail = sorted(rest)
    rnd.shuffle(tail)
    return chosen, tail, len(allc), len(cls)


# ------------------------------------------------------------------------------- execution
def _exec(job):
    pr, path, home, meta = job
    t0 = time.time()
    r = cc.PathRunner(pr, home)
    try:
        for a, p, x in path:
            r.do(a, p, x)
        r.finish()
        return meta, r.events, r.fails, time.time() - t0
    finally:
        r.cleanup()


def execute(jobs, deadline):
    out = []
    with concurrent.futures.ThreadPoolExecutor(max_workers=16) as ex:
        futs = []
        for j in jobs:
            futs.append(ex.submit(_guard, j, deadline))
        for f in futs:
            r = f.result()
            if r is not None:
                out.append(r)
    return out


def _guard(job, deadline):
    if time.time() > deadline:
        return None
    return _exec(job)


def judge(run, results, what):
    """Validate recorded histories with Trace_ModelCache and turn REJECT lines into verdicts."""
    cases, by = [], {}
    for meta, events, fails, _ in results:
        cid = meta["id"]
        cases.append({"id": cid, "events": events})
        by[cid] = (meta, events, fails)
    if not cases:
        return 0
    # self-test of the binding: a corrupted result and a dropped event must both be rejected
    st = _selftest_cases(cases)
    rejects, r = tlc.batch_validate("Trace_ModelCache", "Trace_ModelCache", cases + st, tag="c17")
    run.add_mc(r, "Trace_ModelCache_" + what)
    run.add_traces(len(cases))
    rejects = [(v[1], v[2], v[3:]) for v in cc.printed_tuples(r.raw, "REJECT")]
    got = {x[0] for x in rejects}
    for c in st:
        if c["id"] not in got:
            raise tlc.TLCError("binding self-test: %s was not rejected by Trace_ModelCache" % c["id"])
    run.note("binding_selftest_" + what, "%d corrupted/dropped-event traces rejected" % len(st))
    rejects = [x for x in rejects if not x[0].startswith("selftest")]
    for v in cc.printed_tuples(r.raw, "DIVERGE"):
        if not v[1].startswith("selftest"):
            meta, events, _ = by[v[1]]
            run.divergence("model_divergence", {"case": v[1], "target": meta["target"], "clause": v[2],
                                                "event": v[3], "path": meta["path"]})
    nrej = 0
    for cid, clause, rest in rejects:
        meta, events, fails = by[cid]
        why, at = (rest + ["?", 0])[:2]
        ev = events[at - 1] if 0 < at <= len(events) else {}
        sig = "C17:%s:%s" % (clause, why)
        if meta["kind"] == "shipped":
            sig = "C17:shipped-package-cache:%s" % clause
        detail = ""
        if clause == "run-failed":
            f = next((x for x in fails if x["event"] == at - 1), None) or (fails[0] if fails else {})
            sig += ":" + str(f.get("where", "?"))
            if why == "unexplained":
                sig += ":" + str(f.get("exc", "?"))
            detail = "%s in %s" % (f.get("exc"), f.get("where"))
        else:
            detail = "run returned the result of content(s) %s" % (ev.get("res"),)
        nrej += 1
        run.fail(sig, "%s [%s] %s after %s: %s" % (meta["target"], meta["mode"], clause,
                                                   _short(meta["path"], at, events), detail),
                 {"target": meta["target"], "mode": meta["mode"], "path": meta["path"], "events": events,
                  "fails": fails, "clause": clause, "why": why, "at": at})
    return nrej


def _selftest_cases(cases):
    out = []
    for c in cases:
        ev = c["events"]
        k = next((i for i, e in enumerate(ev) if e["nx"] == "done" and e["res"]), None)
        if k is None:
            continue
        bad = [dict(e) for e in ev]
        bad[k]["res"] = []
        out.append({"id": "selftest-corrupt", "events": bad})
        j = max(i for i in range(k + 1) if ev[i]["a"] in ("start", "reload", "load", "rload", "crashload"))
        if j != k:
            out.append({"id": "selftest-drop", "events": [dict(e) for i, e in enumerate(ev) if i != j]})
        if len(out) >= 2:
            break
    return out


def _short(path, at, events):
    acts = ["%s%s" % (e["a"], "(%d)" % e["p"] if e["p"] else "") +
            ("=%d" % e["x"] if e["a"] in ("edit", "foreign", "oldversion", "legacy", "crashload") else "")
            for e in events[:at]]
    # drop plain step names to keep the message short
    keep = [a for a in acts if a.split("(")[0].split("=")[0] not in
            ("hash", "probeC", "probeH", "parse", "rehash", "access", "exit")]
    return " ".join(keep[-14:])


# ------------------------------------------------------------------------------- R3 histories
def gen_history(rnd, length):
    """Seeded quiescent-level history over 3 contents (3 = comment-only edit)."""
    h = [("load", 1, 0)]
    cur = 1
    for _ in range(length):
        k = rnd.random()
        if k < 0.22:
            h.append(("load", 1, 0))
        elif k < 0.36:
            c = rnd.choice([x for x in (1, 2, 3) if x != cur])
            cur = c
            h.append(("edit", 0, c))
        elif k < 0.46:
            h.append(("crashload", 1, rnd.randrange(0, 4)))
        elif k < 0.54:
            h.append(("legacy", rnd.randrange(0, 4), rnd.choice([1, 2])))
        elif k < 0.62:
            h.append(("toggle", 0, 0))
        elif k < 0.68:
            h.append(("foreign", 0, rnd.choice([x for x in (1, 2, 3) if x != cur])))
        elif k < 0.74:
            h.append(("oldversion", 0, rnd.choice([1, 2])))
        elif k < 0.84:
            h.append(("race", rnd.choice([2, 3, 4]), 0))
        else:
            # two loads in one process, possibly with an edit in between (in-process cache)
            h.append(("start", 1, 0))
            h.append(("free", 1, 0))
            if rnd.random() < 0.6:
                c = rnd.choice([x for x in (1, 2, 3) if x != cur])
                cur = c
                h.append(("edit", 0, c))
            h.append(("reload", 1, 0))
            h.append(("free", 1, 0))
            h.append(("exit", 1, 0))
        if h[-1][0] not in ("load", "exit", "race"):
            h.append(("load", 1, 0))
    h.append(("load", 1, 0))
    return h


def shipped_cache_jobs(prs, root):
    """Caches shipped in the package directory of the tree under test (if any): placed next to a
    copy of the shipped model file in a read-only directory; the run must equal the cache-less
    reference (catches a loader change without a format-version bump)."""
    jobs = []
    for name, pr in prs.items():
        t = pr.t
        d = os.path.join(env.REPO, "osaca", "data", os.path.dirname(t.rel))
        found = sorted(glob.glob(os.path.join(d, ".%s_*.pickle" % t.stem)))
        if not found:
            continue
        jobs.append((pr, found))
    return jobs


def run_shipped(pr, found, home):
    sb = pr.template.clone(home)
    try:
        for f in found:
            shutil.copyfile(f, os.path.join(sb.dir_of(pr.t), os.path.basename(f)))
        sb.set_writable(pr.t, False)
        res = cc.free_run(pr.t, sb, pr.mode)[0]
        if not res["ok"]:
            return [cc.event("load", 1, 0, "failed", ())], [dict(res, p=1, event=0)]
        return [cc.event("load", 1, 0, "done", pr.result_ids(res["out"]))], []
    finally:
        sb.destroy()


# ------------------------------------------------------------------------------- main
def main(tier="quick", seed=0):
    run = Run("C17", tier, seed)
    rnd = random.Random(seed)
    t_start = time.time()
    shutil.rmtree(WORKROOT, ignore_errors=True)
    os.makedirs(WORKROOT)
    try:
        return _main(run, tier, seed, rnd, t_start)
    finally:
        for root, dirs, _ in os.walk(WORKROOT):
            for d in dirs:
                try:
                    os.chmod(os.path.join(root, d), 0o755)
                except OSError:
                    pass
        shutil.rmtree(WORKROOT, ignore_errors=True)


def _main(run, tier, seed, rnd, t_start):
    quick = tier == "quick"
    run.rule = ("R2: maximal action paths of TLC's transition cover of MC_ModelCache (sequential histories; "
                "two cold starters interleaved step by step) plus TLC's counterexamples, executed on the real "
                "loader; R3: seeded API-level histories.  A case is one history; non-trivial = it contains a "
                "finished run that was served from a cache file or followed an edit / crash / environment action")
    threads, res, emits, errors = model_checking(run, tier)

    # ---- references (pristine sandboxes), in parallel with TLC
    T = cc.targets()
    cli_names = ["zen1", "n1", "isa-x86"] if quick else ["zen1", "n1", "isa-x86", "isa-aarch64", "tx2", "zen4"]
    api_names = cc.API_MODELS_QUICK if quick else cc.API_MODELS_THOROUGH
    api_names = api_names + (["isa-x86"] if quick else ["isa-x86", "isa-aarch64"])
    prs, aprs = {}, {}
    with concurrent.futures.ThreadPoolExecutor(max_workers=16) as ex:
        f1 = {n: ex.submit(cc.prepare, T[n], os.path.join(WORKROOT, "cli"), "cli", 2) for n in cli_names}
        f2 = {n: ex.submit(cc.prepare, cc.api_target(n), os.path.join(WORKROOT, "api"), "api", 3)
              for n in api_names}
        for n, f in f1.items():
            prs[n] = f.result()
        for n, f in f2.items():
            aprs[n] = f.result()
    for pr in list(prs.values()) + list(aprs.values()):
        cc.make_old_version(pr)
        for c in pr.contents:
            if len(pr.names.get(c, {})) != 2 or c not in pr.pick:
                raise RuntimeError("could not identify the cache files of %s: %r" % (pr.t.name, pr.problems))
        for prob in pr.problems:
            # a warm run that differs from the cold run in a pristine sandbox is itself a violation
            run.fail("C17:pristine:%s" % prob.split(":")[1].strip().replace(" ", "-"),
                     "%s: %s" % (pr.t.name, prob), {"target": pr.t.name, "problem": prob})
    for n, pr in prs.items():
        if pr.ref[1] == pr.ref[2]:
            raise RuntimeError("edit of %s does not change the report; cannot detect stale caches" % n)
    run.note("setup_wall_s", round(time.time() - t_start, 1))

    ce, covers = collect_r1(run, threads, res, emits, errors)
    run.note("r1_wall_s", round(time.time() - t_start, 1))

    # ---- job list: counterexamples, transition-cover paths (R2), seeded histories (R3)
    jid = [0]

    def job(pr, path, kind, mode="cli"):
        jid[0] += 1
        meta = {"id": "%s%d" % (kind[0], jid[0]), "target": pr.t.name, "mode": mode, "kind": kind,
                "path": [list(s) for s in path]}
        return (pr, path, os.path.join(WORKROOT, "run", "j%d" % jid[0]), meta)

    names = list(prs)
    ce_jobs = [job(pr, p, "counterexample:" + k) for n, pr in prs.items() for k, p in sorted(ce.items())]
    seq_first, seq_rest, seq_classes, seq_trans = order_paths(covers["cover_seq"], rnd)
    race_first, race_rest, race_classes, race_trans = order_paths(covers["cover_race"], rnd)
    seq_jobs = [job(prs[names[i % len(names)]], p, "seq-cover") for i, p in enumerate(seq_first + seq_rest)]
    race_jobs = [job(prs[names[(i + 1) % len(names)]], p, "race-cover") for i, p in enumerate(race_first + race_rest)]
    hist_jobs = []
    nh = 2 if quick else 6
    hl = 7 if quick else 12
    for n, pr in aprs.items():
        big = len(pr.contents[1]) > 150000
        for k in range(nh if not big else max(1, nh // 3)):
            h = gen_history(random.Random("%s-%s-%d" % (seed, n, k)), hl if not big else hl // 2)
            hist_jobs.append(job(pr, h, "history", "api"))

    def mix(a, b, na, nb):
        out = []
        while a or b:
            out += a[:na]
            a = a[na:]
            out += b[:nb]
            b = b[nb:]
        return out

    n1, n2 = len(seq_first), len(race_first)
    # class-covering prefixes of both covers and the histories interleaved, then the remaining paths
    head = mix(mix(seq_jobs[:n1], race_jobs[:n2], 3, 2), hist_jobs, 5, 1)
    if quick:
        # fixed job list in the quick tier (the deadline below is only a safety net on a loaded machine)
        head = mix(mix(seq_jobs[:min(n1, 120)], race_jobs[:min(n2, 80)], 3, 2), hist_jobs, 5, 1)
        jobs = ce_jobs + head
    else:
        jobs = ce_jobs + head + mix(seq_jobs[n1:], race_jobs[n2:], 4, 1)
    deadline = t_start + (66 if quick else 760)
    allres = execute(jobs, deadline)
    results = [r for r in allres if r[0]["kind"] != "history"]
    hres = [r for r in allres if r[0]["kind"] == "history"]
    done_kinds = {}
    for meta, events, fails, _ in allres:
        done_kinds[meta["kind"]] = done_kinds.get(meta["kind"], 0) + 1
    judge(run, results, "R2")
    # shipped package caches
    sres = []
    for pr, found in shipped_cache_jobs(prs, WORKROOT):
        jid[0] += 1
        ev, fails = run_shipped(pr, found, os.path.join(WORKROOT, "run", "s%d" % jid[0]))
        sres.append(({"id": "s%d" % jid[0], "target": pr.t.name, "mode": "cli", "kind": "shipped",
                      "path": [["shipped-cache", 1, 0]]}, ev, fails, 0))
    judge(run, hres + sres, "R3")
    for meta, events, fails, _ in allres + sres:
        if _nontrivial(events):
            run.mark(meta["id"])
    for meta, events, fails, _ in results[:1] + results[len(ce_jobs):len(ce_jobs) + 2]:
        run.sample({"id": meta["id"], "kind": meta["kind"], "target": meta["target"], "path": meta["path"],
                    "observed": [(e["a"], e["p"], e["x"], e["nx"], e["res"]) for e in events]}, limit=3)
    if hres:
        meta, events, _, _ = hres[0]
        run.sample({"id": meta["id"], "kind": "history", "target": meta["target"], "history": meta["path"],
                    "observed": [(e["a"], e["p"], e["x"], e["nx"], e["res"], e["ck"], e["hk"]) for e in events]},
                   limit=4)

    def cov_of(recs_first, njobs_done, total_paths, classes, trans):
        return {"transitions": trans, "classes": classes, "maximal_paths": total_paths,
                "class_covering_paths": recs_first, "paths_replayed": njobs_done}

    run.note("r2", {
        "transition_cover_sequential": cov_of(n1, done_kinds.get("seq-cover", 0), len(seq_jobs), seq_classes, seq_trans),
        "transition_cover_race": cov_of(n2, done_kinds.get("race-cover", 0), len(race_jobs), race_classes, race_trans),
        "counterexamples_replayed": sum(v for k, v in done_kinds.items() if k.startswith("counterexample")),
        "targets": names,
        "runs_of_the_real_loader": sum(1 for _, ev, _, _ in results for e in ev if e["nx"] in ("done", "failed")),
    })
    run.note("r3", {"api_histories": len(hres), "of": len(hist_jobs), "api_models": list(aprs),
                    "events": sum(len(ev) for _, ev, _, _ in hres),
                    "shipped_package_caches_checked": [m["target"] for m, _, _, _ in sres],
                    "loads": sum(1 for _, ev, _, _ in hres for e in ev if e["nx"] in ("done", "failed"))})
    run.note("jobs_wall_s", round(time.time() - t_start, 1))
    run.add_eval(sum(len(ev) for _, ev, _, _ in results + hres + sres))
    run.exhaustive = False
    run.assume("sha256 is modelled as injective; a cache file is a sequence of 4 cells (header, first half, "
               "second half, last byte)")
    run.assume("a process is held at a file-system interaction by substituting Path/open/os/pickle of "
               "osaca.semantics.hw_model inside the child interpreter; pickle.dump is replaced by dumps + 4 "
               "flushed writes")
    run.assume("read-only data directory = chmod 555 and the child started through setpriv without "
               "CAP_DAC_OVERRIDE (the harness runs as uid 0)")
    run.assume("a report is projected to the set of content ids whose cache-less reference is the same text; "
               "content 2 raises every instruction latency by 3 cycles (arch models) or removes the forms of "
               "some mnemonics (ISA databases), content 3 appends a comment")
    # unbounded-step argument for the repaired write protocol (Apalache, inductive invariant)
    from harness import apalache
    apalache.cache_induction(run)
    return run.finish()


def _nontrivial(events):
    special = False
    for e in events:
        if e["a"] in ("edit", "toggle", "foreign", "oldversion", "legacy", "crash", "crashload", "reload"):
            special = True
        if e["nx"] == "done" and (special or e["a"] in ("readC", "readH")):
            return True
        if e["a"] in ("load", "rload") and e["nx"] in ("done", "failed") and special:
            return True
    return False


def replay(path):
    with open(path) as f:
        rec = json.load(f)
    c = rec["case"]
    print("replaying", rec["signature"])
    if "path" not in c:
        print(json.dumps(c, indent=1)[:2000])
        return 0
    shutil.rmtree(WORKROOT, ignore_errors=True)
    os.makedirs(WORKROOT)
    try:
        mode = c.get("mode", "cli")
        if mode == "cli":
            pr = cc.prepare(cc.targets()[c["target"]], WORKROOT, "cli", 2)
        else:
            pr = cc.prepare(cc.api_target(c["target"]), WORKROOT, "api", 3)
        cc.make_old_version(pr)
        if c["path"] and c["path"][0][0] == "shipped-cache":
            found = shipped_cache_jobs({c["target"]: pr}, WORKROOT)
            events, fails = run_shipped(pr, found[0][1], os.path.join(WORKROOT, "replay")) if found else ([], [])
        else:
            events, fails = cc.run_path(pr, [tuple(s) for s in c["path"]], os.path.join(WORKROOT, "replay"))
        for e in events:
            print("  %-10s p=%d x=%d -> %-8s result=%s companion=%s home=%s" % (
                e["a"], e["p"], e["x"], e["nx"], e["res"], e["ck"], e["hk"]))
        for fl in fails:
            print("  failed run:", fl.get("exc"), fl.get("where"))
        _, r = tlc.batch_validate("Trace_ModelCache", "Trace_ModelCache", [{"id": "replay", "events": events}],
                                  tag="c17-replay")
        rejects = [(v[1], v[2], v[3:]) for v in cc.printed_tuples(r.raw, "REJECT")]
        for cid, clause, rest in rejects:
            print("REJECT", clause, rest)
        print("reproduced" if rejects else "not reproduced")
        return 1 if rejects else 0
    finally:
        for root, dirs, _ in os.walk(WORKROOT):
            for d in dirs:
                try:
                    os.chmod(os.path.join(root, d), 0o755)
                except OSError:
                    pass
        shutil.rmtree(WORKROOT, ignore_errors=True)
