"""C08  Memory-operand forms compose register-form data with load/store data.

R1  TLC checks the kernel-level state machine specs/MC_Compose.tla (LookupOwn / LookupReg /
    MarkUnknown / PickRows / Combine, the model's load/store tables being part of the state)
    against the Level-A properties Inert (every instruction gets the numbers it gets alone on
    the model as shipped), TablesUnchanged, UnknownIsZero, UnknownIffNeither, ComposedDominates
    on 32 table variants (rows per shape and type / wildcard rows / typed-only rows / none,
    defaults, multipliers) x all kernels up to length 2 (thorough: 3) over 14 instruction
    forms (load, store, read-modify-write x 2 shapes x 2 register types, unknown, own entry,
    register form) for both ISAs.  A second run with the named deviation "InPlaceRowExtension"
    switched on must VIOLATE Inert; its counterexample kernel is replayed on the code.
R2  Every terminal state (model, kernel, per-instruction results) is emitted by TLC; the
    harness renders the models to YAML, the kernels to assembly, runs the real parser and
    ArchSemantics.add_semantics and compares the projected numbers (units of 1/12000 cycle).
R3  Seeded random synthetic models (random tables, defaults, multipliers, latencies; memory
    operand in any position and role; kernels with repeated and read-modify-write forms) and a
    curated vocabulary of real instructions on shipped models are recorded and validated by
    TLC (Trace_Compose), which follows each kernel with the model tables as state and names
    the deviation (or the field) that explains a rejected kernel."""
import concurrent.futures
import copy
import json
import os
import random
import re
import time

from harness import env, synth, tlc
from harness import lookup_common as lc
from harness.verdict import Run, VERIF

PID = "C08"
U = 12000
UNK = ("tp_unknown", "lt_unknown")


class Unrepresentable(Exception):
    pass


class Rec:
    """What a worker process wants to tell the Run object of the main process."""

    def __init__(self):
        self.mc, self.fails, self.marks, self.samples, self.notes, self.divs = [], [], [], [], {}, []
        self.traces = 0

    def add_mc(self, r, label):
        r.raw = ""
        self.mc.append((r, label))

    def fail(self, sig, what, case):
        self.fails.append((sig, what, case))

    def mark(self, key):
        self.marks.append(key)

    def sample(self, obj):
        self.samples.append(obj)

    def note(self, k, v):
        self.notes[k] = v

    def divergence(self, kind, obj):
        self.divs.append((kind, obj))

    def add_traces(self, n):
        self.traces += n

    def merge_into(self, run):
        for r, label in self.mc:
            run.add_mc(r, label)
        for f in self.fails:
            run.fail(*f)
        for m in self.marks:
            run.mark(m)
        for x in self.samples:
            run.sample(x)
        for k, v in self.notes.items():
            run.note(k, v)
        for d in self.divs:
            run.divergence(*d)
        run.add_traces(self.traces)


def units(x):
    if x is None:
        raise Unrepresentable("None")
    v = x * U
    r = int(round(v))
    if abs(v - r) > 1e-6 * U:
        raise Unrepresentable(repr(x))
    return r


# ------------------------------------------------------------------------------------ spec model -> files
def _ports(np):
    return [str(q) for q in range(np)]


def _uops_yaml(u):
    return [[x["c"] / U, [str(q - 1) for q in x["p"]]] for x in u]


def _row_yaml(isa, row, key):
    m = row["mem"]
    d = {"base": m["b"] or None, "offset": m["o"] or None, "index": m["i"] or None,
         "scale": {"1": 1, "n": 8, "*": "*", "": None}[m["sc"]], "port_pressure": _uops_yaml(row["u"])}
    if isa == "aarch64":
        d["pre_indexed"] = lc._FLAG[m["pre"]]
        d["post_indexed"] = lc._FLAG[m["post"]]
    if row["ty"]:
        d[key] = row["ty"]
    return d


def write_model(d, model, isa_forms, tag):
    """Render the abstract model record of Compose.tla to a YAML arch model + ISA DB."""
    isa = model["isa"]
    forms = []
    for e in model["entries"]:
        forms.append({"name": "".join(e["n"]), "operands": [lc.entry_yaml(isa, k) for k in e["ops"]],
                      "throughput": e["tp"] / U, "latency": e["lat"] / U, "port_pressure": _uops_yaml(e["u"])})
    extras = {}
    if model["hasldm"]:
        extras["load_throughput_multiplier"] = {t["ty"]: t["lm"] / 2 for t in model["types"]}
    if model["hasstm"]:
        extras["store_throughput_multiplier"] = {t["ty"]: t["sm"] / 2 for t in model["types"]}
    a = synth.write_arch_model(
        os.path.join(d, "m-%s.yml" % tag), isa, _ports(model["np"]), forms,
        load_throughput=[_row_yaml(isa, r, "dst") for r in model["ld"]],
        store_throughput=[_row_yaml(isa, r, "src") for r in model["st"]],
        load_default=_uops_yaml(model["ldd"]), store_default=_uops_yaml(model["std"]),
        load_latency={t["ty"]: t["lat"] / U for t in model["types"]}, extras=extras)
    i = synth.write_isa_db(os.path.join(d, "isa-%s.yml" % tag), isa, isa_forms)
    return a, i


def isa_forms_for(isa, instrs):
    """ISA-DB entries (register forms with source/destination flags) that give every instruction
    of `instrs` the roles the abstract instruction declares."""
    out, seen = [], set()
    for ins in instrs:
        key = ("".join(ins["n"]).lower(), len(ins["ops"]))
        ops = []
        for k, r in zip(ins["ops"], ins["roles"]):
            o = {"class": "register", "name": "*"} if isa == "x86" else {"class": "register", "prefix": "*"}
            if k["k"] == "imm":
                o = {"class": "immediate", "imd": "int" if isa == "x86" else "*"}
            o["source"] = r in ("s", "sd")
            o["destination"] = r in ("d", "sd")
            ops.append(o)
        sig = (key, json.dumps(ops, sort_keys=True))
        if sig in seen:
            continue
        seen.add(sig)
        out.append({"name": key[0], "operands": ops})
    return out


class Tables:
    """Harness hygiene: the tables of a loaded model are restored before every kernel, so that a
    model object can be reused although the code under test may modify it (F8)."""

    def __init__(self, mm):
        self.lists = []
        for key in ("load_throughput", "store_throughput"):
            for row in mm._data.get(key, []):
                self.lists.append((row[1], copy.deepcopy(row[1])))
        for key in ("load_throughput_default", "store_throughput_default"):
            v = mm._data.get(key)
            if isinstance(v, list):
                self.lists.append((v, copy.deepcopy(v)))

    def restore(self):
        for lst, saved in self.lists:
            if lst != saved:
                lst[:] = copy.deepcopy(saved)


# ------------------------------------------------------------------------------------ projection
def project_result(form, ports):
    unk = all(f in form.flags for f in UNK)
    idx = {p: i + 1 for i, p in enumerate(ports)}
    uo = []
    if not unk:
        pu = form.port_uops
        if isinstance(pu, dict):
            raise Unrepresentable("alternative port assignments")
        for c, ps in pu:
            uo.append({"c": units(c), "p": sorted(idx[p] for p in ps)})
        uo.sort(key=lambda x: (x["c"], x["p"]))
    return {"unk": unk, "lu": "lt_unknown" in [str(f) for f in form.flags], "tp": units(form.throughput), "lat": units(form.latency),
            "lw": units(form.latency_wo_load), "pr": [units(x) for x in form.port_pressure], "uo": uo}


def canon_result(r):
    return json.dumps({"unk": r["unk"], "lu": r.get("lu"), "tp": r["tp"], "lat": r["lat"], "lw": r["lw"], "pr": list(r["pr"]),
                       "uo": sorted(([x["c"], sorted(x["p"])] for x in r["uo"]))}, sort_keys=True)


def _load_mem_role():
    try:
        with open(os.path.join(os.path.dirname(os.path.dirname(os.path.dirname(os.path.abspath(__file__)))), "vocab", "mem_forms.json")) as fh:
            return json.load(fh).get("_mem_role", {})
    except Exception:  # noqa
        return {}


MEM_ROLE = _load_mem_role()


def observed_roles(form):
    so = form.semantic_operands
    roles = []
    for o in form.operands:
        r = "-"
        if any(o is x for x in so["src_dst"]):
            r = "sd"
        elif any(o is x for x in so["source"]):
            r = "s"
        elif any(o is x for x in so["destination"]):
            r = "d"
        roles.append(r)
    return roles


_X86_VEC = re.compile(r"^(xmm|ymm|zmm|mm|k)\d+$")


def project_written(isa, o):
    """abstraction of a parsed (written) operand; cross-checked against kinds known by
    construction on the synthetic cases."""
    tn = type(o).__name__

    def x86cls(r):
        n = r.name.lower()
        m = _X86_VEC.match(n)
        if m:
            return m.group(1)
        return "st" if n.startswith("st") else "gpr"
    if tn == "RegisterOperand":
        if isa == "x86":
            return lc.K("reg", c=x86cls(o))
        return lc.K("reg", c=o.prefix, s=o.shape or "")
    if tn == "ImmediateOperand":
        return lc.K("imm", t="int" if isa == "x86" else (o.imd_type or "int"))
    if tn == "IdentifierOperand":
        return lc.K("id")
    if tn == "ConditionOperand":
        return lc.K("cc", t=o.ccode.upper())
    if tn == "PrefetchOperand":
        return lc.K("prf", t="pldl1keep")
    if tn == "MemoryOperand":
        def cls(r):
            if r is None:
                return ""
            return x86cls(r) if isa == "x86" else r.prefix
        off = o.offset
        if off is None:
            ok = ""
        elif type(off).__name__ == "ImmediateOperand":
            ok = "imd0" if off.value in (0, "0") else "imd"
        else:
            ok = "id"
        k = lc.K("mem", b=cls(o.base), o=ok, i=cls(o.index), sc="1" if o.scale == 1 else "n", pre="f", post="f")
        if isa == "aarch64":
            k["pre"] = "t" if o.pre_indexed else "f"
            k["post"] = "t" if o.post_indexed else "f"
        return k
    raise ValueError("unknown operand %r" % (o,))


# ------------------------------------------------------------------------------------ TLC (R1)
ACTIONS = ("LookupOwn", "LookupReg", "MarkUnknown", "PickRows", "Combine")


def _run_cfg(cfg, coverage=False):
    out = os.path.join(tlc.WORK, "c08-%s-%d.ndjson" % (cfg, os.getpid()))
    hdr = out + ".hdr"
    for p in (out, hdr):
        if os.path.exists(p):
            os.unlink(p)
    r = tlc.run_tlc("MC_Compose", cfg, env={"OUTFILE": out, "HDRFILE": hdr}, workers=8, timeout=2400,
                    coverage=coverage)
    if coverage:
        vac = [a for a in ACTIONS if r.coverage.get(a, (0, 0))[0] == 0]
        if vac:
            raise tlc.TLCError("%s: actions never taken: %s" % (cfg, vac))
    recs, h = tlc.read_emitted(out), tlc.read_emitted(hdr)
    for p in (out, hdr):
        if os.path.exists(p):
            os.unlink(p)
    return r, h, recs


def _f8_counterexample(run, isa):
    """The machine with the named deviation must violate Inert; returns (mi, kern) of the witness."""
    r = tlc.run_tlc("MC_Compose", "MC_Compose_%s_f8" % isa, env={"OUTFILE": os.devnull, "HDRFILE": os.devnull},
                    workers=4, timeout=900, allow_violation=True)
    if "Inert" not in r.violated:
        raise tlc.TLCError("MC_Compose_%s_f8: the deviation InPlaceRowExtension does not violate Inert" % isa)
    kern = re.findall(r"/\\ kern = <<([0-9, ]+)>>", r.raw)
    mi = re.findall(r"/\\ mi = (\d+)", r.raw)
    run.add_mc(r, "MC_Compose_%s_f8 (expected violation of Inert)" % isa)
    return int(mi[-1]), [int(x) for x in kern[-1].split(",")]


# ------------------------------------------------------------------------------------ drive a kernel
def run_kernel(sem, parser, tables, protos, kern, ports):
    tables.restore()
    forms = []
    for n, i in enumerate(kern, 1):
        f = copy.deepcopy(protos[i])
        f.line_number = n
        forms.append(f)
    sem.add_semantics(forms)
    res = [project_result(f, ports) for f in forms]
    tables.restore()
    return forms, res


def ins_class(ins):
    mem = [(k, r) for k, r in zip(ins["ops"], ins["roles"]) if k["k"] == "mem"]
    if not mem:
        return "nomem"
    k, r = mem[0]
    role = {"s": "ld", "d": "st", "sd": "rmw"}.get(r, "norole")
    idx = "pre" if k["pre"] == "t" else ("post" if k["post"] == "t" else "plain")
    return "%s:%s" % (role, idx)


def signature(isa, stage, verdict, devs, k0, kernel):
    ins = kernel[k0 - 1] if 0 < k0 <= len(kernel) else None
    cls = ins_class(ins) if ins else "-"
    if verdict == "dev":
        before = sorted(set(ins_class(x).split(":")[0] for x in kernel[:k0 - 1])) if k0 > 1 else []
        tail = ":after=%s" % "+".join(before) if "InPlaceRowExtension" in devs else ""
        return "C08:%s:%s:dev=%s:%s%s" % (isa, stage, "+".join(sorted(devs)), cls, tail)
    return "C08:%s:%s:%s:%s" % (isa, stage, verdict, cls)


def classify(run, cases, info, stage):
    """Trace_Compose on recorded kernels; every rejected kernel is reported."""
    if not cases:
        return
    chunks = [cases[i:i + 1300] for i in range(0, len(cases), 1300)]

    def one(ix):
        return tlc.batch_validate("Trace_Compose", "Trace_Compose", chunks[ix], tag="c08-%s-%d" % (stage, ix), timeout=2400)
    with concurrent.futures.ThreadPoolExecutor(min(6, len(chunks))) as ex:
        results = list(ex.map(one, range(len(chunks))))
    byid = {c["id"]: c for c in cases}
    classes = run.extra.setdefault("rejected_by_class", {})
    for ix, (rejects, r) in enumerate(results):
        run.add_mc(r, "Trace_Compose_%s_%d" % (stage, ix))
        for cid, verdict, extra in rejects:
            run.extra.setdefault("_rejected_ids", []).append(cid)
            c = byid[cid]
            devs, k0 = (extra[0], extra[1]) if len(extra) >= 2 else ([], 0)
            inf = info.get(cid, {})
            what = "%s kernel %s: instruction %d %r -> %s%s; observed %s" % (
                inf.get("where", stage), inf.get("lines"), k0, (inf.get("lines") or [None] * k0)[k0 - 1] if k0 else None,
                verdict, (" " + "+".join(sorted(devs))) if devs else "",
                canon_result(c["obs"][k0 - 1]) if k0 else "-")
            # a kernel explained by several named deviations is reported once per deviation, so that
            # every deviation has to be a known finding on its own
            st = stage
            if inf.get("arch"):
                st = "shipped:%s" % inf["arch"]
            for dv in (sorted(devs) if verdict == "dev" else [None]):
                sig = signature(c["model"]["isa"], st, verdict, [dv] if dv else [], k0, c["kernel"])
                if inf.get("arch") and verdict != "dev" and k0:
                    sig += ":" + "".join(c["kernel"][k0 - 1]["n"]).lower()
                classes[sig] = classes.get(sig, 0) + 1
                run.fail(sig, what, dict(inf, case=c, verdict=verdict, devs=devs, position=k0))


# ------------------------------------------------------------------------------------ R2
def _r2(args):
    isa, tier = args
    run = Rec()
    # (cfg, kernel length bound, only kernels of exactly this length are replayed (0 = all))
    cfgs = [("MC_Compose_%s" % isa, 2, 0)]
    if tier == "thorough":
        cfgs.append(("MC_Compose_%s_k3" % isa, 3, 3))
    d = env.scratch("c08-r2-%s-%d" % (isa, os.getpid()))
    bad_cases, info = [], {}
    n_run = 0
    models_all, instrs, lines, isaf = {}, None, None, None
    for cfg, maxk, only_len in cfgs:
        r, hdr, recs = _run_cfg(cfg, coverage=(tier == "thorough" and maxk == 2))
        run.add_mc(r, cfg)
        models = {h["mi"]: h["model"] for h in hdr}
        models_all.update(models)
        instrs = hdr[0]["ins"]
        by = {}
        for rec in recs:
            by.setdefault(rec["mi"], {}).setdefault(tuple(rec["kern"]), set()).add(tuple(canon_result(o) for o in rec["out"]))
        expect = len(models) * sum(len(instrs) ** k for k in range(1, maxk + 1))
        got_n = sum(len(v) for v in by.values())
        if got_n != expect or not models:
            raise tlc.TLCError("%s: terminal states for %d (model, kernel) pairs, expected %d" % (cfg, got_n, expect))
        isaf = isa_forms_for(isa, instrs)
        lines = {i: lc.render_line(isa, "".join(ins["n"]), ins["ops"], lc.FIRST) for i, ins in enumerate(instrs, 1)}
        for mi in sorted(models):
            model = models[mi]
            a, i = write_model(d, model, isaf, "%s-%d" % (cfg, mi))
            mm, sem, parser = synth.load(a, i)
            tables = Tables(mm)
            ports = _ports(model["np"])
            protos = {}
            for j, ins in enumerate(instrs, 1):
                protos[j] = parser.parse_line(lines[j])
                kinds = [lc.clean(project_written(isa, o)) for o in protos[j].operands]
                if kinds != [lc.clean(k) for k in ins["ops"]]:
                    raise RuntimeError("rendering of %r does not parse to the intended kinds: %s" % (lines[j], kinds))
            for kern, allowed in by[mi].items():
                if only_len and len(kern) != only_len:
                    continue
                try:
                    forms, res = run_kernel(sem, parser, tables, protos, kern, ports)
                except Unrepresentable as ex:
                    run.fail("C08:%s:r2:unrepresentable" % isa, "value off the 1/12000 lattice: %s" % ex,
                             {"mi": mi, "kern": kern, "lines": [lines[x] for x in kern]})
                    continue
                except Exception as ex:  # noqa
                    run.fail("C08:%s:exception:add_semantics:r2" % isa, "%s: kernel %s on model %d raised %s: %s" % (
                        isa, [lines[x] for x in kern], mi, type(ex).__name__, ex),
                        {"mi": mi, "kern": kern, "lines": [lines[x] for x in kern]})
                    continue
                n_run += 1
                for f, x in zip(forms, kern):
                    if observed_roles(f) != instrs[x - 1]["roles"]:
                        raise RuntimeError("roles of %r are %s, intended %s (ISA DB rendering)" % (
                            lines[x], observed_roles(f), instrs[x - 1]["roles"]))
                got = tuple(canon_result(o) for o in res)
                if got not in allowed:
                    cid = "r2|%s|%d|%s" % (isa, mi, "-".join(map(str, kern)))
                    bad_cases.append({"id": cid, "model": model, "kernel": [instrs[x - 1] for x in kern], "obs": res})
                    info[cid] = {"where": "r2 model %d" % mi, "lines": [lines[x] for x in kern], "mi": mi,
                                 "kern": list(kern), "isa": isa}
                if len(kern) > 1 and sum(1 for x in kern if ins_class(instrs[x - 1]) != "nomem") > 1:
                    run.mark("r2|%s|%d|%s" % (isa, mi, kern))
    run.add_traces(n_run)
    run.sample({"stage": "r2", "isa": isa, "kernel": [lines[1], lines[5]], "models": len(models_all)})
    # the deviation switched on in the model: TLC's counterexample must be reproducible on the code
    f8 = None
    mi, kern = _f8_counterexample(run, isa)
    model = models_all[mi]
    try:
        a, i = write_model(d, model, isaf, "f8-%d" % mi)
        mm, sem, parser = synth.load(a, i)
        protos = {j: parser.parse_line(lines[j]) for j in range(1, len(instrs) + 1)}
        forms, res = run_kernel(sem, parser, Tables(mm), protos, kern, _ports(model["np"]))
        cid = "r2-f8|%s|%d|%s" % (isa, mi, "-".join(map(str, kern)))
        case = {"id": cid, "model": model, "kernel": [instrs[x - 1] for x in kern], "obs": res}
        f8 = (case, {cid: {"where": "counterexample of MC_Compose_%s_f8" % isa, "lines": [lines[x] for x in kern],
                           "isa": isa, "mi": mi}})
    except Exception as ex:  # noqa
        run.fail("C08:%s:exception:add_semantics:r2-f8" % isa, "kernel %s raised %s: %s" % (
            [lines[x] for x in kern], type(ex).__name__, ex), {"mi": mi, "kern": kern})
    run.note("r2_kernels_%s" % isa, n_run)
    import shutil
    shutil.rmtree(d, ignore_errors=True)
    return isa, run, bad_cases, info, f8


# ------------------------------------------------------------------------------------ R3: random models
def _rand_uops(rnd, np, data_ports, n):
    out = []
    for _ in range(n):
        k = rnd.choice([1, 1, 2, 3])
        ps = sorted(rnd.sample(data_ports, min(k, len(data_ports))))
        out.append({"c": rnd.choice([6000, 12000, 12000, 18000, 24000]), "p": ps})
    return out


def _rand_shape(isa, rnd, wild=True):
    dflt = "gpr" if isa == "x86" else "x"
    w = (lambda opts: rnd.choice(opts + ["*"])) if wild else (lambda opts: rnd.choice(opts))
    if isa == "x86":
        return lc.K("mem", b=w([dflt, dflt, ""]), o=w(["", "imd"]), i=w(["", dflt]), sc=w(["1", "n"]), pre="f", post="f")
    pre, post = rnd.choice([("f", "f"), ("f", "f"), ("t", "f"), ("f", "t")])
    return lc.K("mem", b=w([dflt]), o=w(["", "imd"]), i=w(["", dflt]), sc=w(["1", "n"]), pre=pre, post=post)


def _rand_written_mem(isa, rnd):
    dflt = "gpr" if isa == "x86" else "x"
    if isa == "x86":
        i = rnd.choice(["", dflt])
        # a symbol as displacement (`sym(%rax)`) is a third kind of offset next to none and an immediate
        return lc.K("mem", b=dflt, o=rnd.choice(["", "imd", "imd", "id"]), i=i, sc=(rnd.choice(["1", "n"]) if i else "1"), pre="f", post="f")
    i = rnd.choice(["", "", dflt])
    o = "" if i else rnd.choice(["", "imd"])
    pre, post = rnd.choice([("f", "f"), ("f", "f"), ("t", "f"), ("f", "t")])
    return lc.K("mem", b=dflt, o=o, i=i, sc=(rnd.choice(["1", "n"]) if i else "1"), pre=pre, post=post)


def _r3_random(args):
    isa, seed, n_models, n_kernels = args
    run = Rec()
    rnd = random.Random("%s-c08-r3-%s" % (seed, isa))
    d = env.scratch("c08-r3-%s-%d" % (isa, os.getpid()))
    cases, info = [], {}
    types = ["gpr", "xmm", "ymm"] if isa == "x86" else ["x", "d", "q"]
    for mi in range(n_models):
        np = rnd.choice([4, 5, 6])
        allp = list(range(1, np + 1))
        alu, dat = allp[: np - 2], allp[np - 2:]
        ntypes = rnd.choice([2, 3])
        ty = types[:ntypes]
        tyrec = [{"ty": t, "lat": rnd.choice([0, 36000, 48000, 60000, 84000]), "lm": rnd.choice([1, 2, 2, 3, 4]),
                  "sm": rnd.choice([1, 2, 2, 3, 4])} for t in ty]
        # mnemonics: arity 2-3, one designated memory position with a role; register classes
        mns, entries, instrs_isa = [], [], []
        for j in range(rnd.choice([5, 6, 7])):
            name = "q%dz%d%s" % (mi, j, rnd.choice(["", "", "q" if isa == "x86" else ".s"]))
            ar = rnd.choice([2, 2, 3])
            mpos = (ar - 1) if isa == "aarch64" else rnd.randrange(ar)
            role = rnd.choice(["s", "d", "sd"])
            t = rnd.choice(ty)
            regs = [lc.K("reg", c=rnd.choice(ty)) for _ in range(ar)]
            regs[mpos] = lc.K("reg", c=t)
            if ar == 3 and rnd.random() < 0.3:
                p = rnd.choice([x for x in range(ar) if x != mpos])
                regs[p] = lc.K("imm", t="int")
            roles = []
            for p in range(ar):
                if p == mpos:
                    roles.append(role)
                elif regs[p]["k"] == "imm":
                    roles.append("s")
                else:
                    roles.append(rnd.choice(["s", "s", "d", "sd"]))
            has_reg = rnd.random() < 0.85
            has_own = rnd.random() < 0.15
            mns.append({"name": name, "ar": ar, "mpos": mpos, "roles": roles, "regs": regs, "has_reg": has_reg,
                        "has_own": has_own})
            dat_e = {"tp": rnd.choice([3000, 6000, 12000, 12000, 24000, 36000]),
                     "lat": rnd.choice([0, 12000, 36000, 48000, 72000]),
                     "u": _rand_uops(rnd, np, alu, rnd.choice([1, 1, 2]))}
            if has_own:
                ops = list(regs)
                ops[mpos] = _rand_shape(isa, rnd)
                if isa == "aarch64":
                    ops[mpos]["pre"] = ops[mpos]["post"] = "*"
                entries.append(dict(n=list(name), ops=ops, tp=rnd.choice([6000, 12000, 30000]),
                                    lat=rnd.choice([12000, 60000]), u=_rand_uops(rnd, np, allp, 2)))
            if has_reg:
                entries.append(dict(n=list(name), ops=list(regs), **dat_e))
            instrs_isa.append({"n": list(name), "ops": list(regs), "roles": roles})
        rnd.shuffle(entries)
        nld, nst = rnd.choice([0, 1, 2, 3, 4]), rnd.choice([0, 1, 2, 3, 4])
        model = {"isa": isa, "np": np, "entries": entries,
                 "ld": [{"mem": _rand_shape(isa, rnd), "ty": rnd.choice(ty + ["", ""]), "u": _rand_uops(rnd, np, dat + alu[:1], rnd.choice([1, 2]))}
                        for _ in range(nld)],
                 "ldd": _rand_uops(rnd, np, dat, 1),
                 "st": [{"mem": _rand_shape(isa, rnd), "ty": rnd.choice(ty + [""]), "u": _rand_uops(rnd, np, dat + alu[:1], rnd.choice([1, 2]))}
                        for _ in range(nst)],
                 "std": _rand_uops(rnd, np, dat, rnd.choice([1, 2])),
                 "hasldm": rnd.random() < 0.5, "hasstm": rnd.random() < 0.5, "types": tyrec}
        a, i = write_model(d, model, isa_forms_for(isa, instrs_isa), "r%d" % mi)
        mm, sem, parser = synth.load(a, i)
        tables = Tables(mm)
        ports = _ports(np)
        first_seen = {}
        for ki in range(n_kernels):
            kernel, lines = [], []
            n = rnd.choice([1, 2, 3, 3, 4, 6])
            pool = [rnd.choice(mns) for _ in range(rnd.choice([1, 2, 3]))]
            for _ in range(n):
                mn = rnd.choice(pool)
                r = rnd.random()
                ops = [copy.deepcopy(k) for k in mn["regs"]]
                name = mn["name"]
                if r < 0.08:
                    name = "zz" + name  # neither form
                if r < 0.9:
                    ops[mn["mpos"]] = _rand_written_mem(isa, rnd)
                roles = list(mn["roles"])
                if name != mn["name"]:
                    # unknown mnemonic: the ISA DB does not know it -> default roles
                    roles = (["s"] * (len(ops) - 1) + ["d"]) if isa == "x86" else (["d"] + ["s"] * (len(ops) - 1))
                ins = {"n": list(name), "ops": ops, "roles": roles}
                kernel.append(ins)
                lines.append(lc.render_line(isa, name, ops, rnd))
            forms = [parser.parse_line(ln, k + 1) for k, ln in enumerate(lines)]
            for f, ins, ln in zip(forms, kernel, lines):
                kinds = [lc.clean(project_written(isa, o)) for o in f.operands]
                if kinds != [lc.clean(k) for k in ins["ops"]]:
                    raise RuntimeError("rendering of %r does not parse to the intended kinds" % ln)
            tables.restore()
            cid = "r3|%s|%d|%d" % (isa, mi, ki)
            try:
                sem.add_semantics(forms)
                res = [project_result(f, ports) for f in forms]
            except Unrepresentable as ex:
                run.fail("C08:%s:r3:unrepresentable" % isa, "value off the 1/12000 lattice: %s" % ex, {"lines": lines})
                continue
            except Exception as ex:  # noqa
                run.fail("C08:%s:exception:add_semantics:random" % isa, "%s: kernel %s raised %s: %s" % (
                    isa, lines, type(ex).__name__, ex), {"lines": lines, "model": model})
                continue
            finally:
                tables.restore()
            for f, ins in zip(forms, kernel):
                ins["roles"] = observed_roles(f) if f.semantic_operands else ins["roles"]
            cases.append({"id": cid, "model": model, "kernel": kernel, "obs": res})
            for ln, r in zip(lines, res):
                first_seen.setdefault(ln, (r, cid))
            info[cid] = {"where": "random model %d" % mi, "lines": lines, "isa": isa}
            if len(kernel) > 1 and sum(1 for x in kernel if ins_class(x) != "nomem") > 1:
                run.mark(cid)
        # The composition is a function of the instruction and the model: every distinct line once more, alone, on a
        # FRESH model object and in the reverse order of its first appearance (what was looked up before it differs).
        try:
            mm2, sem2, parser2 = synth.load(a, i)
        except Exception:  # noqa
            mm2 = None
        for ln in (reversed(list(first_seen)) if mm2 is not None else ()):
            want, cid0 = first_seen[ln]
            try:
                f2 = parser2.parse_line(ln, 1)
                sem2.add_semantics([f2])
                got = project_result(f2, ports)
            except Exception:  # noqa - crashes and unrepresentable values are judged on the first analysis
                continue
            run.add_traces(1)
            if canon_result(got) != canon_result(want):
                run.fail("C08:%s:r3:composition-depends-on-what-was-analysed-before" % isa,
                         "%s random model %d: %r analysed alone on a fresh model object gives %s, inside %s (after other instructions "
                         "on the same model object) it gave %s" % (isa, mi, ln, canon_result(got), cid0, canon_result(want)),
                         {"line": ln, "model": model, "alone": got, "in_sequence": want})
    import shutil
    shutil.rmtree(d, ignore_errors=True)
    return isa, run, cases, info


# ------------------------------------------------------------------------------------ R3: shipped vocabulary
def _shipped_worker(args):
    arch, isa, vocab = args
    mm, sem, parser = synth.load_arch(arch)
    path = os.path.join(env.REPO, "osaca", "data", arch + ".yml")
    ports = list(mm.get_ports())
    tables = Tables(mm)
    order = lc.file_order_names(path)
    loaded = mm._data["instruction_forms_dict"]
    singles, multis = {}, {}
    for ridx, names in enumerate(order):
        for nm in names:
            (singles if len(names) == 1 else multis).setdefault(nm, []).append(ridx)

    def cands(NAME):
        objs = loaded.get(NAME, [])
        ridx = singles.get(NAME, []) + multis.get(NAME, [])
        if len(ridx) != len(objs):
            ridx = list(range(len(objs)))
        return [o for _, o in sorted(zip(ridx, objs), key=lambda x: x[0])]

    def uops_of(pp):
        if isinstance(pp, dict) or pp is None:
            raise Unrepresentable("alternatives / none")
        idx = {p: i + 1 for i, p in enumerate(ports)}
        return [{"c": units(c), "p": sorted(idx[p] for p in ps)} for c, ps in pp]

    def rows(key, tyattr):
        out = []
        for memop, pp in mm._data.get(key, []):
            k = lc.project_entry_operand(isa, memop)
            if k is None:
                raise Unrepresentable("table row outside the vocabulary")
            # the loader drops the pre-/post-index attributes of rows; they are read from the text below
            out.append({"mem": lc.clean(k), "ty": getattr(memop, tyattr) or "", "u": uops_of(pp)})
        return out
    cases, info, skipped = [], {}, []
    try:
        ld, st = rows("load_throughput", "dst"), rows("store_throughput", "src")
        if isa == "aarch64":
            # pre_indexed / post_indexed of the rows as declared in the file
            import ruamel.yaml
            head = ""
            with open(path) as f:
                for line in f:
                    if line.startswith("instruction_forms:"):
                        break
                    head += line
            raw = ruamel.yaml.YAML(typ="safe").load(head)
            for key, lst in (("load_throughput", ld), ("store_throughput", st)):
                for r, y in zip(lst, raw.get(key) or []):
                    r["mem"]["pre"] = {True: "t", False: "f", "*": "*"}[y.get("pre_indexed", False)]
                    r["mem"]["post"] = {True: "t", False: "f", "*": "*"}[y.get("post_indexed", False)]
        ldd, std = uops_of(mm._data["load_throughput_default"]), uops_of(mm._data["store_throughput_default"])
    except Exception as ex:  # noqa  (malformed table rows / defaults of a shipped model belong to C15)
        return arch, [], {}, [("load/store tables of the model", "%s: %s" % (type(ex).__name__, ex))], []
    lm = mm._data.get("load_throughput_multiplier")
    sm = mm._data.get("store_throughput_multiplier")
    def ent_units(x):
        return -1 if x is None else units(x)     # -1 = the entry declares no value

    def run_lines(lines):
        forms = [parser.parse_line(ln, k + 1) for k, ln in enumerate(lines)]
        sem.add_semantics(forms)
        return forms

    fails = []
    for vi, kernel_lines in enumerate(vocab):
        tables.restore()
        try:
            try:
                forms = run_lines(kernel_lines)
            except Exception as ex:  # noqa
                # which instruction raises, and at which stage?  (own entry found -> its data are malformed:
                # C15; no own entry but a register form -> the composition itself failed: C08)
                blamed = None
                for ln in kernel_lines:
                    tables.restore()
                    calls = []
                    orig = mm.get_instruction
                    mm.get_instruction = lambda n, o, _c=calls, _o=orig: (_c.append((any(isinstance(x, dict) for x in o), _o(n, o))) or _c[-1][1])
                    try:
                        run_lines([ln])
                    except Exception as ex2:  # noqa
                        own = any(r is not None for w, r in calls if not w)
                        regs = [r for w, r in calls if w and r is not None]
                        reg = bool(regs)
                        try:
                            # is the register form's own port list usable at all? (else: malformed entry, C15)
                            for r in regs[:1]:
                                uops_of(r.port_pressure)
                        except Exception:  # noqa
                            reg = False
                        blamed = (ln, own, reg, "%s: %s" % (type(ex2).__name__, ex2))
                    finally:
                        del mm.get_instruction
                    if blamed:
                        break
                if blamed and not blamed[1] and blamed[2]:
                    f0 = parser.parse_line(blamed[0])
                    fails.append(("C08:%s:exception:shipped:%s:%s:%s" % (isa, arch, blamed[3].split(":")[0], f0.mnemonic),
                                  "%s: composing %r (no own entry, register form found) raised %s" % (arch, blamed[0], blamed[3]),
                                  {"where": "shipped model %s" % arch, "lines": [blamed[0]], "arch": arch, "isa": isa}))
                else:
                    skipped.append((kernel_lines, "%s (entry data / parser: not C08)" % (blamed[3] if blamed else ex)))
                continue
            res = [project_result(f, ports) for f in forms]
            kernel, ents, tyset = [], [], set()
            for f in forms:
                kernel.append({"n": list(f.mnemonic), "ops": [lc.clean(project_written(isa, o)) for o in f.operands],
                               "roles": observed_roles(f)})
                # whether the memory operand is loaded, stored or both is the premise of the composition: for
                # the curated lines it is known from the architecture manuals (vocab/mem_forms.json _mem_role)
                for pos, (o, r) in enumerate(zip(f.operands, observed_roles(f))):
                    want = MEM_ROLE.get(isa, {}).get("%s:%d" % (f.mnemonic.lower(), pos))
                    if want and type(o).__name__ == "MemoryOperand" and r != want:
                        fails.append(("C08:%s:memory-role:%s:%s" % (isa, f.mnemonic.lower(), arch),
                                      "%s: memory operand of %r is analysed as %r, architecturally it is %r" % (arch, f.line.strip() if f.line else f.mnemonic, r, want),
                                      {"where": "shipped model %s" % arch, "lines": kernel_lines, "arch": arch, "isa": isa}))
            names = []
            for f in forms:
                for nm in (f.mnemonic.upper(), (lambda x: x.upper() if x else None)(_drop(isa, f.mnemonic))):
                    if nm and nm not in names:
                        names.append(nm)
            for nm in names:
                for o in cands(nm):
                    kinds = [lc.project_entry_operand(isa, op) for op in o.operands]
                    if any(k is None for k in kinds):
                        kinds = [lc.K("bad")] * max(len(kinds), 1)
                    for k in kinds:
                        if k["k"] == "reg":
                            tyset.add(k["c"])
                    e = {"n": list(nm), "ops": [lc.clean(k) for k in kinds], "tp": ent_units(o.throughput),
                         "lat": ent_units(o.latency), "u": uops_of(o.port_pressure)}
                    if e["tp"] < 0 or e["lat"] < 0:
                        # a form without throughput/latency that could serve as REGISTER form of a kernel
                        # instruction: the statement says nothing about composing with unknown numbers
                        for ins in kernel:
                            if len(ins["ops"]) == len(kinds) and any(x["k"] == "mem" for x in ins["ops"]) and all(
                                    (kk["k"] == "reg") for kk, x in zip(kinds, ins["ops"]) if x["k"] == "mem"):
                                raise Unrepresentable("register form without throughput/latency")
                    ents.append(e)
            tyrec = []
            for t in sorted((tyset | set(mm._data["load_latency"].keys())) - {"*"}):
                ll = mm._data["load_latency"].get(t)
                if ll is None:
                    ll = 0
                tyrec.append({"ty": t, "lat": units(ll), "lm": int(round(2 * lm[t])) if lm and t in lm else 2,
                              "sm": int(round(2 * sm[t])) if sm and t in sm else 2})
            model = {"isa": isa, "np": len(ports), "entries": ents, "ld": ld, "ldd": ldd, "st": st, "std": std,
                     "hasldm": bool(lm), "hasstm": bool(sm), "types": tyrec}
        except Unrepresentable as ex:
            skipped.append((kernel_lines, "unrepresentable: %s" % ex))
            continue
        except Exception as ex:  # noqa
            skipped.append((kernel_lines, "%s: %s" % (type(ex).__name__, ex)))
            continue
        finally:
            tables.restore()
        cid = "ship|%s|%d" % (arch, vi)
        cases.append({"id": cid, "model": model, "kernel": kernel, "obs": res})
        info[cid] = {"where": "shipped model %s" % arch, "lines": kernel_lines, "isa": isa, "arch": arch}
    return arch, cases, info, skipped, fails


def _drop(isa, name):
    if isa == "x86":
        return name[:-1] if name and name[-1].upper() in "BSWLQT" else None
    return name[:name.index(".")] if "." in name else None


def _r3_shipped_start(tier):
    with open(os.path.join(VERIF, "vocab", "mem_forms.json")) as f:
        vocab = json.load(f)
    if tier == "quick":
        archs = [(a, "x86") for a in env.QUICK_X86] + [(a, "aarch64") for a in env.QUICK_ARM]
    else:
        archs = [(a, "x86") for a in env.X86_ARCHS] + [(a, "aarch64") for a in env.ARM_ARCHS]
    env.warm_models([a for a, _ in archs])
    return [(a, isa, vocab[isa]) for a, isa in archs]


def _selftest(run, cases):
    """Self-test of the binding (DESIGN 3.5): an accepted recorded kernel with one field corrupted, and
    with one event dropped, must be rejected by Trace_Compose."""
    rejected = set(json.loads(k) if False else k for k in run.extra.get("_rejected_ids", []))
    base = next((c for c in cases if c["id"] not in rejected and len(c["kernel"]) >= 2
                 and any(not o["unk"] and o["lat"] > o["lw"] for o in c["obs"])), None)
    if base is None:
        raise RuntimeError("self-test: no accepted composed kernel recorded")
    k = next(i for i, o in enumerate(base["obs"]) if not o["unk"] and o["lat"] > o["lw"])
    variants = []
    for name, fn in (("lat", lambda o: o.update(lat=o["lat"] + 120)),
                     ("lw", lambda o: o.update(lw=o["lw"] + 120)),
                     ("tp", lambda o: o.update(tp=o["tp"] + 120)),
                     ("pr", lambda o: o.update(pr=[o["pr"][0] + 120] + o["pr"][1:])),
                     ("uo", lambda o: o.update(uo=o["uo"][:-1])),
                     ("unk", lambda o: o.update(unk=True))):
        c = copy.deepcopy(base)
        c["id"] = "selftest|" + name
        fn(c["obs"][k])
        variants.append(c)
    c = copy.deepcopy(base)
    c["id"] = "selftest|dropped-event"
    del c["obs"][-1]
    variants.append(c)
    c = copy.deepcopy(base)
    c["id"] = "selftest|unchanged"
    variants.append(c)
    rej, r = tlc.batch_validate("Trace_Compose", "Trace_Compose", variants, tag="c08-selftest")
    run.add_mc(r, "Trace_Compose_selftest")
    got = {cid: v for cid, v, _ in rej}
    missing = [c["id"] for c in variants[:-1] if c["id"] not in got or got[c["id"]] == "dev"]
    if missing or "selftest|unchanged" in got:
        raise RuntimeError("self-test of Trace_Compose failed: not rejected %s, unchanged rejected: %s" % (
            missing, "selftest|unchanged" in got))
    run.note("selftest", {"corrupted_variants_rejected": len(variants) - 1, "clauses": got})


def main(tier, seed):
    run = Run(PID, tier, seed)
    rnd = random.Random("%s-c08" % seed)
    run.rule = ("R2: every terminal state of MC_Compose (32 table variants x all kernels up to length 2/3 over 14 "
                "instruction forms, both ISAs) replayed on rendered YAML models; R3: kernels of 1-6 instructions on "
                "seeded random synthetic models (random rows/defaults/multipliers/latencies, memory operand in any "
                "position and role, repeated and read-modify-write forms, unknown and own-entry forms) and a curated "
                "vocabulary on shipped models, validated by Trace_Compose; non-trivial = a kernel with at least two "
                "instructions that have a memory operand")
    t0 = time.time()
    ship_args = _r3_shipped_start(tier)
    n_models, n_kernels = (6, 40) if tier == "quick" else (30, 120)
    pool = concurrent.futures.ProcessPoolExecutor(max_workers=12)
    f_r2 = [pool.submit(_r2, (isa, tier)) for isa in ("x86", "aarch64")]
    f_rand = [pool.submit(_r3_random, (isa, seed, n_models, n_kernels)) for isa in ("x86", "aarch64")]
    f_ship = [pool.submit(_shipped_worker, a) for a in ship_args]
    cases, info = [], {}
    for f in f_rand:
        isa, rec, cs, inf = f.result()
        rec.merge_into(run)
        cases += cs
        info.update(inf)
    run.note("r3_random_kernels", len(cases))
    run.note("t_r3_random_s", round(time.time() - t0, 1))
    skipped = {}
    for f in f_ship:
        arch, cs, inf, sk, fl = f.result()
        for x in fl:
            run.fail(*x)
        cases += cs
        info.update(inf)
        if sk:
            skipped[arch] = [(" ; ".join(k) if isinstance(k, list) else k, why) for k, why in sk][:8]
    r2_bad, r2_info, f8s = [], {}, []
    for f in f_r2:
        isa, rec, bad, inf, f8 = f.result()
        rec.merge_into(run)
        r2_bad += bad
        r2_info.update(inf)
        f8s.append((isa, f8))
    pool.shutdown()
    run.note("t_r2_s", round(time.time() - t0, 1))
    t0 = time.time()
    run.note("r2_kernels_not_in_emitted_set", len(r2_bad))
    classify(run, r2_bad, r2_info, "r2")
    for isa, f8 in f8s:
        if f8 is None:
            continue
        case, inf = f8
        before = len(run.violations) + sum(h["count"] for h in run.known_hits.values())
        classify(run, [case], inf, "r2-f8")
        after = len(run.violations) + sum(h["count"] for h in run.known_hits.values())
        i = list(inf.values())[0]
        run.note("f8_counterexample_%s" % isa, {"kernel": i["lines"], "model": i["mi"], "reproduced": after > before})
        if after == before:
            run.divergence("model_divergence", {"what": "counterexample of the deviating model not reproduced on the code",
                                                "kernel": i["lines"], "mi": i["mi"]})
    run.note("t_r2_classify_s", round(time.time() - t0, 1))
    t0 = time.time()
    run.note("r3_shipped_skipped", skipped)
    run.note("r3_total_kernels", len(cases))
    classify(run, cases, info, "r3")
    run.add_traces(len(cases))
    run.add_eval(sum(len(c["kernel"]) for c in cases))
    run.note("t_r3_validate_s", round(time.time() - t0, 1))
    _selftest(run, cases)
    for c in cases[:2] + cases[-2:]:
        run.sample({"id": c["id"], "lines": info[c["id"]]["lines"], "obs": [canon_result(o) for o in c["obs"]][:3]})
    run.extra.pop("_rejected_ids", None)
    run.exhaustive = False
    run.assume("models are rendered from the abstract model records emitted by TLC / generated by the harness "
               "(write_model), instructions from abstract operand kinds (lookup_common.render); results are projected "
               "field by field to units of 1/12000 cycle (project_result)")
    run.assume("operand roles (source/destination) are rendered into a synthetic ISA DB and read back from "
               "InstructionForm.semantic_operands (the input of the stage under test)")
    run.assume("the model's tables are restored by the harness before every kernel (the property is about one kernel)")
    run.assume("store rows without declared register type (F13), AArch64 read-modify-write through an indexed operand "
               "and the open points of the shape match are accepted either way")
    return run.finish()


def replay(path):
    with open(path) as f:
        rec = json.load(f)
    c = rec["case"]
    print("replaying", rec["signature"])
    print(rec["what"])
    case = c.get("case")
    if not case:
        return 0
    model = case["model"]
    isa = model["isa"]
    if c.get("arch"):
        mm, sem, parser = synth.load_arch(c["arch"])
        ports = list(mm.get_ports())
    else:
        d = env.scratch("c08-replay-%d" % os.getpid())
        a, i = write_model(d, model, isa_forms_for(isa, case["kernel"]), "replay")
        mm, sem, parser = synth.load(a, i)
        ports = _ports(model["np"])
    forms = [parser.parse_line(ln, k + 1) for k, ln in enumerate(c["lines"])]
    sem.add_semantics(forms)
    obs = [project_result(f, ports) for f in forms]
    for ln, o in zip(c["lines"], obs):
        print("  %-40s %s" % (ln, canon_result(o)))
    case = dict(case, obs=obs)
    rej, _ = tlc.batch_validate("Trace_Compose", "Trace_Compose", [case], tag="c08-replay")
    print("specification:", rej if rej else "accepts")
    return 1 if rej else 0
