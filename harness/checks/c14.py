"""C14  Loop-carried dependencies are invariant under rotation of the loop body.

R1  MC_LoopDeps: invariant RotationInvariant -- for every kernel over DepsAlphabet and every
    offset the declarative cycles of the rotated kernel, mapped back, equal those of the original
    (a theorem about the specification), next to the Level-B search = declarative cycles.
R3  Real code: generated kernels (register dependencies, write-back addressing, composed loads)
    on synthetic models, kernels of 50..57 lines (the multi-process search: short cycles scattered
    over filler lines, 4 / 12 rotation offsets) and every shipped example/test kernel on shipped models are analysed at
    offset 0 and at rotation offsets; Trace_Deps clause `rot`: the LCD set of the rotated
    analysis mapped back to original positions (members + latency) and the LCD figure equal what
    TLC computes from the unrotated observed graph; clause `lcd` validates the unrotated run."""
from harness import deps_run, env, tlc
from harness.verdict import Run


def main(tier, seed):
    run = Run("C14", tier, seed)
    quick = tier == "quick"
    run.rule = ("a case = one (kernel, rotation offset) pair analysed by the real code; non-trivial = the kernel has at "
                "least one loop-carried cycle with >= 2 members (so rotation moves the wrap edge inside the cycle)")
    run.add_mc(tlc.run_tlc("MC_LoopDeps", "MC_LoopDeps_quick", workers=16, timeout=1500), "MC_LoopDeps_quick")
    if not quick:
        run.add_mc(tlc.run_tlc("MC_LoopDeps", "MC_LoopDeps_n3r", workers=16, timeout=2400), "MC_LoopDeps_n3r")
    cases = deps_run.rotation_cases(run, "C14", seed, 300 if quick else 3000, 8, not quick,
                                    env.QUICK_X86[:2] if quick else env.X86_ARCHS,
                                    env.QUICK_ARM[:2] if quick else env.ARM_ARCHS, max_shipped_rot=None, n_long=5 if quick else 40, n_vocab=25 if quick else 150)
    deps_run.finish_family(run, "C14", cases)
    for c in cases:
        if "error" not in c and "r" in c and any(len(x[1]) >= 2 for x in c["lcd"]):
            run.mark(c["id"])
    return run.finish()


def replay(path):
    return deps_run.replay(path)
