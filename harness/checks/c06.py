"""C06  Store-to-load dependencies through provably equal addresses on both ISAs.

R1  MC_MemDeps: TLC enumerates every program  store [p+d0] ; <= 2 pointer operations ; load [r+d1]
    (add/sub, copy, clobber, post-index access, later store to the same / another operand;
    displacements from {-8,0,8,16}) and checks that the register-change bookkeeping (Level B,
    shaped like _update_reg_changes / is_memload) links exactly when the symbolic addresses of
    Deps.tla are provably equal (MustLink), never when they provably differ (MustNotLink), and
    that a later store to the same operand ends the search.  The configuration with the
    implementation's named deviations switched on is run too; its counterexamples are part
    of the programs replayed below.
R2  All programs TLC enumerated are rendered for both ISAs, with real mnemonics on shipped
    models and with made-up mnemonics on synthetic ISA databases, and analysed by KernelDG.
R3  Seeded random programs with longer bump sequences, all addressing shapes, index registers
    and scales, pre/post-indexed stores and loads, on every shipped model of the ISA.
Trace_Deps clause `edges`: MustEdges <= observed <= MayEdges, edge weight = store latency +
forwarding latency."""
import os
import random
import shutil

from harness import deps_common as dc
from harness import deps_run, env, tlc
from harness import mem_common as mc
from harness.verdict import Run


def _mc(run):
    out = os.path.join(tlc.WORK, "mcmem-%d.ndjson" % os.getpid())
    if os.path.exists(out):
        os.unlink(out)
    r = tlc.run_tlc("MC_MemDeps", "MC_MemDeps_ideal", env={"OUTFILE": out}, workers=16, timeout=900)
    run.add_mc(r, "MC_MemDeps_ideal")
    progs = tlc.read_emitted(out)
    os.unlink(out)
    r2 = tlc.run_tlc("MC_MemDeps", "MC_MemDeps_ascode", workers=16, timeout=900, allow_violation=True)
    run.add_mc(r2, "MC_MemDeps_ascode")
    run.note("model_with_named_deviations_violates", sorted(set(r2.violated)))
    return progs


def _render_prog(isa, fl, p, rnd):
    P, Q = mc.PTR[isa][0], mc.PTR[isa][1]
    reg = {"p": P, "q": Q}
    data = mc.DATA[isa]
    ins = [mc.store(isa, fl, data[0], P, None, 1, p["d0"])]
    for m in p["mids"]:
        if m["op"] == "add":
            ins.append(mc.bump(isa, fl, reg[m["r"]], m["v"]))
        elif m["op"] == "copy":
            ins.append(mc.copy(isa, fl, reg[m["r"]], reg[m["src"]], 0))
        elif m["op"] == "clob":
            ins.append(mc.clobber(isa, fl, reg[m["r"]], data[1]))
        elif m["op"] == "post":
            if isa == "x86":
                return None
            ins.append(mc.load(isa, fl, data[2], reg[m["r"]], None, 1, 0, "post", m["v"]))
        elif m["op"] == "stsame":
            ins.append(mc.store(isa, fl, data[1], P, None, 1, p["d0"]))
        elif m["op"] == "stother":
            ins.append(mc.store(isa, fl, data[1], Q, None, 1, 64))
    ins.append(mc.load(isa, fl, data[2], reg[p["lr"]], None, 1, p["d1"]))
    return ins


def _items(pid, tag, isa, where, fl, programs, rnd, fwd=0.0):
    items = []
    for n, instrs in enumerate(programs):
        k = dc.abstract_kernel(instrs, 1.0, fwd, False)
        items.append(("%s:%s:%s:%s:%d" % (pid, tag, where if fl == "real" else "syn", isa, n), dc.kernel_text(instrs), k, False,
                      {"latFromObs": True,
                       "meta": {"isa": isa, "src": "%s:%s" % (tag, where if fl == "real" else "synthetic"),
                                "shapes": [i["shape"] for i in instrs]}}))
    return items


def main(tier, seed):
    run = Run("C06", tier, seed)
    quick = tier == "quick"
    rnd = random.Random(seed)
    run.rule = ("a case = one store/pointer-ops/load program analysed on one model; non-trivial = Deps.tla decides at least "
                "one store->load pair as must-link or as must-not-link after >= 1 intervening pointer operation; "
                "distinct by text+model")
    progs = _mc(run)
    x86 = env.QUICK_X86 if quick else [a for a in env.X86_ARCHS]
    arm = env.QUICK_ARM if quick else [a for a in env.ARM_ARCHS]
    env.warm_models(x86 + arm)
    d = env.scratch("c06-%d" % os.getpid())
    tasks = []
    if quick:
        rnd.shuffle(progs)
        progs = progs[:1200]
    # one ISA's synthetic model forwards in a fractional number of cycles (finding F49: added to an integer-typed
    # latency it was truncated), the other's in a whole number or not at all
    frac_isa = rnd.choice(["x86", "aarch64"])
    for isa, archs in (("x86", x86), ("aarch64", arm)):
        fwd = rnd.choice([2.5, 0.5, 1.5]) if isa == frac_isa else rnd.choice([0.0, 2.0, 5.0, 3])
        mc.write_syn_models(isa, d, rnd, fwd)
        deps_run._models(isa, d)
        # R2: enumerated programs, synthetic flavour + real flavour on one model (all models in thorough)
        syn = [x for x in (_render_prog(isa, "syn", p, rnd) for p in progs) if x]
        real = [x for x in (_render_prog(isa, "real", p, rnd) for p in progs) if x]
        its = _items("C06", "enumerated", isa, d, "syn", syn, rnd, fwd)
        for i in range(0, len(its), 400):
            tasks.append(("syn", isa, d, its[i:i + 400], ("edges",)))
        for arch in (archs[:1] if quick else archs):
            its = _items("C06", "enumerated", isa, arch, "real", real, rnd)
            for i in range(0, len(its), 400):
                tasks.append(("arch", isa, arch, its[i:i + 400], ("edges",)))
        # R3: random programs
        nrand = 150 if quick else 1500
        syn = [mc.gen_program(isa, "syn", rnd, 5) for _ in range(nrand * 2)]
        its = _items("C06", "random", isa, d, "syn", syn, rnd, fwd)
        for i in range(0, len(its), 400):
            tasks.append(("syn", isa, d, its[i:i + 400], ("edges",)))
        for arch in archs:
            real = [mc.gen_program(isa, "real", rnd, 5) for _ in range(nrand)]
            its = _items("C06", "random", isa, arch, "real", real, rnd)
            for i in range(0, len(its), 400):
                tasks.append(("arch", isa, arch, its[i:i + 400], ("edges",)))
    cases = deps_run.observe_parallel(tasks)
    shutil.rmtree(d, ignore_errors=True)
    deps_run.finish_family(run, "C06", cases)
    for c in cases:
        if "error" not in c and len(c["k"]["ST"]) >= 3 and any(c["k"]["CH"][1:-1]):
            run.mark(c["text"] + "|" + c["id"].split(":")[2])
    return run.finish()


def replay(path):
    return deps_run.replay(path)
