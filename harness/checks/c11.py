"""C11  Kernel selection is exact and non-instruction lines are transparent.

R1  TLC explores the marker scan exhaustively (MC_Select: every file prologue + start marker +
    body + end marker + epilogue over a pool of line kinds with look-alikes, 5-8 marker styles,
    both ISAs; Level B = the scan of find_marked_section/match_bytes, Level A = lines strictly
    between the markers / whole file) and the --lines expansion (MC_SelectLines).
R2  Every terminal state emitted by those runs (abstract file + the kernels the statement
    permits; --lines argument + the named set) is rendered to assembly text in seeded layouts,
    parsed by the real parser and replayed on reduce_to_section / get_line_range; a sample of the
    --lines arguments goes through the real osaca.osaca.inspect.
R3  Recorded behaviour validated by TLC (Trace_Select): (a) every shipped example/test kernel and
    seeded random long files: classified/rendered file + the lines the code selected;
    (b) --lines runs of inspect; (c) for shipped kernels x models: the projected analyses of the
    marked file, the file with --lines naming the marked lines, a file with only those lines and
    the file with noise lines (blank, comment, fresh label, alignment directive) inserted inside
    the kernel must coincide (instruction ordinals instead of line numbers)."""
import json
import os
import random
import threading

from harness import env, tlc
from harness import selrep_common as sc
from harness.verdict import Run

WORKERS = 16


# ------------------------------------------------------------------------------ R1/R2 scan
def _start_mc(tier):
    """Start the three exhaustive TLC runs in background threads; returns a join function."""
    res = {}

    def scan(isa):
        out = os.path.join(tlc.WORK, "c11-scan-%s-%d.ndjson" % (isa, os.getpid()))
        if os.path.exists(out):
            os.unlink(out)
        try:
            # per-action coverage (vacuity self-test) is collected in the quick configuration only:
            # it slows TLC down considerably on the larger space
            r = tlc.run_tlc("MC_Select", "MC_Select_%s_%s" % (isa, tier), env={"OUTFILE": out}, workers=8,
                            timeout=2400, coverage=(tier == "quick"))
            recs = {}
            for rec in tlc.read_emitted(out):
                recs[(rec["style"], tuple(rec["f"]), rec["np"], rec["nb"])] = rec
            res[isa] = (r, list(recs.values()))
        except Exception as e:  # re-raised in the main thread
            res[isa] = e
        finally:
            if os.path.exists(out):
                os.unlink(out)

    def lines():
        out = os.path.join(tlc.WORK, "c11-lines-%d.ndjson" % os.getpid())
        if os.path.exists(out):
            os.unlink(out)
        try:
            r = tlc.run_tlc("MC_SelectLines", "MC_SelectLines_%s" % tier, env={"OUTFILE": out}, workers=4,
                            timeout=900, coverage=True)
            res["lines"] = (r, tlc.read_emitted(out))
        except Exception as e:
            res["lines"] = e
        finally:
            if os.path.exists(out):
                os.unlink(out)

    os.makedirs(tlc.WORK, exist_ok=True)
    ths = [threading.Thread(target=scan, args=(isa,)) for isa in ("x86", "aarch64")] + [threading.Thread(target=lines)]
    for t in ths:
        t.start()

    def join(run):
        for t in ths:
            t.join()
        for k in ("x86", "aarch64", "lines"):
            if isinstance(res[k], Exception):
                raise res[k]
        for isa in ("x86", "aarch64"):
            r, recs = res[isa]
            run.add_mc(r, "MC_Select_%s_%s" % (isa, tier))
            for act in ("SeeBeginComment", "SeeEndComment", "SeeStartMov", "SeeEndMov", "SeeBytes", "MatchDone",
                        "SeeOther", "Stop"):
                if tier == "quick" and r.coverage.get(act, (0, 0))[0] == 0:
                    raise tlc.TLCError("action %s of MC_Select never taken (%s)" % (act, isa))
        r = res["lines"][0]
        run.add_mc(r, "MC_SelectLines_%s" % tier)
        for act in ("AddSingle", "AddRange"):
            if r.coverage.get(act, (0, 0))[0] == 0:
                raise tlc.TLCError("action %s of MC_SelectLines never taken" % act)
        return {isa: res[isa][1] for isa in ("x86", "aarch64")}, res["lines"][1]

    return join


def _describe(obs, ks):
    """How an observed kernel (positions) differs from the permitted ones: signature fragment."""
    if not ks:
        return "unexpected"
    exp = max(ks, key=len)  # the 'strictly between' reading
    if obs and obs == list(range(obs[0], obs[-1] + 1)):
        if exp:
            return "lo%+d:hi%+d" % (obs[0] - exp[0], obs[-1] - exp[-1])
        return "nonempty(%d)-for-empty" % len(obs)
    if not obs:
        return "empty-for-%d-lines" % len(exp)
    return "noncontiguous"


def _scan_chunk(job):
    isa, recs, seed = job
    from osaca.parser import ParserAArch64, ParserX86ATT
    from osaca.semantics.marker_utils import reduce_to_section

    rnd = random.Random(seed)
    memo = sc.MemoParser(isa)
    real = ParserX86ATT() if isa == "x86" else ParserAArch64()
    fails, div, samples, scan_cases = [], [], [], []
    n = real_parsed = 0
    for rec in recs:
        n += 1
        blank_p = 0.2 if rnd.random() < 0.3 else 0.0
        text, lnos = sc.render_file(rec["f"], isa, rnd, blank_p)
        use_real = rnd.random() < 0.03
        case = {"kind": "scan-replay", "isa": isa, "style": rec["style"], "codes": rec["f"], "text": text,
                "permitted": rec["ks"], "free": rec["free"]}
        try:
            parsed = (real if use_real else memo).parse_file(text)
            real_parsed += 1 if use_real else 0
            if [x.line_number for x in parsed] != lnos:
                raise RuntimeError("renderer/parser disagree on non-blank lines: %r" % text)
            kern = reduce_to_section(parsed, isa)
            pos = {ln: i + 1 for i, ln in enumerate(lnos)}
            obs = [pos[x.line_number] for x in kern]
        except RuntimeError:
            raise
        except Exception as e:
            fails.append(("C11:exception:reduce_to_section:%s:%s" % (isa, rec["style"]),
                          "%s: %s" % (type(e).__name__, e), case))
            continue
        case["observed"] = obs
        if rec["free"]:
            if obs != rec["lb"]:
                div.append(case)
        elif obs not in rec["ks"]:
            fails.append(("C11:scan:%s:%s:%s" % (isa, rec["style"], _describe(obs, rec["ks"])),
                          "%s file %s (style %s): kernel positions %s, permitted %s" % (
                              isa, "".join(c if len(c) == 1 else "[" + c + "]" for c in rec["f"]),
                              rec["style"], obs, rec["ks"]), case))
        elif obs != rec["lb"]:
            div.append(case)
        if len(samples) < 2 and rec["nb"] == 2 and rec["style"] in ("split", "cmt"):
            samples.append({k: case[k] for k in ("isa", "style", "codes", "text", "permitted", "observed")})
        if rnd.random() < 0.02:
            scan_cases.append({"kind": "scan", "isa": isa, "f": [sc.code_to_rec(c) for c in rec["f"]], "obs": obs,
                               "text": text, "style": rec["style"]})
    return {"n": n, "real": real_parsed, "fails": fails, "div": div[:5], "ndiv": len(div), "samples": samples,
            "scan_cases": scan_cases}


# ------------------------------------------------------------------------------ R1/R2 --lines
def _render_items(items, off, rnd):
    parts = []
    for it in items:
        a, b = it["a"] + off, it["b"] + off
        parts.append(str(a) if it["sep"] == "" else "%d%s%d" % (a, it["sep"], b))
    return ",".join(parts)


LINES_FILE = {
    "x86": ["addl $1, %eax", "# c", "", "vaddpd %xmm0, %xmm1, %xmm2", ".L3:", "nop", "", "", "movq %rax, %rcx",
            ".p2align 4", "subq $8, %rdx"],
    "aarch64": ["add x0, x0, #1", "// c", "", "fadd d0, d1, d2", ".L3:", "nop", "", "", "mov x7, x8",
                ".p2align 4", "sub x9, x9, #8"],
}


def _lines_file(isa, n=112):
    pat = LINES_FILE[isa]
    lines = [pat[i % len(pat)] for i in range(n)]
    present = [i + 1 for i, l in enumerate(lines) if l.strip() != ""]
    instr = [i + 1 for i, l in enumerate(lines) if l.strip() and l[0] not in "#/." and not l.endswith(":")]
    return "\n".join(lines) + "\n", present, instr


def _lines_job(job):
    isa, arch, arg, items, path, present, idx = job
    res = sc.run_inspect(path, arch, lines=arg, lcd_timeout=-1, want_dict="direct")
    case = {"kind": "lines", "id": "lines|%s|%s|%d" % (isa, arg, idx), "isa": isa, "arch": arch, "arg": arg,
            "items": items, "present": present, "file": path}
    if not res["ok"]:
        case["error"] = res["error"]
        case["where"] = res["where"]
        return case
    case["obs"] = [e["LineNumber"] for e in res["dict"]["Kernel"]]
    from harness import report_parse

    rep = report_parse.parse_report(res["text"])
    case["obs_text"] = [r["line"] for r in rep["rows"]]
    return case


# ------------------------------------------------------------------------------ R3 random long files
def _random_file_job(job):
    isa, seed, idx = job
    from osaca.parser import ParserAArch64, ParserX86ATT
    from osaca.semantics.marker_utils import reduce_to_section

    rnd = random.Random(seed * 1000003 + idx)
    n = len(sc.NOP[isa])
    full = "B" + "".join(str(i) for i in range(1, n + 1))
    pool = ["i"] * 8 + ["c", "l", "d", "v", "r", "v", "r", "S", "E", "B0", "B" + "".join(str(i) for i in range(1, n)), full,
                                                                     full]
    style = rnd.choice(["one", "sep", "split", "cmt", "mixed", "none", "one", "cmt"])

    def seq(k):
        return [rnd.choice(pool) for _ in range(rnd.randint(0, k))]

    def bytelines(st):
        if st == "one":
            return [full]
        if st == "sep":
            return ["B%d" % i for i in range(1, n + 1)]
        h = n // 2
        return ["B" + "".join(str(i) for i in range(1, h + 1)), "B" + "".join(str(i) for i in range(h + 1, n + 1))]

    sm = {"cmt": ["b"], "none": []}.get(style, None)
    em = {"cmt": ["e"], "mixed": ["e"], "none": []}.get(style, None)
    if sm is None:
        sm = ["S"] + bytelines("one" if style == "mixed" else style)
    if em is None:
        em = ["E"] + bytelines(style)
    codes = seq(30) + sm + seq(40) + em + seq(30)
    text, lnos = sc.render_file(codes, isa, rnd, blank_p=rnd.choice([0.0, 0.1, 0.3]))
    p = ParserX86ATT() if isa == "x86" else ParserAArch64()
    case = {"kind": "scan", "id": "rand|%s|%d" % (isa, idx), "isa": isa, "style": style,
            "f": [sc.code_to_rec(c) for c in codes], "text": text}
    try:
        parsed = p.parse_file(text)
        assert [x.line_number for x in parsed] == lnos
        pos = {ln: i + 1 for i, ln in enumerate(lnos)}
        case["obs"] = [pos[x.line_number] for x in reduce_to_section(parsed, isa)]
    except AssertionError:
        raise
    except Exception as e:
        case["error"] = "%s: %s" % (type(e).__name__, e)
    return case


def _shipped_scan_job(job):
    rel, isa = job
    from osaca.parser import ParserAArch64, ParserX86ATT
    from osaca.semantics.marker_utils import reduce_to_section

    text = sc.read_kernel(rel)
    cl = sc.classify(text, isa)
    p = ParserX86ATT() if isa == "x86" else ParserAArch64()
    case = {"kind": "scan", "id": "shipped|%s" % rel, "isa": isa, "style": "shipped", "f": [r for _, r in cl],
            "rel": rel}
    try:
        parsed = p.parse_file(text)
        if [x.line_number for x in parsed] != [no for no, _ in cl]:
            case["error"] = "classifier and parser disagree on the non-blank lines"
            return case
        pos = {no: i + 1 for i, (no, _) in enumerate(cl)}
        case["obs"] = [pos[x.line_number] for x in reduce_to_section(parsed, isa)]
    except Exception as e:
        case["error"] = "%s: %s" % (type(e).__name__, e)
    return case


# ------------------------------------------------------------------------------ R3 equal analyses
NOISE = {
    "x86": {"comment": ["# noise comment", "   # movl $111, %ebx", "#"], "label": ".Lselrep_noise_%d:",
            "directive": [".p2align 4", ".align 16", ".p2align 4,,10"]},
    "aarch64": {"comment": ["// noise comment", "   // mov x1, #111", "//"], "label": ".Lselrep_noise_%d:",
                "directive": [".p2align 4", ".align 4", ".p2align 3,,7"]},
}


def _ranges_arg(nums, rnd):
    """Line numbers -> a --lines argument naming exactly them (ranges with '-' or ':', singles)."""
    nums = sorted(nums)
    groups, cur = [], [nums[0]]
    for x in nums[1:]:
        if x == cur[-1] + 1:
            cur.append(x)
        else:
            groups.append(cur)
            cur = [x]
    groups.append(cur)
    parts = []
    for g in groups:
        while g:
            if len(g) == 1 or rnd.random() < 0.15:
                parts.append(str(g[0]))
                g = g[1:]
            else:
                k = len(g) if rnd.random() < 0.7 else rnd.randint(2, len(g))
                parts.append("%d%s%d" % (g[0], rnd.choice("-:"), g[k - 1]))
                g = g[k:]
    if rnd.random() < 0.3:
        rnd.shuffle(parts)
    return ",".join(parts)


def _equal_job(job):
    rel, isa, arch, seed, fixed = job
    rnd = random.Random("%s|%s|%s|%s" % (rel, arch, seed, fixed))
    text = sc.read_kernel(rel)
    src = text.split("\n")
    cl = sc.classify(text, isa)
    kinds = [r["k"] for _, r in cl]
    nonblank = [no for no, _ in cl]
    scratch = os.path.join(env.WORK, "scratch", "c11-%d" % os.getpid())
    os.makedirs(scratch, exist_ok=True)
    gid = "equal|%s|%s|%s" % (rel, arch, "fixed" if fixed else "opt")
    group = {"kind": "equal", "id": gid, "rel": rel, "isa": isa, "arch": arch, "fixed": fixed, "seed": seed, "vs": [],
             "inputs": {}}
    path0 = os.path.join(env.REPO, rel)
    marked = ("startmov" in kinds or "begincmt" in kinds) and ("endmov" in kinds or "endcmt" in kinds)
    # the region the base analysis covers, from the trusted classification (only to decide whether
    # a window is needed; the kernel itself is what the code reports)
    if marked:
        s = max(i for i, k in enumerate(kinds) if k in ("startmov", "begincmt"))
        e = max(i for i, k in enumerate(kinds) if k in ("endmov", "endcmt"))
        while s + 1 < len(kinds) and kinds[s + 1] == "bytes":
            s += 1
        region = nonblank[s + 1:e]
    else:
        region = list(nonblank)
    window = None
    if len(region) > 80 or not marked:
        w = rnd.randint(12, 28)
        a = rnd.randint(0, max(0, len(region) - w))
        window = region[a:a + w]
    kw = dict(fixed=fixed, lcd_timeout=-1, want_dict="direct")

    def add(name, res, inp):
        group["inputs"][name] = inp
        if not res["ok"]:
            group.setdefault("errors", {})[name] = {"error": res["error"], "where": res["where"]}
            return None
        v = sc.project_analysis(res, name)
        group["vs"].append(v)
        return v

    if window is None:
        base = add("marked", sc.run_inspect(path0, arch, **kw), {"file": path0})
        group["mode"] = "marked"
    else:
        arg = "%d-%d" % (window[0], window[-1])
        base = add("window", sc.run_inspect(path0, arch, lines=arg, **kw), {"file": path0, "lines": arg})
        group["mode"] = "window"
    if base is None:
        group["skip"] = "base analysis failed: %s" % group["errors"]
        return group
    K = base["lines"]
    group["kernel_lines"] = K
    if window is None:
        pos = {no: i + 1 for i, no in enumerate(nonblank)}
        group["scan"] = {"kind": "scan", "id": "inspect|%s|%s" % (rel, arch), "isa": isa, "f": [r for _, r in cl],
                         "obs": [pos.get(x, 0) for x in K], "style": "shipped"}
    if not any(v for v in base["instrs"]):
        group["skip"] = "no instruction in kernel"
        return group
    # V1: --lines naming exactly the kernel lines
    arg = _ranges_arg(K, rnd)
    add("lines", sc.run_inspect(path0, arch, lines=arg, **kw), {"file": path0, "lines": arg})
    # V2: a file with only those lines
    only = "\n".join(src[x - 1] for x in K) + "\n"
    p2 = os.path.join(scratch, "only.s")
    with open(p2, "w") as f:
        f.write(only)
    add("only", sc.run_inspect(p2, arch, **kw), {"text": only})
    # V3: noise lines inserted inside the kernel (between its first and last line, and at both ends)
    ins = {}
    for _ in range(rnd.randint(2, 6)):
        at = rnd.choice(K + [K[-1] + 1])  # insert before this original line
        kind = rnd.choice(["blank", "blank", "comment", "comment", "label", "directive"])
        if kind == "blank":
            t = rnd.choice(["", "  ", "\t"])
        elif kind == "comment":
            t = rnd.choice(NOISE[isa]["comment"])
        elif kind == "label":
            t = NOISE[isa]["label"] % rnd.randint(1000, 9999)
        else:
            t = rnd.choice(NOISE[isa]["directive"])
        ins.setdefault(at, []).append((kind, t))
    out, newno = [], {}
    for no, line in enumerate(src, 1):
        for _, t in ins.get(no, []):
            out.append(t)
        out.append(line)
        newno[no] = len(out)
    if K[-1] + 1 > len(src):
        for _, t in ins.get(K[-1] + 1, []):
            out.append(t)
    noisy = "\n".join(out)
    p3 = os.path.join(scratch, "noise.s")
    with open(p3, "w") as f:
        f.write(noisy)
    group["noise"] = sorted((at, k) for at, l in ins.items() for k, _ in l)
    if window is None:
        add("noise", sc.run_inspect(p3, arch, **kw), {"text": noisy})
    else:
        lo, hi = newno[K[0]], newno[K[-1]]
        arg = "%d:%d" % (lo, hi)
        add("noise", sc.run_inspect(p3, arch, lines=arg, **kw), {"text": noisy, "lines": arg})
    for v in group["vs"]:
        v.pop("lines", None)
    return group


# ------------------------------------------------------------------------------ main
def _job(j):
    kind = j[0]
    if kind == "scan":
        return _scan_chunk(j[1])
    if kind == "lines":
        return _lines_job(j[1])
    if kind == "rand":
        return _random_file_job(j[1])
    if kind == "shipped":
        return _shipped_scan_job(j[1])
    if kind == "equal":
        return _equal_job(j[1])
    raise ValueError(kind)


def main(tier, seed):
    _PER_SIG.clear()
    run = Run("C11", tier, seed)
    rnd = random.Random(seed)
    quick = tier == "quick"
    run.rule = ("R2: every terminal state of MC_Select (file = prologue + start marker + body + end marker + "
                "epilogue over 10 line kinds incl. look-alikes; marker styles one/sep/split/cmt/none (+mixed, "
                "startonly, endonly in thorough); both ISAs) rendered in a seeded layout and replayed on "
                "reduce_to_section; every --lines argument of MC_SelectLines x 3 number offsets on get_line_range. "
                "R3: shipped kernels, seeded random long files, --lines runs of inspect, and for shipped kernel x "
                "model the variants marked / --lines / only-those-lines / noise-inserted. "
                "non-trivial = replayed file whose body or prologue contains a look-alike or .byte line, "
                "a --lines argument with a range, an equal-group with >= 3 variants and >= 1 loop-carried dependency")
    corpus = sc.corpus()
    archs = {isa: sc.archs_for(isa, tier) for isa in ("x86", "aarch64")}
    home = sc.use_private_home()
    warm = env.warm_models(sorted(set(archs["x86"] + archs["aarch64"])), home=home)
    bad = {k: v for k, v in warm.items() if v[0] != 0}
    if bad:
        raise RuntimeError("could not load models: %s" % bad)

    # ---- R1 (in the background) while the TLC-independent R3 runs are made
    join_mc = _start_mc(tier)
    jobs1 = []
    for rel, isa in corpus:
        jobs1.append(("shipped", (rel, isa)))
    for isa in ("x86", "aarch64"):
        for idx in range(60 if quick else 600):
            jobs1.append(("rand", (isa, seed, idx)))
    eq_files = {}
    for isa in ("x86", "aarch64"):
        fs = [rel for rel, i in corpus if i == isa]
        if quick:
            tests = [f for f in fs if f.startswith("tests/")]
            ex = [f for f in fs if not f.startswith("tests/")]
            rnd.shuffle(ex)
            fs = tests + ex[:7]
        eq_files[isa] = fs
    for isa in ("x86", "aarch64"):
        for rel in eq_files[isa]:
            for arch in archs[isa]:
                jobs1.append(("equal", (rel, isa, arch, seed, False)))
                if not quick and arch in sc.archs_for(isa, "quick"):
                    jobs1.append(("equal", (rel, isa, arch, seed, True)))  # --fixed on the small models
    order = {"equal": 0, "scan": 1, "rand": 2, "lines": 3, "shipped": 4}
    jobs1.sort(key=lambda j: order[j[0]])
    results1 = sc.pool_map(_job, jobs1, WORKERS)
    emitted, line_recs = join_mc(run)
    line_recs.sort(key=lambda r: json.dumps(r, sort_keys=True))

    # ---- R2 get_line_range (cheap: in this process)
    from osaca.osaca import get_line_range

    n_lines = 0
    for rec in line_recs:
        for off in (0, 7, 96):
            arg = _render_items(rec["items"], off, rnd)
            exp = sorted(x + off for x in rec["named"])
            case = {"kind": "get_line_range", "arg": arg, "expected": exp}
            n_lines += 1
            try:
                obs = get_line_range(arg)
            except Exception as e:
                _fail(run, "C11:exception:get_line_range", "%s on %r" % (e, arg), case)
                continue
            case["observed"] = list(obs)
            if sorted(set(obs)) != exp:
                diff = sorted(set(obs) ^ set(exp))
                where = "ends" if all(any(d in (it["a"] + off, it["b"] + off, it["a"] + off - 1, it["b"] + off + 1)
                                          for it in rec["items"]) for d in diff) else "inner"
                _fail(run, "C11:lines:get_line_range:%s:%s" % (
                    "missing" if set(exp) - set(obs) else "extra", where),
                    "--lines %r names %s, get_line_range gives %s" % (arg, exp, sorted(set(obs))), case)
            if any(it["sep"] for it in rec["items"]):
                run.mark("lines|" + arg)
    run.add_traces(n_lines)
    run.note("get_line_range_replays", n_lines)

    # ---- jobs for the pool
    jobs = []
    for isa in ("x86", "aarch64"):
        recs = sorted(emitted[isa], key=lambda r: (r["style"], r["f"], r["np"], r["nb"]))  # TLC's order is not deterministic
        rnd.shuffle(recs)
        chunk = max(200, len(recs) // (WORKERS * 3) + 1)
        for i in range(0, len(recs), chunk):
            jobs.append(("scan", (isa, recs[i:i + chunk], seed * 7919 + i)))
    scratch = env.scratch("c11-main-%d" % os.getpid())
    n_insp = 40 if quick else 240
    lines_inputs = {}
    for isa, arch in (("x86", archs["x86"][0]), ("aarch64", archs["aarch64"][0])):
        text, present, instr = _lines_file(isa)
        path = os.path.join(scratch, "lines_%s.s" % isa)
        with open(path, "w") as f:
            f.write(text)
        lines_inputs[isa] = text
        picks = rnd.sample(line_recs, min(n_insp, len(line_recs)))
        for idx, rec in enumerate(picks):
            off = rnd.choice((0, 7, 96))
            items = [{"a": it["a"] + off, "b": it["b"] + off, "sep": it["sep"]} for it in rec["items"]]
            named = set(x + off for x in rec["named"])
            if not (named & set(instr)):
                continue  # an empty kernel is outside the statement
            jobs.append(("lines", (isa, arch, _render_items(rec["items"], off, rnd), items, path, present, idx)))
    results = sc.pool_map(_job, jobs, WORKERS)
    jobs = jobs1 + jobs
    results = results1 + results

    # ---- collect
    cases = []       # for Trace_Select
    byid = {}
    n_replayed = 0
    n_div = 0
    for j, res in zip(jobs, results):
        kind = j[0]
        if kind == "scan":
            n_replayed += res["n"]
            for sig, what, case in res["fails"]:
                _fail(run, sig, what, case)
            for d in res["div"]:
                run.divergence("levelB-scan", {k: d[k] for k in ("isa", "style", "codes", "observed")})
            n_div += res["ndiv"]
            for s in res["samples"]:
                run.sample(s, limit=3)
            for c in res["scan_cases"]:
                c["id"] = "replay|%s|%d" % (c["isa"], len(cases))
                cases.append(c)
            run.note("replayed_with_unmemoised_parser", run.extra.get("replayed_with_unmemoised_parser", 0) + res["real"])
        elif kind in ("rand", "shipped"):
            if "error" in res:
                if res["error"].startswith("classifier"):
                    raise RuntimeError("%s: %s" % (res["id"], res["error"]))
                _fail(run, "C11:exception:reduce_to_section:%s:%s" % (res["isa"], res["style"]), res["error"], res)
            else:
                cases.append(res)
        elif kind == "lines":
            if "error" in res:
                _fail(run, "C11:exception:inspect-lines:%s" % res["where"], "%s (--lines %s)" % (res["error"], res["arg"]), res)
            else:
                if res["obs"] != res["obs_text"]:
                    _fail(run, "C11:lines:text-vs-dict", "report rows %s, dict lines %s" % (res["obs_text"], res["obs"]), res)
                cases.append(res)
        elif kind == "equal":
            if res.get("skip"):
                run.note("equal_groups_skipped", run.extra.get("equal_groups_skipped", 0) + 1)
                run.extra.setdefault("equal_skip_reasons", {})
                why = res["skip"][:120]
                run.extra["equal_skip_reasons"][why] = run.extra["equal_skip_reasons"].get(why, 0) + 1
                continue
            for name, err in res.get("errors", {}).items():
                _fail(run, "C11:exception:variant:%s:%s" % (name, err["where"]),
                         "%s on %s: variant %s fails with %s although the %s analysis succeeds" % (
                             res["arch"], res["rel"], name, err["error"], res["mode"]), _slim(res))
            if "scan" in res:
                cases.append(res.pop("scan"))
            if len(res["vs"]) >= 2:
                cases.append(res)
    for c in cases:
        byid[c["id"]] = c
    run.add_traces(n_replayed)
    run.note("scan_files_replayed", n_replayed)
    run.note("levelB_divergences", n_div)

    # ---- R3: TLC validates the recorded behaviour
    tcases = []
    for c in cases:
        if c["kind"] == "scan":
            tcases.append({"id": c["id"], "kind": "scan", "isa": c["isa"], "f": c["f"], "obs": c["obs"]})
        elif c["kind"] == "lines":
            tcases.append({"id": c["id"], "kind": "lines", "items": c["items"], "present": c["present"], "obs": c["obs"]})
        else:
            tcases.append({"id": c["id"], "kind": "equal", "vs": [
                {k: v[k] for k in ("name", "instrs", "rows", "lat", "flags", "cpcell", "lcdcell", "sum", "tsum", "cp",
                                   "lcd", "lcds", "marks", "noninstr_clean")} for v in c["vs"]]})
    # self-test of the binding: corrupted copies of accepted observations must be rejected
    import copy

    selftest = {}
    for t in tcases:
        # corruptions that no implementation behaviour can make right
        if t["kind"] == "scan" and t["id"].startswith("shipped|") and len(t["obs"]) > 3 and "scan" not in selftest:
            u = copy.deepcopy(t)
            u["id"], u["obs"] = "selftest|scan", t["obs"][:1] + t["obs"][2:]       # a hole: never a kernel
            selftest["scan"] = (u, "kernel")
        if t["kind"] == "lines" and "lines" not in selftest:
            u = copy.deepcopy(t)
            u["id"], u["obs"] = "selftest|lines", t["obs"] + [max(t["present"]) + 1000]  # a line the file does not have
            selftest["lines"] = (u, "lines")
        if t["kind"] == "equal" and "equal" not in selftest:
            u = copy.deepcopy(t)
            u["id"] = "selftest|equal"
            w = copy.deepcopy(u["vs"][0])
            w["name"], w["cp"] = "corrupted", w["cp"] + 1                            # same instructions, other CP
            u["vs"] = [u["vs"][0], w]
            selftest["equal"] = (u, "cp")
    tcases += [u for u, _ in selftest.values()]
    # short ids: TLC wraps long printed values
    short = {}
    for i, t in enumerate(tcases):
        short["t%d" % i] = t["id"]
        t["id"] = "t%d" % i
    rejects, r = tlc.batch_validate("Trace_Select", "Trace_Select", tcases, tag="c11", timeout=1500)
    rejects = [(short[cid], clause, extra) for cid, clause, extra in rejects]
    seen = {cid: clause for cid, clause, _ in rejects}
    for k, (u, want) in selftest.items():
        if seen.get("selftest|" + k) is None:  # (the clause may differ when the original is itself rejected)
            raise RuntimeError("binding self-test failed: corrupted %s case was not rejected (expected clause %r)" % (
                k, want))
    rejects = [x for x in rejects if not x[0].startswith("selftest|")]
    tcases = tcases[:len(tcases) - len(selftest)]
    run.note("binding_selftest", sorted(selftest))
    run.add_mc(r, "Trace_Select")
    run.add_traces(len(tcases))
    counts = {}
    for c in cases:
        counts[c["kind"]] = counts.get(c["kind"], 0) + 1
    run.note("trace_cases", counts)
    for cid, clause, extra in rejects:
        c = byid[cid]
        if c["kind"] == "scan":
            if clause == "levelB":
                run.divergence("levelB-scan", {"id": cid, "obs": c["obs"]})
                continue
            _fail(run, "C11:scan:%s:%s:%s" % (c["isa"], c.get("style", "?"), cid.split("|")[0]),
                     "%s: the code selected line positions %s, which is not a kernel the statement permits" % (
                         cid, c["obs"] if len(c["obs"]) < 40 else (c["obs"][0], "..", c["obs"][-1])), _slim(c))
        elif c["kind"] == "lines":
            named = set()
            for it in c["items"]:
                named |= set(range(it["a"], it["b"] + 1))
            exp = sorted(named & set(c["present"]))
            _fail(run, "C11:lines:inspect:%s" % ("missing" if set(exp) - set(c["obs"]) else "extra"),
                     "--lines %s analysed lines %s, named (and present) %s" % (c["arg"], c["obs"], exp), c)
        else:
            var = extra[0] if extra else "?"
            _fail(run, "C11:equal:%s:%s:%s" % (c["mode"], var, clause),
                     "%s on %s (%s): variant %r differs from %r in field %r (noise %s)" % (
                         c["arch"], c["rel"], "fixed" if c["fixed"] else "optimal", var, c["vs"][0]["name"], clause,
                         c.get("noise")), _slim(c))
    for c in cases:
        if c["kind"] == "equal" and len(c["vs"]) >= 3 and c["vs"][0]["lcds"]:
            run.mark(c["id"])
    for isa in emitted:
        for rec in emitted[isa]:
            if any(x in ("v", "r", "S", "E") or x.startswith("B") for x in rec["f"][:rec["np"]] + _body(rec)):
                run.mark("scan|%s|%s|%s|%d" % (isa, rec["style"], ",".join(rec["f"]), rec["np"]))
    eq = [c for c in cases if c["kind"] == "equal"]
    if eq:
        c = eq[len(eq) // 2]
        run.sample({"id": c["id"], "mode": c["mode"], "kernel_lines": c["kernel_lines"][:6] + ["..."],
                    "noise": c.get("noise"), "variants": [v["name"] for v in c["vs"]],
                    "lines_arg": c["inputs"].get("lines", {}).get("lines"),
                    "cp": c["vs"][0]["cp"], "lcd": c["vs"][0]["lcd"]}, limit=6)
    run.note("equal_groups", len(eq))
    run.note("equal_variants", sum(len(c["vs"]) for c in eq))
    run.note("models", archs)
    run.assume("marker/look-alike lines are rendered from per-ISA text tables in harness/selrep_common.py (each variant "
               "self-checked against the real parser); shipped files are abstracted by a regex line classifier")
    run.assume("Level A leaves open: files with a single, repeated or reversed marker; whether further .byte lines "
               "directly after the marker bytes belong to the marker; ranges a>b; --lines selections without instructions")
    run.assume("equality of analyses is decided on integers in 1e-6 cycle (only equality is needed)")
    run.assume("LCD search runs with --lcd-timeout -1 in the variant runs so that wall-clock cannot change a result; "
               "kernels longer than 80 lines and the unmarked file are compared on a seeded window selected with --lines")
    try:
        import shutil

        shutil.rmtree(scratch, ignore_errors=True)
        base = os.path.join(env.WORK, "scratch")
        for d in os.listdir(base):
            if d.startswith("c11-") and not os.path.exists("/proc/%s" % d.split("-")[-1]):
                shutil.rmtree(os.path.join(base, d), ignore_errors=True)
    except Exception:
        pass
    # whole-run traces of `inspect` validated against specs/Osaca.tla (clauses owned by this property)
    from harness import osaca_run
    osaca_run.whole_runs(run, "C11", tier, seed, n_quick=24)
    return run.finish()


def _body(rec):
    f = rec["f"]
    # position of the body needs the start marker length; derive from style
    n = 3 if rec["isa"] == "x86" else 4
    sm = {"one": 2, "sep": 1 + n, "split": 3, "cmt": 1, "mixed": 2, "startonly": 2}.get(rec["style"], 0)
    return f[rec["np"] + sm: rec["np"] + sm + rec["nb"]]


_PER_SIG = {}


def _fail(run, sig, what, case, cap=3):
    """run.fail with at most `cap` replay files per signature, so that the replay slots of one run
    show different failure classes (further occurrences are only counted)."""
    _PER_SIG[sig] = _PER_SIG.get(sig, 0) + 1
    if _PER_SIG[sig] > cap and run._match_known(sig) is None:
        run.extra.setdefault("further_occurrences", {})
        run.extra["further_occurrences"][sig] = run.extra["further_occurrences"].get(sig, 0) + 1
        return "violation"
    return run.fail(sig, what, case)


def _slim(c):
    """Replay payload without the bulky projections."""
    d = {k: v for k, v in c.items() if k not in ("vs", "f")}
    if "vs" in c:
        d["variants"] = [v["name"] for v in c["vs"]]
    return d


def replay(path):
    with open(path) as f:
        rec = json.load(f)
    c = rec["case"]
    print("replaying", rec["signature"])
    print(rec["what"])
    kind = c.get("kind")
    if kind == "scan-replay":
        from osaca.parser import ParserAArch64, ParserX86ATT
        from osaca.semantics.marker_utils import reduce_to_section

        p = ParserX86ATT() if c["isa"] == "x86" else ParserAArch64()
        parsed = p.parse_file(c["text"])
        lnos = [x.line_number for x in parsed]
        obs = [lnos.index(x.line_number) + 1 for x in reduce_to_section(parsed, c["isa"])]
        print(c["text"])
        print("kernel positions now:", obs, "permitted:", c["permitted"])
        return 0 if (c["free"] or obs in c["permitted"]) else 1
    if kind == "get_line_range":
        from osaca.osaca import get_line_range

        obs = sorted(set(get_line_range(c["arg"])))
        print("--lines", c["arg"], "->", obs, "expected", c["expected"])
        return 0 if obs == c["expected"] else 1
    if kind == "lines":
        env.warm_models([c["arch"]], home=sc.use_private_home())
        text, present, _ = _lines_file(c["isa"])
        d = env.scratch("c11-replay")
        p = os.path.join(d, "lines.s")
        with open(p, "w") as f:
            f.write(text)
        res = _lines_job((c["isa"], c["arch"], c["arg"], c["items"], p, present, 0))
        named = set()
        for it in c["items"]:
            named |= set(range(it["a"], it["b"] + 1))
        exp = sorted(named & set(present))
        print("--lines", c["arg"], "analysed", res.get("obs"), "expected", exp, res.get("error", ""))
        return 0 if res.get("obs") == exp else 1
    if kind == "equal":
        env.warm_models([c["arch"]], home=sc.use_private_home())
        g = _equal_job((c["rel"], c["isa"], c["arch"], c["seed"], c["fixed"]))
        print("variants:", [v["name"] for v in g["vs"]], "errors:", g.get("errors"))
        bad = 0
        for v in g["vs"][1:]:
            for fld in ("instrs", "rows", "lat", "flags", "cpcell", "lcdcell", "sum", "tsum", "cp", "lcd", "lcds", "marks"):
                if v[fld] != g["vs"][0][fld]:
                    print("variant %s differs in %s:\n  %s\n  %s" % (v["name"], fld, g["vs"][0][fld], v[fld]))
                    bad = 1
        return 1 if (bad or g.get("errors")) else 0
    if kind == "scan" and (c.get("text") is not None or c.get("rel")):
        from osaca.parser import ParserAArch64, ParserX86ATT
        from osaca.semantics.marker_utils import reduce_to_section

        text = c["text"] if c.get("text") is not None else sc.read_kernel(c["rel"])
        cl = sc.classify(text, c["isa"])
        p = ParserX86ATT() if c["isa"] == "x86" else ParserAArch64()
        parsed = p.parse_file(text)
        pos = {no: i + 1 for i, (no, _) in enumerate(cl)}
        obs = [pos[x.line_number] for x in reduce_to_section(parsed, c["isa"])]
        rejects, _ = tlc.batch_validate("Trace_Select", "Trace_Select", [
            {"id": "t0", "kind": "scan", "isa": c["isa"], "f": [r for _, r in cl], "obs": obs}], tag="c11-replay")
        bad = [cl_ for _, cl_, _ in rejects if cl_ != "levelB"]
        print("kernel positions now:", obs if len(obs) < 40 else (obs[0], "..", obs[-1]), "rejected:", bad)
        return 1 if bad else 0
    print(json.dumps(c, indent=1)[:4000])
    return 0
