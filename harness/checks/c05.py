"""C05  Loop-carried dependencies are exactly the cross-iteration dependency cycles.

R1  MC_LoopDeps: the path-extension search over two concatenated iterations with
    de-duplication (Level B, shaped like check_for_loopcarried_dep) equals the declarative set of
    winding-number-1 cycles (Deps.tla) on every small kernel.
R2/R3 as C03/C04 (kernel length <= 10 so that the reference enumeration stays exhaustive);
Trace_Deps clause `lcd`: the doubled graph is periodic, reported member sets = Cycles, each
once, latency = sum along the cycle, summary = max (0 if none)."""
from harness import deps_run
from harness import env
from harness.verdict import Run


def main(tier, seed):
    run = Run("C05", tier, seed)
    run.rule = ("a case = one analysed kernel with the observed graph of two concatenated iterations and the reported "
                "LCD list; non-trivial = at least two distinct cycles, one of them with >= 2 members; distinct by text+model")
    cases = deps_run.run_family(run, "C05", tier, seed, checks=("dbl", "lcd"), validate_now=False)
    quick = tier == "quick"
    cases += deps_run.shipped_cases(run, "C05", ("lcd",),
                                    env.QUICK_X86 if quick else env.X86_ARCHS,
                                    env.QUICK_ARM if quick else env.ARM_ARCHS, flag_deps=(False, True))
    deps_run.finish_family(run, "C05", cases)
    # whole-run traces of `inspect` (Osaca.tla): the summary numbers are the numbers the graph stage computed
    from harness import osaca_run
    osaca_run.whole_runs(run, "C05", tier, seed)
    osaca_run.api_reuse(run, "C05", tier, seed)
    for c in cases:
        if "error" not in c and len(c["lcd"]) >= 2 and any(len(x[1]) >= 2 for x in c["lcd"]):
            run.mark(c.get("text", "") + "|" + c["id"].split(":")[2])
    return run.finish()


def replay(path):
    return deps_run.replay(path)
