"""C01  Port pressure is a feasible split of each instruction's micro-ops.

Level A (verdicts): PortModel.Feasible(row, uops, eps) -- non-negative, nothing on inadmissible
ports, sum = cycles (x documented multiplier), Hall condition over unions of micro-op port sets;
eps = 0 under uniform scheduling (where the row must also be the 1/N split), 0.01*(passes x
micro-ops of the instruction) after balancing; totals = rounded column sums over lines with
throughput != 0.  Evaluated by TLC (Trace_Port) on every snapshot taken from the real code.

R1  TLC model-checks the balancer state machine PortSched (Level B) on two-micro-op forms over all
    ordered pairs of subsets of 3 ports plus the single-micro-op forms, kernels of length <= 2
    (thorough: 3192 kernels; quick: the overlapping pairs, 127 kernels): with the per-micro-op
    budget carried across passes
    FeasibleAll is an invariant (LevelB => LevelA); with the named deviation CapsResetPerPass (what
    the code does) TLC exhibits the two-pass counterexample (MC_PortSched_f1) and the terminal
    states of all kernels are emitted with the model's verdict.
R2  Every emitted kernel is rendered to a synthetic YAML model and run through add_semantics, one
    and two balancing passes and Frontend.full_analysis_dict; Level A decided by TLC; the rows are
    also compared with the Level-B terminal states (a mismatch is a conformance divergence, never
    a violation) and the kernels the model predicts infeasible with those TLC rejects.
R3  Seeded random synthetic port models (2-6 ports, multi-character names, overlapping / nested /
    disjoint sets, 1-3 micro-ops, cycles 0.5-3, alternative assignments, forms without throughput,
    memory forms composed with load/store multipliers, comment/label/unknown lines) and shipped models x shipped example/test kernels, observed at
    the API after each stage and end-to-end through full_analysis_dict; validated by TLC."""
import collections
import json
import multiprocessing.pool
import os
import re

from harness import env, tlc
from harness import port_common as pc
from harness.verdict import Run

STAGES = ("uniform", "dict-uniform", "opt1", "opt2", "dict-opt2")


# ---------------------------------------------------------------------------------- R1
def r1(run, tier):
    cfgs = {"ideal": "MC_PortSched_quick_ideal", "code": "MC_PortSched_quick_code"} if tier == "quick" else \
           {"ideal": "MC_PortSched_multi_ideal", "code": "MC_PortSched_multi_code"}
    os.makedirs(tlc.WORK, exist_ok=True)
    outs = {k: os.path.join(tlc.WORK, "c01-%s-%d.ndjson" % (k, os.getpid())) for k in cfgs}
    for p in outs.values():
        if os.path.exists(p):
            os.unlink(p)

    def job(k):
        if k == "f1":
            return k, tlc.run_tlc("MC_PortSched", "MC_PortSched_f1", workers=4, timeout=900, allow_violation=True)
        return k, tlc.run_tlc("MC_PortSched", cfgs[k], env={"OUTFILE": outs[k]}, workers=6, timeout=1700)

    with multiprocessing.pool.ThreadPool(3) as tp:
        res = dict(tp.map(job, ["ideal", "code", "f1"]))
    for k, r in res.items():
        run.add_mc(r, "MC_PortSched(%s)" % (cfgs.get(k, "MC_PortSched_f1")))
    # self-test of the deviation switch: TLC itself must report the counterexample
    if "FeasibleAll" not in res["f1"].violated:
        raise tlc.TLCError("MC_PortSched_f1: the CapsResetPerPass counterexample was not found")
    m = re.findall(r"kernel = (<<[^\n]*>>)", res["f1"].raw)
    p = re.findall(r"press = (<<[^\n]*>>)", res["f1"].raw)
    run.note("tlc_counterexample_CapsResetPerPass", {"kernel": m[-1] if m else None, "press": p[-1] if p else None,
                                                     "invariant": "FeasibleAll", "depth": res["f1"].depth})
    code = collections.defaultdict(list)
    for rec in tlc.read_emitted(outs["code"]):
        code[tuple(rec["k"])].append(rec)
    ideal = collections.defaultdict(list)
    for rec in tlc.read_emitted(outs["ideal"]):
        ideal[tuple(rec["k"])].append(rec)
    for p in outs.values():
        os.unlink(p)
    run.note("levelB_ideal_kernels", len(ideal))
    run.note("levelB_ideal_all_feasible", all(r["feas"] for rs in ideal.values() for r in rs))
    return code


# ---------------------------------------------------------------------------------- verdict plumbing
def signature(source, stage, clause, cls):
    return "C01:%s:%s:%s:%s" % (source, stage, clause, cls)


def judge(run, recs, source_of, tagname):
    """recs: campaign records (cid, np, obs, abs|None, ...).  Builds the Trace_Port cases,
    lets TLC decide and reports.  Returns {cid|stage: clause} of the rejected cases."""
    cases, owner = [], {}
    for rec in recs:
        obs = rec["obs"]
        src = source_of(rec)
        ref = rec["abs"]
        if "load" in obs:
            run.fail("C01:exception:%s:load:%s" % (src, obs["load"]["where"]), obs["load"]["error"], _brief(rec))
            continue
        for stage in STAGES:
            o = obs.get(stage)
            if not o:
                continue
            if "error" in o:
                lines = ref if ref is not None else (obs.get("uniform") or {}).get("lines") or []
                cls = pc.fclass(pc.kernel_features(lines))
                run.fail("C01:exception:%s:%s:%s:%s:%s" % (src, stage, o["where"], o["error"].split(":")[0], cls),
                         "%s: %s raises %s at %s" % (rec["cid"], stage, o["error"], o["where"]), _brief(rec, stage))
            elif "unrepresentable" in o:
                run.divergence("unrepresentable", {"cid": rec["cid"], "stage": stage, "why": o["unrepresentable"]})
        cs = pc.c01_cases(rec["cid"], rec["np"], obs, ref, mults=rec.get("mults"))
        for c in cs:
            owner[c["id"]] = rec
        cases += cs
    if not cases:
        return {}
    # self-test of the binding: a corrupted copy of an accepted-looking snapshot must be rejected
    probe = next((c for c in cases if c["passes"] == 0 and any(any(ln["row"]) for ln in c["lines"])), None)
    if probe is not None:
        bad = json.loads(json.dumps(probe))
        bad["id"] = "selftest|" + probe["id"]
        ln = next(ln for ln in bad["lines"] if any(ln["row"]))
        k = next(i for i, v in enumerate(ln["row"]) if v)
        ln["row"][k] += 5 * pc.STEP
        cases.append(bad)
    chunks = [cases[i::4] for i in range(4)] if len(cases) > 4000 else [cases]
    with multiprocessing.pool.ThreadPool(len(chunks)) as tp:
        outs = tp.map(lambda ch: tlc.batch_validate("Trace_Port", "Trace_Port", ch[1], tag="c01-%s-%d" % (tagname, ch[0]),
                                                    timeout=1500), list(enumerate(chunks)))
    rejected = {}
    selftest_seen = []
    byid = {c["id"]: c for c in cases}
    for k, (rejects, r) in enumerate(outs):
        run.add_mc(r, "Trace_Port(%s/%d)" % (tagname, k))
        for cid, clause, rest in rejects:
            if cid.startswith("selftest|"):
                selftest_seen.append(cid)
                continue
            c = byid[cid]
            rec = owner[cid]
            stage = cid.rsplit("|", 1)[1]
            where = rest[0] if rest else 0
            rejected[cid] = clause
            if clause == "totals":
                cls = pc.fclass(pc.kernel_features(c["lines"]) & {"nosum"}) if not any(
                    ln["tp"] for ln in c["lines"]) else "sum"
                what = "%s %s: totals %s are not the rounded column sums over the summed lines (port %s)" % (
                    rec["cid"], stage, [v / pc.UNIT for v in c["totals"]], where)
            else:
                ln = c["lines"][where - 1]
                cls = pc.fclass(pc.line_features(ln["alts"]) or {"single-uop"})
                what = "%s %s line %d: row %s violates '%s' for micro-ops %s (eps %s)" % (
                    rec["cid"], stage, where, [round(v / pc.UNIT, 4) for v in ln["row"]], clause,
                    [[(u["c"] / pc.UNIT, u["p"]) for u in a] for a in ln["alts"]][:2],
                    0 if c["passes"] == 0 else "0.01 x %d passes x micro-ops" % c["passes"])
            run.fail(signature(source_of(rec), stage, clause, cls), what, _brief(rec, stage, c))
    if probe is not None:
        if not selftest_seen:
            raise tlc.TLCError("self-test: corrupted snapshot %s was not rejected" % probe["id"])
        cases = [c for c in cases if not c["id"].startswith("selftest|")]
        run.note("selftest_corrupted_snapshot_rejected_%s" % tagname, True)
    run.add_traces(len(cases))
    for c in cases:
        for i, ln in enumerate(c["lines"]):
            f = pc.line_features(ln["alts"])
            if "distinct-sets" in f or "alt" in f:
                run.mark("%s|%d" % (c["id"], i))
    return rejected


def _brief(rec, stage=None, case=None):
    b = {"cid": rec["cid"], "text": rec.get("text"), "stage": stage}
    if rec.get("model"):
        b["model"] = rec["model"]
        b["kernel"] = rec["kernel"]
    if rec.get("arch"):
        b["arch"] = rec["arch"]
    if case:
        b["case"] = case
    return b


# ---------------------------------------------------------------------------------- R2
def r2(run, tier, code):
    # quick: MC_PortSched!OverlapForms (quick kernels); thorough: MC_PortSched!MultiForms (all kernels <= 2)
    model = pc.multi_model(tier == "quick")
    d = env.scratch("c01-r2")
    path = pc.render_model(os.path.join(d, "multi.yml"), model)
    recs, items = [], []
    for k in sorted(code):
        kern = [x - 1 for x in k]
        cid = "mc" + "-".join(map(str, k))
        text = pc.render_kernel(kern)
        items.append((cid, text))
        recs.append({"cid": cid, "np": 3, "abs": pc.abstract_lines(model, kern), "model": None, "kernel": list(k),
                     "text": text, "k": k})
    obs = pc.observe_many([(("yaml", path), items, {"e2e": True})])
    for rec in recs:
        rec["obs"] = obs[rec["cid"]]
    rejected = judge(run, recs, lambda r: "mc", "r2")
    # Level B conformance and the model's predictions
    exact = near = 0
    pred_bad, seen_bad = set(), set()
    for rec in recs:
        rs = code[rec["k"]]
        if any(not r["feas"] for r in rs if not r["crash"]):
            pred_bad.add(rec["cid"])
        if any(cid.startswith(rec["cid"] + "|opt2") and cl != "totals" for cid, cl in rejected.items()):
            seen_bad.add(rec["cid"])
        o = rec["obs"].get("opt2")
        if not o or "lines" not in o:
            crashes = sorted({r["crash"] for r in rs if r["crash"]})
            if not crashes:
                run.divergence("levelB:code-raised-where-model-does-not", {"kernel": rec["kernel"], "obs": o})
            continue
        rows = [ln["row"] for ln in o["lines"]]
        best = min(max(abs(a - b) for ra, rb in zip(rows, r["rows"]) for a, b in zip(ra, rb)) for r in rs)
        if best == 0:
            exact += 1
        elif best <= pc.STEP:
            near += 1
        else:
            run.divergence("levelB:rows-differ-by-more-than-one-step",
                           {"kernel": rec["kernel"], "code": rows, "model": [r["rows"] for r in rs]})
    for cid in sorted(pred_bad ^ seen_bad):
        run.divergence("model_divergence:infeasibility-prediction", {"kernel": cid,
                       "model_predicts_infeasible": cid in pred_bad, "code_infeasible": cid in seen_bad})
    run.note("r2_kernels_replayed", len(recs))
    run.note("r2_levelB_rows_exact", exact)
    run.note("r2_levelB_rows_within_one_step", near)
    run.note("r2_infeasible_predicted_by_model", len(pred_bad))
    run.note("r2_infeasible_on_code", len(seen_bad))
    run.note("r2_prediction_agreement", len(pred_bad & seen_bad))
    if recs:
        w = next((r for r in recs if r["cid"] in seen_bad and len(r["k"]) == 1), None)
        if w:
            run.sample({"F1_minimal_witness": {"form": model["forms"][w["k"][0] - 1]["alts"][0], "ports": model["ports"],
                                               "rows_after_two_passes": [[v / pc.UNIT for v in ln["row"]]
                                                                         for ln in w["obs"]["opt2"]["lines"]]}})


# ---------------------------------------------------------------------------------- R3
def _alt_kernels():
    """Kernels that use the alternative-assignment entries of the shipped a64fx model."""
    return {"a64fx": [("alt-smlal", "smlal v0.2d, v1.2s, v2.2s\nfadd v3.2d, v4.2d, v5.2d\n"),
                      ("alt-smlal-x3", "smlal v0.2d, v1.2s, v2.2s\nsmlal v6.2d, v1.2s, v2.2s\nsmlal2 v7.2d, v1.4s, v2.4s\n")]}


def cli_fixed(run):
    """--fixed through the real CLI on an alternative-assignment entry (text report path)."""
    d = env.scratch("c01-cli")
    f = os.path.join(d, "smlal.s")
    with open(f, "w") as fh:
        fh.write("smlal v0.2d, v1.2s, v2.2s\n")
    for flags in (["--fixed"], []):
        rc, out, err = env.run_cli(["--arch", "a64fx"] + flags + [f])
        run.add_eval(1)
        if rc != 0:
            last = (err.strip().splitlines() or ["rc=%d" % rc])[-1]
            tb = re.findall(r'File "[^"]*/osaca/([^"]+)", line \d+, in (\w+)', err)
            where = "%s:%s" % (os.path.basename(tb[-1][0]), tb[-1][1]) if tb else "cli"
            run.fail("C01:exception:cli%s:a64fx:%s:%s:alt" % ("-fixed" if flags else "", where, last.split(":")[0]),
                     "osaca --arch a64fx %s on `smlal v0.2d, v1.2s, v2.2s` exits %d: %s" % (" ".join(flags), rc, last),
                     {"argv": ["--arch", "a64fx"] + flags, "kernel": "smlal v0.2d, v1.2s, v2.2s", "stderr": err[-1500:]})


def _t(label, t0=[None]):
    import sys
    import time
    now = time.time()
    if os.environ.get("VERIF_TIMING") and t0[0] is not None:
        print("  [timing] %s %.1fs" % (label, now - t0[0]), file=sys.stderr)
    t0[0] = now


def main(tier, seed):
    _t("start")
    run = Run("C01", tier, seed)
    run.rule = ("R2: every kernel of the MC_PortSched instance (terminal states emitted by TLC); R3: seeded random "
                "synthetic models x kernels and shipped models x shipped kernels; one case per (kernel, stage) "
                "snapshot with stage in {uniform, one pass, two passes, full_analysis_dict uniform / two passes}; "
                "non-trivial = an instruction line whose micro-ops have at least two distinct port sets or "
                "alternative assignments, per snapshot")
    code = r1(run, tier)
    _t("r1")
    r2(run, tier, code)
    _t("r2")
    nm, nk = (60, 10) if tier == "quick" else (500, 14)
    syn = pc.synthetic_campaign(seed, nm, nk, "c01-syn")
    _t("syn observe")
    judge(run, syn, lambda r: "syn", "syn")
    _t("syn judge")
    archs = (env.QUICK_X86 + env.QUICK_ARM) if tier == "quick" else (env.X86_ARCHS + env.ARM_ARCHS)
    if "zen1" not in archs:
        archs = archs + ["zen1"]
    ship = pc.shipped_campaign(archs, "c01-ship", extra_kernels=_alt_kernels())
    heads = pc.export_heads(archs)
    for rec in ship:
        rec["mults"] = heads.get(rec["arch"], {}).get("mults")
    _t("ship observe")
    judge(run, ship, lambda r: "ship:" + r["arch"], "ship")
    _t("ship judge")
    cli_fixed(run)
    _t("cli")
    run.note("synthetic_kernels", len(syn))
    run.note("shipped_model_kernel_pairs", len(ship))
    run.note("shipped_models", archs)
    for rec in syn[:2]:
        o = rec["obs"].get("opt2") or rec["obs"].get("uniform")
        if o and "lines" in o:
            run.sample({"cid": rec["cid"], "ports": rec["model"]["ports"], "kernel_text": rec["text"],
                        "rows_units": [ln["row"] for ln in o["lines"]], "totals_units": o["totals"]})
    run.assume("Level B (PortSched) abstracts float residue by a nondeterministic exact-zero test and does not model "
               "alternative assignments; it is used for R1 and as a conformance measure only")
    run.assume("rows are projected to the 1/12000-cycle lattice (tolerance 1e-6 cy); an unrepresentable value is "
               "recorded as a divergence")
    run.assume("for shipped models the micro-ops are the ones the code reports (port_uops / PortUops); load/store "
               "multipliers (zen1) are taken from a plain-YAML read of the model header and may scale any suffix of "
               "the reported micro-ops")
    # whole-run traces of `inspect` validated against specs/Osaca.tla (clauses owned by this property)
    from harness import osaca_run
    osaca_run.whole_runs(run, "C01", tier, seed, n_quick=24)
    return run.finish()


def replay(path):
    with open(path) as f:
        rec = json.load(f)
    print("replaying", rec["signature"])
    c = rec["case"]
    from harness import synth

    if c.get("model"):
        d = env.scratch("c01-replay")
        p = pc.render_model(os.path.join(d, "m.yml"), c["model"])
        mm, sem, parser = synth.load(p)
        obs = pc.observe(mm, sem, parser, c["text"], yaml_path=p)
    elif c.get("arch"):
        env.warm_models([c["arch"]])
        mm, sem, parser = synth.load_arch(c["arch"])
        obs = pc.observe(mm, sem, parser, c["text"], arch=c["arch"])
    else:
        print(json.dumps(c, indent=1)[:3000])
        return 0
    for st, o in obs.items():
        if "lines" in o:
            print(st, [[round(v / pc.UNIT, 4) for v in ln["row"]] for ln in o["lines"]], "totals",
                  [v / pc.UNIT for v in o["totals"]])
        else:
            print(st, o)
    return 0
