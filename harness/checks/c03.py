"""C03  Register dependency graph is exactly the read-after-write relation.

R1  MC_Deps: TLC enumerates all kernels up to a bound over an abstract instruction alphabet,
    runs the forward scan with kill (Level B, shaped like KernelDG.find_depending) and checks in
    every terminal state that the scanned edge set equals the declarative RAW relation of
    Deps.tla (forward only, kill, flags only on request, write-back links).
R2  The kernels TLC enumerated are emitted, rendered to assembly over synthetic ISA semantic
    databases (both ISAs, random register widths) and analysed by the real KernelDG.
R3  Seeded random kernels (<= 12 lines) over fresh random synthetic role tables and over the
    curated real vocabulary on shipped models, with and without flag dependencies.
Observed edges + weights (one iteration and two concatenated iterations) are validated by TLC
(Trace_Deps: clauses edges, dbl)."""
import json
import os
import random

from harness import deps_common as dc
from harness import deps_run
from harness.verdict import Run


def main(tier, seed):
    run = Run("C03", tier, seed)
    run.rule = ("a case = one analysed kernel (abstract R/W/flag sets known by construction) with the observed edge "
                "list; non-trivial = the kernel has at least one expected edge AND at least one killed candidate "
                "(a later reader shadowed by an intermediate writer); distinct by rendered text")
    cases = deps_run.run_family(run, "C03", tier, seed, checks=("edges", "dbl"))
    for c in cases:
        if "error" not in c and deps_run.nontrivial_edges(c):
            run.mark(c["text"] + "|" + c["id"].split(":")[2])
    # whole-run traces of `inspect` validated against specs/Osaca.tla (clauses owned by this property)
    from harness import osaca_run
    osaca_run.whole_runs(run, "C03", tier, seed, n_quick=24)
    return run.finish()


def replay(path):
    return deps_run.replay(path)
