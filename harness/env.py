"""Process environment for checks: import osaca from the repository's *current working tree*,
sandbox HOME so that model caches written during a check never touch /repo and can never be
stale with respect to the loader code (the sandbox is keyed by a hash of all osaca/*.py)."""
import concurrent.futures
import glob
import hashlib
import os
import re
import shutil
import subprocess
import sys

VERIF = os.path.dirname(os.path.dirname(os.path.abspath(__file__)))
REPO = os.environ.get("VERIF_REPO", "/repo")
WORK = os.path.join(VERIF, ".work")
PY = "/venv/bin/python"

X86_ARCHS = ["zen1", "zen2", "zen3", "zen4", "snb", "ivb", "hsw", "icl", "icx", "spr"]
ARM_ARCHS = ["a64fx", "a72", "m1", "n1", "tsv110", "tx2", "v2"]
EMPTY_ARCHS = ["bdw", "csx", "skx"]
# small models (fast cold load) used by quick tiers
QUICK_X86 = ["zen1", "zen4", "spr"]
QUICK_ARM = ["n1", "tx2", "a64fx"]


def code_hash():
    h = hashlib.sha256()
    for p in sorted(glob.glob(os.path.join(REPO, "osaca", "**", "*.py"), recursive=True)):
        h.update(p.encode())
        with open(p, "rb") as f:
            h.update(f.read())
    return h.hexdigest()[:16]


def _link(src, dst):
    try:
        os.symlink(src, dst)
    except FileExistsError:
        pass


def sandbox_home(fresh=False, tag=None):
    """Create (or reuse) a HOME whose ~/.osaca/data links every shipped model file."""
    name = tag or code_hash()
    home = os.path.join(WORK, "home", name)
    data = os.path.join(home, ".osaca", "data")
    if fresh and os.path.isdir(home):
        shutil.rmtree(home)
    if not os.path.isdir(data):
        # prune sandboxes of other code versions, but never ones that may be in use by a
        # concurrently running check (younger than 6 hours)
        base = os.path.join(WORK, "home")
        if os.path.isdir(base) and tag is None:
            import time as _t
            for d in os.listdir(base):
                p = os.path.join(base, d)
                try:
                    old = _t.time() - os.path.getmtime(p) > 6 * 3600
                    if old and d != name and (len(d) == 16 or re.search(r"-\d+$", d)):
                        shutil.rmtree(p, ignore_errors=True)
                except OSError:
                    pass
        os.makedirs(os.path.join(data, "isa"), exist_ok=True)
        for y in glob.glob(os.path.join(REPO, "osaca", "data", "*.yml")):
            _link(y, os.path.join(data, os.path.basename(y)))
        for y in glob.glob(os.path.join(REPO, "osaca", "data", "isa", "*.yml")):
            _link(y, os.path.join(data, "isa", os.path.basename(y)))
    return home


def activate(home=None):
    """Make this interpreter import osaca from REPO with HOME sandboxed.  Must run before
    the first `import osaca`."""
    assert "osaca" not in sys.modules, "activate() must precede import osaca"
    home = home or sandbox_home()
    os.environ["HOME"] = home
    os.environ["PYTHONHASHSEED"] = os.environ.get("PYTHONHASHSEED", "0")
    if sys.path[0] != REPO:
        sys.path.insert(0, REPO)
    import osaca  # noqa

    assert os.path.realpath(os.path.dirname(osaca.__file__)) == os.path.realpath(
        os.path.join(REPO, "osaca")
    ), "osaca imported from %s, expected %s" % (osaca.__file__, REPO)
    import warnings

    warnings.filterwarnings("ignore")
    return home


def child_env(home=None, extra=None):
    e = dict(os.environ)
    e["HOME"] = home or sandbox_home()
    e["PYTHONPATH"] = REPO + os.pathsep + VERIF
    e["PYTHONHASHSEED"] = "0"
    e["PYTHONDONTWRITEBYTECODE"] = "1"
    e["PYTHONWARNINGS"] = "ignore"
    if extra:
        e.update(extra)
    return e


def _warm_one(args):
    arch, home = args
    # per-(sandbox, arch) lock: OSACA writes its pickle in place, so two cold loads of the same
    # model must not overlap inside the shared sandbox (this is harness hygiene, not C17)
    code = (
        "import fcntl, os, glob\n"
        "d = os.path.join(os.environ['HOME'], '.osaca', 'data')\n"
        "lk = open(os.path.join(d, '.lock_%s' % {a!r}), 'w')\n"
        "fcntl.flock(lk, fcntl.LOCK_EX)\n"
        "if not glob.glob(os.path.join(d, '.%s_*.pickle' % {a!r})):\n"
        "    from osaca.semantics import MachineModel; MachineModel(arch={a!r})\n"
    ).format(a=arch)
    p = subprocess.run([PY, "-B", "-c", code], env=child_env(home), cwd="/", stdout=subprocess.PIPE,
                       stderr=subprocess.STDOUT)
    return arch, p.returncode, p.stdout.decode("utf-8", "replace")[-2000:]


def warm_models(archs, home=None):
    """Load each model once in a fresh process (in parallel) so later loads hit the sandbox
    pickle written by the *current* loader code."""
    home = home or sandbox_home()
    data = os.path.join(home, ".osaca", "data")
    todo = [a for a in archs if not glob.glob(os.path.join(data, ".%s_*.pickle" % a))]
    res = {}
    for isa in ("x86", "aarch64"):
        if not glob.glob(os.path.join(data, "isa", ".%s_*.pickle" % isa)):
            code = (
                "import fcntl, os\n"
                "lk = open(os.path.join(os.environ['HOME'], '.osaca', 'data', 'isa', '.lock_%s'), 'w')\n"
                "fcntl.flock(lk, fcntl.LOCK_EX)\n"
                "from osaca.semantics import ISASemantics; ISASemantics(%r)\n"
            ) % (isa, isa)
            p = subprocess.run([PY, "-B", "-c", code], env=child_env(home), cwd="/", stdout=subprocess.PIPE,
                               stderr=subprocess.STDOUT)
            res["isa:" + isa] = (p.returncode, p.stdout.decode("utf-8", "replace")[-2000:])
    if todo:
        with concurrent.futures.ThreadPoolExecutor(max_workers=16) as ex:
            for arch, rc, out in ex.map(_warm_one, [(a, home) for a in todo]):
                res[arch] = (rc, out)
    return res


def run_cli(argv, home=None, timeout=600, cwd=None, extra_env=None, input_bytes=None):
    """Run `osaca <argv>` in a fresh interpreter against REPO.  Returns (rc, stdout, stderr)."""
    p = subprocess.run(
        [PY, "-B", "-c", "import sys; from osaca.osaca import main; sys.argv=['osaca']+sys.argv[1:]; main()"]
        + list(argv),
        env=child_env(home, extra_env), cwd=cwd or "/", stdout=subprocess.PIPE, stderr=subprocess.PIPE,
        timeout=timeout, input=input_bytes,
    )
    return p.returncode, p.stdout.decode("utf-8", "replace"), p.stderr.decode("utf-8", "replace")


_SCRATCH_MADE = {}


def scratch(tag):
    """A fresh scratch directory that belongs to the calling process (two checks - or two runs of one
    check - running at the same time must not delete each other's files); removed when that process
    exits, left-overs of killed runs are pruned after six hours."""
    import atexit
    import time as _t

    root = os.path.join(WORK, "scratch")
    os.makedirs(root, exist_ok=True)
    pid = os.getpid()
    d = os.path.join(root, "%s-%d" % (tag, pid))
    if os.path.isdir(d):
        shutil.rmtree(d, ignore_errors=True)
    os.makedirs(d, exist_ok=True)
    if pid not in _SCRATCH_MADE:
        _SCRATCH_MADE[pid] = []

        def _cleanup(owner=pid):
            if os.getpid() == owner:
                for x in _SCRATCH_MADE.get(owner, []):
                    shutil.rmtree(x, ignore_errors=True)
        atexit.register(_cleanup)
        try:
            now = _t.time()
            for name in os.listdir(root):
                x = os.path.join(root, name)
                if now - os.path.getmtime(x) > 6 * 3600:
                    shutil.rmtree(x, ignore_errors=True) if os.path.isdir(x) else os.unlink(x)
        except OSError:
            pass
    _SCRATCH_MADE[pid].append(d)
    return d