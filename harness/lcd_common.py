"""Shared machinery for C16 / C19 (parallel loop-carried-dependency search, LCDSearch*.tla).

* abstract kernels (every line writes a register of its own and reads the registers of the lines
  in src[i]) rendered 1:1 to assembly over a small synthetic machine model, so that the
  abstraction of the input is known by construction (the per-root paths / cycles / latencies are
  then computed by TLC from the abstract kernel, LCDSearch!Build);
* denser generated kernels and padded shipped kernels for real multi-process runs;
* projection of KernelDG results (LCD dictionary -> sorted [key, lat, elat] in 1/12000 cycle);
* an event recorder that wraps `Process`, `Manager`, `cpu_count`, `time`, `os` of
  osaca.semantics.kernel_dg FROM THE OUTSIDE (no edit under /repo) around the real
  multiprocessing objects, seeded delays in the worker wrapper, and the projection of the raw
  log to the event vocabulary of Trace_LCDSearch.tla (shared with harness/vproc.py)."""
import json
import os
import re
import random
import signal
import time as _time

from harness import env, synth

U = 12000
LATS = (1, 3, 5)


def units(x):
    v = round(float(x) * U)
    if abs(float(x) * U - v) > 1e-3:
        raise ValueError("latency %r is not on the 1/12000 lattice" % (x,))
    return int(v)


# ------------------------------------------------------------------------------------------
# synthetic machine model: forms s<nsrc>l<lat>  (nsrc register sources, one register
# destination written last, latency lat cycles); nsrc = 0 takes an immediate
# ------------------------------------------------------------------------------------------
# latencies that are no dyadic fractions: sums of them depend on the order of addition
ND_LATS = {1: 0.1, 3: 0.3, 5: 0.7}


def write_models(dirpath, latmap=None):
    def R(s=None, d=None):
        o = {"class": "register", "name": "*"}
        if s is not None:
            o["source"], o["destination"] = s, d
        return o

    def I(s=None, d=None):
        o = {"class": "immediate", "imd": "int"}
        if s is not None:
            o["source"], o["destination"] = s, d
        return o

    forms, isaforms = [], []
    for ns in range(0, 4):
        for lat in LATS:
            name = "s%dl%d" % (ns, lat)
            ops = [R() for _ in range(ns)] if ns else [I()]
            forms.append({"name": name, "operands": ops + [R()], "throughput": 1.0,
                          "latency": float(latmap[lat]) if latmap else float(lat),
                          "port_pressure": [[1, "01"]]})
            iops = [R(True, False) for _ in range(ns)] if ns else [I(True, False)]
            isaforms.append({"name": name, "operands": iops + [R(False, True)]})
    arch = os.path.join(dirpath, "lcd_arch.yml")
    isa = os.path.join(dirpath, "lcd_isa.yml")
    synth.write_arch_model(arch, "x86", ["0", "1"], forms)
    synth.write_isa_db(isa, "x86", isaforms)
    return arch, isa


_SYN = {}


def synthetic_env(nd=False):
    """(mm, sem, parser) over the synthetic model (cached per process); nd: the variant whose latencies are
    0.1 / 0.3 / 0.7 cycles instead of 1 / 3 / 5."""
    if nd:
        if "nd" not in _SYN:
            synthetic_env()
            d = os.path.join(_SYN["dir"], "nd")
            os.makedirs(d, exist_ok=True)
            arch, isa = write_models(d, ND_LATS)
            _SYN["nd"] = synth.load(arch, isa)
        return _SYN["nd"]
    if "v" not in _SYN:
        d = os.path.join(env.WORK, "scratch", "lcds-model-%d" % os.getpid())
        os.makedirs(d, exist_ok=True)
        arch, isa = write_models(d)
        _SYN["v"] = synth.load(arch, isa)
        _SYN["dir"] = d
        _SYN["pid"] = os.getpid()
        import atexit

        atexit.register(lambda: cleanup_synthetic() if _SYN.get("pid") == os.getpid() else None)
    return _SYN["v"]


def cleanup_synthetic():
    import shutil

    if _SYN.get("pid") not in (None, os.getpid()):
        return                     # forked child: the directory belongs to the parent
    d = _SYN.pop("dir", None)
    _SYN.pop("v", None)
    _SYN.pop("nd", None)
    _SYN.pop("pid", None)
    if d:
        shutil.rmtree(d, ignore_errors=True)


# 46 architecturally independent registers (RegAlias families)
REGS = (["xmm%d" % i for i in range(16)] + ["zmm%d" % i for i in range(16, 32)]
        + ["r%d" % i for i in range(8, 16)] + ["rax", "rbx", "rcx", "rdx", "rsi", "rdi"])


def render_abstract(k, shift=0, comments=False):
    """k = {n, src: [[producer positions]], lat: [units]} -> assembly text.  Line i (1-based
    position) writes REGS[i-1] and reads REGS[p-1] for p in src[i].  `shift` blank lines are put
    in front (line numbers != positions); with `comments`, lines nobody reads and that read
    nothing are rendered as comment lines (the parser keeps them as kernel lines)."""
    n = k["n"]
    assert n <= len(REGS)
    read = set(p for s in k["src"] for p in s)
    out = ["" for _ in range(shift)]
    for i in range(1, n + 1):
        src = sorted(k["src"][i - 1])
        lat = k["lat"][i - 1] // U
        assert lat in LATS and len(src) <= 3
        if comments and not src and i not in read:
            out.append("# line %d" % i)
            continue
        ops = ["%" + REGS[p - 1] for p in src] if src else ["$%d" % i]
        out.append("s%dl%d %s, %%%s" % (len(src), lat, ", ".join(ops), REGS[i - 1]))
    return "\n".join(out) + "\n"


def random_abstract(rnd, n, maxsrc=2, span=None, p_none=0.15):
    """random abstract kernel: producers drawn from the `span` preceding lines (cyclically)."""
    span = span or n
    src = []
    for i in range(1, n + 1):
        if rnd.random() < p_none:
            src.append([])
            continue
        cnt = rnd.randint(1, maxsrc)
        cand = [((i - 1 - d) % n) + 1 for d in range(0, span)]
        src.append(sorted(set(rnd.sample(cand, min(cnt, len(cand))))))
    return {"n": n, "src": src, "lat": [rnd.choice(LATS) * U for _ in range(n)]}


def random_dense_text(rnd, n, pool=6, nsrc=2, p_pad=0.0):
    """generated kernel with register reuse: every line writes one of `pool` registers and reads
    up to `nsrc` of them -> many overlapping dependency cycles (abstraction by observation)."""
    regs = REGS[:pool]
    out = []
    for i in range(n):
        if rnd.random() < p_pad:
            out.append("# pad %d" % i)
            continue
        ns = rnd.randint(1, nsrc)
        out.append("s%dl%d %s, %%%s" % (ns, rnd.choice(LATS), ", ".join("%" + rnd.choice(regs) for _ in range(ns)),
                                       rnd.choice(regs)))
    return "\n".join(out) + "\n"


def analyse_text(text, tools, timeout=-1, build_graph=False):
    """parse + semantics (no graph unless asked)."""
    mm, sem, parser = tools
    kernel = parser.parse_file(text)
    sem.add_semantics(kernel)
    return kernel


# ------------------------------------------------------------------------------------------
# projection
# ------------------------------------------------------------------------------------------
def positions(kernel):
    return {ins.line_number: i + 1 for i, ins in enumerate(kernel)}


def project_lcds(lcd_dict, kernel):
    """LCD dictionary -> sorted list of {key: [positions], lat: units, elat: [units]} plus a list of
    formal defects of the dictionary itself (key text vs member lines, root, latency sum)."""
    pos = positions(kernel)
    out, defects = [], []
    for key, v in lcd_dict.items():
        lines = [d[0].line_number for d in v["dependencies"]]
        el = [units(d[1]) for d in v["dependencies"]]
        if "-".join(str(x) for x in lines) != key:
            defects.append("key %r does not list the member lines %r" % (key, lines))
        if v["root"].line_number != lines[0]:
            defects.append("root of %r is line %d" % (key, v["root"].line_number))
        out.append({"key": [pos[x] for x in lines], "lat": units(v["latency"]), "elat": el})
    out.sort(key=lambda c: (c["key"], c["lat"]))
    return out, defects


def path_cycle(path, dg2, offset, pos):
    """projection of one collected path (node list of the two-iteration graph) to its cycle:
    (sorted member positions, per-edge latencies, sum)."""
    mem = []
    for s, d in zip(path[:-1], path[1:]):
        lat = units(dg2.edges[s, d]["latency"])
        mem.append((pos[s - offset if s >= offset else s], lat))
    mem.sort()
    return tuple(m[0] for m in mem), tuple(m[1] for m in mem)


# ------------------------------------------------------------------------------------------
# raw event log (real processes): one JSON line per event, O_APPEND, monotonic clock
# ------------------------------------------------------------------------------------------
_ABSENT = object()

class EventLog:
    def __init__(self, path):
        self.path = path
        self.fd = os.open(path, os.O_WRONLY | os.O_CREAT | os.O_APPEND, 0o600)

    def log(self, k, **kw):
        kw["k"] = k
        kw["t"] = _time.monotonic_ns()
        os.write(self.fd, (json.dumps(kw, separators=(",", ":")) + "\n").encode())

    def read(self):
        ev = []
        with open(self.path) as f:
            for line in f:
                if line.endswith("\n"):
                    ev.append(json.loads(line))
        ev.sort(key=lambda e: e["t"])
        return ev

    def close(self):
        try:
            os.close(self.fd)
        except OSError:
            pass
        try:
            os.unlink(self.path)
        except OSError:
            pass


class _LoggedList:
    """what the worker sees instead of the Manager list proxy: delays + logs every extend."""

    def __init__(self, proxy, w, roots, log, delays):
        self._p, self._w, self._roots, self._log, self._d = proxy, w, roots, log, delays
        self._i = 0

    def extend(self, items):
        items = list(items)
        root = self._roots[self._i] if self._i < len(self._roots) else -1
        if items and items[0] and items[0][0] != root:
            root = items[0][0]
        d = self._d(self._w, self._i) if self._d else 0.0
        self._i += 1
        if d > 0:
            _time.sleep(d)
        self._log.log("app_begin", w=self._w, root=root, n=len(items))
        r = self._p.extend(items)
        self._log.log("app_end", w=self._w, root=root, n=len(items))
        return r

    def __getattr__(self, name):
        return getattr(self._p, name)


def _worker_shim(w, target, args, log, delays):
    log.log("wbegin", w=w, pid=os.getpid())
    dst, section = args[0], args[1]
    try:
        roots = [ins.line_number for ins in section]
    except Exception:
        roots = []
    target(_LoggedList(dst, w, roots, log, delays), *args[1:])
    log.log("wend", w=w)


class RealRecorder:
    """Substitutes Process / Manager / cpu_count / time / os in osaca.semantics.kernel_dg by thin
    logging wrappers around the real objects.  Use as a context manager."""

    def __init__(self, nw, logpath, delays=None):
        import multiprocessing

        self.mp = multiprocessing
        self.nw = nw
        self.log = EventLog(logpath)
        self.delays = delays
        self.procs = []
        self.copied = None
        self.saved = {}

    # -- factories handed to kernel_dg
    def _Process(self, target=None, args=(), **kw):
        rec = self
        w = len(self.procs)

        class P:
            def __init__(s):
                s.p = rec.mp.Process(target=_worker_shim, args=(w, target, args, rec.log, rec.delays), **kw)
                s.w = w

            def start(s):
                rec.log.log("pstart", w=s.w)
                return s.p.start()

            def is_alive(s):
                v = s.p.is_alive()
                rec.log.log("alive", w=s.w, v=bool(v))
                return v

            def join(s, *a):
                rec.log.log("join_begin", w=s.w)
                r = s.p.join(*a)
                rec.log.log("join_end", w=s.w)
                return r

            def kill(s):
                rec.log.log("kill", w=s.w)
                return s.p.kill()

            def terminate(s):
                rec.log.log("kill", w=s.w)
                return s.p.terminate()

            def __getattr__(s, name):
                return getattr(s.p, name)

        p = P()
        self.procs.append(p)
        return p

    def _Manager(self):
        rec = self

        class L:
            def __init__(s, proxy):
                s.p = proxy

            def extend(s, x):
                return s.p.extend(x)

            def _copy(s):
                rec.log.log("copy_begin")
                r = list(s.p)
                rec.copied = r
                rec.log.log("copy_end", n=len(r))
                return r

            def __iter__(s):
                return iter(s._copy())

            def __len__(s):
                return len(s.p)

            def __getitem__(s, i):
                if isinstance(i, slice):
                    return s._copy()[i]
                return s.p[i]

            def __getattr__(s, name):
                return getattr(s.p, name)

        class M:
            def __init__(s):
                s.m = rec.mp.Manager()

            def __enter__(s):
                s.m.__enter__()
                return s

            def __exit__(s, *a):
                rec.log.log("mgr_exit")
                return s.m.__exit__(*a)

            def list(s, *a):
                return L(s.m.list(*a))

            def __getattr__(s, name):
                return getattr(s.m, name)

        return M()

    def __enter__(self):
        import osaca.semantics.kernel_dg as kd

        rec = self

        class T:
            def time(s):
                v = _time.time()
                rec.log.log("time", v=v)
                return v

            def sleep(s, x):
                rec.log.log("sleep", v=x)
                return _time.sleep(x)

            def __getattr__(s, name):
                return getattr(_time, name)

        class O:
            def kill(s, pid, sig):
                ws = [p.w for p in rec.procs if p.p.pid == pid]
                rec.log.log("kill", w=ws[0] if ws else -1)
                return os.kill(pid, sig)

            def __getattr__(s, name):
                return getattr(os, name)

        self.kd = kd
        for name, val in (("Process", self._Process), ("Manager", self._Manager),
                          ("cpu_count", lambda: rec.nw), ("time", T()), ("os", O())):
            self.saved[name] = getattr(kd, name, _ABSENT)   # a collaborator the module no longer imports
            setattr(kd, name, val)
        return self

    def __exit__(self, *a):
        for name, val in self.saved.items():
            if val is _ABSENT:
                delattr(self.kd, name)
            else:
                setattr(self.kd, name, val)
        return False


# ------------------------------------------------------------------------------------------
# raw log -> events of Trace_LCDSearch
# ------------------------------------------------------------------------------------------
def project_events(raw, timeout, pos, batches=None, ordered=False):
    """raw: time-ordered raw events (RealRecorder or vproc).  Returns the event list
       start | append w root n | exit w | check expired alive | sleep | kill ws | join | copy batches | return
    Rules (real processes, see DESIGN 5/C19): `start` is the first Process.start(); a worker's
    exit is placed right after the last moment the coordinator saw it alive (or at its own last
    event, whichever is later) and dropped if the worker was killed; an append that was begun
    but not acknowledged by a killed worker is kept iff its batch is in the copied list."""
    ev = []
    killed = set(e["w"] for e in raw if e["k"] == "kill")
    copied_roots = set(b[0] for b in (batches or []))
    last_alive = {}
    for i, e in enumerate(raw):
        if e["k"] == "alive" and e["v"]:
            last_alive[e["w"]] = i
    wend = {e["w"]: i for i, e in enumerate(raw) if e["k"] == "wend"}
    exit_at = {}
    started = set(e["w"] for e in raw if e["k"] == "pstart")
    for w in started:
        if w in killed:
            continue
        idx = max(wend.get(w, -1), last_alive.get(w, -1))
        if w not in wend:
            # never reported the end of its work: exits when first seen dead / joined
            for i, e in enumerate(raw):
                if e.get("w") == w and ((e["k"] == "alive" and not e["v"]) or e["k"] == "join_end"):
                    idx = max(idx, i - 1)
                    break
        exit_at.setdefault(idx, []).append(w)
    ended = set((e["w"], e["root"]) for e in raw if e["k"] == "app_end")
    start_time = None
    seen_start = False
    in_kill_branch = False
    closed = False

    def close():
        # the coordinator left the poll loop / the blocking joins: Kill or JoinAll
        if in_kill_branch:
            ev.append({"e": "kill", "ws": sorted(killed)})
        else:
            ev.append({"e": "join"})

    for i, e in enumerate(raw):
        k = e["k"]
        if k == "pstart":
            if not seen_start:
                ev.append({"e": "start"})
                seen_start = True
        elif k == "app_begin":
            if (e["w"], e["root"]) in ended or e["n"] == 0 or e["root"] in copied_roots:
                ev.append({"e": "append", "w": e["w"], "root": pos.get(e["root"], 0), "n": e["n"]})
        elif k == "time":
            if start_time is None:
                start_time = e["v"]
            else:
                expired = not (e["v"] - start_time <= timeout)
                alive = False
                if not expired:
                    for x in raw[i + 1:]:
                        if x["k"] == "alive":
                            if x["v"]:
                                alive = True
                        elif x["k"] not in ("app_begin", "app_end", "wbegin", "wend"):
                            break
                ev.append({"e": "check", "expired": expired, "alive": alive})
                if expired:
                    in_kill_branch = True
        elif k == "sleep":
            ev.append({"e": "sleep"})
        elif k == "copy_begin":
            if not closed:
                close()
                closed = True
            ev.append({"e": "copy", "batches": [[pos.get(b[0], 0), b[1]] for b in (batches or [])],
                       "ordered": bool(ordered)})
        for w in exit_at.get(i, []):
            ev.append({"e": "exit", "w": w})
    if not closed and (in_kill_branch or any(e["k"] == "join_end" for e in raw)):
        close()
    return ev


def batches_of(copied):
    """copied list of paths -> [[root line, number of paths]] in list order (consecutive runs);
    empty appends are invisible here."""
    out = []
    for p in copied:
        r = p[0]
        if out and out[-1][0] == r:
            out[-1][1] += 1
        else:
            out.append([r, 1])
    return out


# ------------------------------------------------------------------------------------------
# children
# ------------------------------------------------------------------------------------------
def children_of(pid):
    """[(pid, state, comm)] of live entries in /proc whose parent is pid."""
    out = []
    for d in os.listdir("/proc"):
        if not d.isdigit():
            continue
        try:
            with open("/proc/%s/stat" % d) as f:
                s = f.read()
        except OSError:
            continue
        r = s.rfind(")")
        comm = s[s.find("(") + 1: r]
        f = s[r + 2:].split()
        if int(f[1]) == pid:
            out.append((int(d), f[0], comm))
    return out


def calibrate(nw):
    """fork/join calibration: a Manager, nw trivial workers appending once, join, copy."""
    import multiprocessing as mp

    t0 = _time.time()
    with mp.Manager() as m:
        lst = m.list()
        ps = [mp.Process(target=lst.extend, args=([[1, 2]],)) for _ in range(nw)]
        for p in ps:
            p.start()
        for p in ps:
            p.join()
        list(lst)
    return _time.time() - t0


# ------------------------------------------------------------------------------------------
# TLC state graphs (-dump dot,actionlabels): parsing, action inference, transition cover
# ------------------------------------------------------------------------------------------
def parse_tla(s):
    """TLA+ value printed by TLC -> Python (functions k :> v @@ ... and records -> dict,
    tuples/sets -> list, a..b -> list)."""
    import re

    pos = 0
    n = len(s)

    def ws():
        nonlocal pos
        while pos < n and s[pos] in " \n\t":
            pos += 1

    def atom():
        nonlocal pos
        ws()
        if s.startswith("<<", pos):
            pos += 2
            return seq(">>")
        c = s[pos]
        if c == "{":
            pos += 1
            return seq("}")
        if c == "[":
            pos += 1
            d = {}
            while True:
                ws()
                m = re.match(r"(\w+)\s*\|->", s[pos:])
                pos += m.end()
                d[m.group(1)] = val()
                ws()
                if s[pos] == "]":
                    pos += 1
                    return d
                pos += 1
        if c == "(":
            pos += 1
            d = {}
            while True:
                k = atom()
                ws()
                assert s.startswith(":>", pos), s[pos:pos + 20]
                pos += 2
                d[k if not isinstance(k, list) else tuple(k)] = atom()
                ws()
                if s.startswith("@@", pos):
                    pos += 2
                    continue
                assert s[pos] == ")", s[pos:pos + 20]
                pos += 1
                return d
        if c == '"':
            e = s.index('"', pos + 1)
            v = s[pos + 1:e]
            pos = e + 1
            return v
        m = re.match(r"-?\d+", s[pos:])
        if m:
            pos += m.end()
            return int(m.group(0))
        m = re.match(r"TRUE|FALSE", s[pos:])
        if m:
            pos += m.end()
            return m.group(0) == "TRUE"
        raise ValueError("cannot parse %r" % s[pos:pos + 40])

    def val():
        nonlocal pos
        a = atom()
        ws()
        if s.startswith("..", pos):
            pos += 2
            b = atom()
            return list(range(a, b + 1))
        return a

    def seq(close):
        nonlocal pos
        items = []
        ws()
        if s.startswith(close, pos):
            pos += len(close)
            return items
        while True:
            items.append(val())
            ws()
            if s.startswith(close, pos):
                pos += len(close)
                return items
            assert s[pos] == ",", s[pos:pos + 20]
            pos += 1

    return val()


def parse_state(label):
    """state printed inside a dot label (escaped)"""
    return parse_state_text(
        label.replace("\\\\", "\x00").replace("\\n", "\n").replace('\\"', '"').replace("\x00", "\\"))


def parse_state_text(txt):
    import re

    st = {}
    for part in re.split(r"(?:^|\n)/\\ ", txt):
        if not part.strip():
            continue
        name, v = part.split(" = ", 1)
        st[name.strip()] = parse_tla(v)
    return st


def load_dot(path):
    """-> (states: id -> dict, edges: [(src, dst)], inits: [id])"""
    import re

    states, edges, inits = {}, [], []
    node_re = re.compile(r'^(-?\d+) \[label="((?:[^"\\]|\\.)*)"(.*)\]\s*;?\s*$')
    edge_re = re.compile(r"^(-?\d+) -> (-?\d+) ")
    with open(path) as f:
        for line in f:
            m = edge_re.match(line)
            if m:
                if m.group(1) != m.group(2):
                    edges.append((m.group(1), m.group(2)))
                continue
            m = node_re.match(line)
            if m:
                if m.group(1) not in states:
                    states[m.group(1)] = parse_state(m.group(2))
                if "style = filled" in m.group(3) and m.group(1) not in inits:
                    inits.append(m.group(1))
    return states, sorted(set(edges)), inits


def infer_action(a, b):
    """the LCDSearchSM action that leads from state a to state b"""
    if a["cpc"] != b["cpc"]:
        return {("start", "poll"): ("StartAll",), ("start", "join"): ("StartAll",),
                ("poll", "kill"): ("Check",), ("poll", "sleep"): ("Check",), ("poll", "join"): ("Check",),
                ("sleep", "poll"): ("Sleep",), ("join", "copy"): ("JoinAll",), ("kill", "copy"): ("Kill",),
                ("copy", "post"): ("Copy",), ("post", "done"): ("PostProcess",)}[(a["cpc"], b["cpc"])]
    if a["expired"] != b["expired"]:
        return ("Tick",)
    for w in a["wst"]:
        if a["wst"][w] != b["wst"][w] or a["wpos"][w] != b["wpos"][w]:
            return ("WStep", w)
    raise ValueError("cannot infer the action between %r and %r" % (a, b))


def transition_cover(states, edges, inits, rnd=None, limit=None):
    """A set of paths from initial states to terminal states that together traverse every edge.
    Returns [[state id, ...]].  With `limit`, a seeded sample of the paths (the evidence says so)."""
    from collections import deque

    succ, pred = {}, {}
    for u, v in edges:
        succ.setdefault(u, []).append(v)
        pred.setdefault(v, []).append(u)
    # shortest path tree from the initial states
    par = {i: None for i in inits}
    dq = deque(inits)
    while dq:
        u = dq.popleft()
        for v in succ.get(u, []):
            if v not in par:
                par[v] = u
                dq.append(v)
    # next hop towards a terminal state
    term = [s for s in states if states[s]["cpc"] == "done"]
    nxt = {t: None for t in term}
    dq = deque(term)
    while dq:
        v = dq.popleft()
        for u in pred.get(v, []):
            if u not in nxt:
                nxt[u] = v
                dq.append(u)
    uncovered = set(e for e in edges if e[0] in par)
    order = sorted(uncovered)
    if rnd is not None:
        rnd.shuffle(order)
    paths = []
    for e in order:
        if e not in uncovered:
            continue
        u, v = e
        head = []
        x = u
        while x is not None:
            head.append(x)
            x = par[x]
        head.reverse()
        path = head + [v]
        for a, b in zip(path[:-1], path[1:]):
            uncovered.discard((a, b))
        # greedy continuation along uncovered edges
        cur = v
        steps = 0
        while steps < 200:
            cand = [w for w in succ.get(cur, []) if (cur, w) in uncovered]
            if not cand:
                break
            w = cand[0] if rnd is None else rnd.choice(cand)
            uncovered.discard((cur, w))
            path.append(w)
            cur = w
            steps += 1
        while nxt.get(cur) is not None:
            uncovered.discard((cur, nxt[cur]))
            cur = nxt[cur]
            path.append(cur)
        paths.append(path)
    total = len(paths)
    if limit is not None and len(paths) > limit:
        r = rnd or random.Random(0)
        paths = r.sample(paths, limit)
    return paths, total


# ------------------------------------------------------------------------------------------
# R2: replay of TLC behaviours on the real code under the virtual scheduler
# ------------------------------------------------------------------------------------------
class KernelCache:
    """abstract kernel (table row emitted by TLC) -> rendered text, analysed kernel, sequential result"""

    def __init__(self, tools):
        self.tools = tools
        self.cache = {}

    def get(self, row, variant=0):
        key = (row["fam"], row["n"], variant)
        if key not in self.cache:
            k = {"n": row["n"], "src": row["src"], "lat": row["lat"]}
            text = render_abstract(k, shift=(variant % 3), comments=bool(variant & 1))
            kernel = analyse_text(text, self.tools)
            assert len(kernel) == row["n"], (text, len(kernel))
            seq = sequential_result(kernel, self.tools)
            self.cache[key] = (text, kernel, seq)
        return self.cache[key]


def sequential_result(kernel, tools, flag_deps=False):
    """the single-process search of the real code (threshold above the kernel length)"""
    import osaca.semantics.kernel_dg as kd

    mm, sem, parser = tools
    saved = kd.KernelDG.INSTRUCTION_THRESHOLD
    kd.KernelDG.INSTRUCTION_THRESHOLD = len(kernel) + 1
    try:
        dg = kd.KernelDG(kernel, parser, mm, sem, -1, flag_deps)
    finally:
        kd.KernelDG.INSTRUCTION_THRESHOLD = saved
    res, defects = project_lcds(dg.get_loopcarried_dependencies(), kernel)
    return {"result": res, "defects": defects, "timed_out": bool(dg.timed_out),
            "order": list(dg.get_loopcarried_dependencies().keys()),
            "rawlat": {k: repr(float(v["latency"])) for k, v in dg.get_loopcarried_dependencies().items()}}


def same_order(lcd_dict, seq_order):
    """the entries common to both dictionaries are listed in the same order (the report prints them in
    dictionary order)"""
    common = set(lcd_dict) & set(seq_order)
    return [k for k in lcd_dict if k in common] == [k for k in seq_order if k in common]


STATE_FIELDS = ("cpc", "wst", "wpos", "shared", "timedOut", "joined")


def _norm_state(st):
    return {"cpc": st["cpc"], "wst": {int(k): v for k, v in st["wst"].items()},
            "wpos": {int(k): v for k, v in st["wpos"].items()}, "shared": list(st["shared"]),
            "timedOut": bool(st["timedOut"]), "joined": sorted(st["joined"])}


def replay_one(path_states, row, kc, variant=0, case_id="r2"):
    """path_states: list of specification states (dicts) along one behaviour.  Returns a dict:
    divergence (or None), error (exception of the code under test or None), case (for
    Trace_LCDSearch), steps compared."""
    from harness import vproc

    text, kernel, seq = kc.get(row, variant)
    pos = positions(kernel)
    par = path_states[0]["par"]
    out = {"divergence": None, "error": None, "steps": 0, "text": text, "nw": par["nw"], "to": par["to"]}
    actions = []
    with vproc.Replay(kernel, kc.tools, par["nw"], par["to"]) as rp:
        try:
            for i in range(1, len(path_states)):
                a = infer_action(path_states[i - 1], path_states[i])
                actions.append(list(a))
                d = rp.act(a)
                if d is None:
                    obs = rp.state(pos)
                    exp = _norm_state(path_states[i])
                    bad = [f for f in STATE_FIELDS if obs[f] != exp[f]]
                    if bad:
                        d = "after %s: %s" % (list(a), "; ".join("%s expected %r observed %r" % (f, exp[f], obs[f]) for f in bad))
                if d is not None:
                    out["divergence"] = {"step": i, "action": list(a), "what": d}
                    break
                out["steps"] += 1
            if rp.c.state != "finished":
                if out["divergence"] is None:
                    out["divergence"] = {"step": len(path_states), "action": None, "what": "behaviour does not end in a terminal state"}
                rp.freerun()
        except vproc.SchedError as e:
            out["divergence"] = {"step": out["steps"] + 1, "action": actions[-1] if actions else None, "what": "scheduler: %s" % e}
        out["actions"] = actions
        err = rp.c.error
        if err is not None and not isinstance(err, vproc.SchedError):
            out["error"] = "%s: %s" % (type(err).__name__, err)
            return out
        if err is not None or rp.dg is None:
            out["divergence"] = out["divergence"] or {"step": 0, "action": None, "what": "scheduler: %s" % err}
            return out
        res, defects = project_lcds(rp.dg.get_loopcarried_dependencies(), kernel)
        lst = rp.f.lists[0] if rp.f.lists else None
        batches = [[b[0], b[1]] for b in (lst.batches if lst else []) if b[1] > 0]
        events = project_events(rp.s.raw, rp.TIMEOUT, pos, batches=batches, ordered=True)
        events.append({"e": "return", "result": res, "timed_out": bool(rp.dg.timed_out)})
        out["case"] = {
            "id": case_id, "kind": "src", "n": row["n"], "nw": par["nw"], "to": bool(par["to"]),
            "src": row["src"], "lat": row["lat"], "events": events,
            "obs": {"result": res, "seq": seq["result"], "timed_out": bool(rp.dg.timed_out),
                    "order": same_order(rp.dg.get_loopcarried_dependencies(), seq["order"]),
                    "killed": [p.w for p in rp.f.procs if p.killed], "orphans": len(rp.orphans()),
                    "dups": len(defects) + len(seq["defects"])},
        }
        out["final"] = {"result": res, "timed_out": bool(rp.dg.timed_out)}
    return out


# ------------------------------------------------------------------------------------------
# R3: real multi-process executions
# ------------------------------------------------------------------------------------------
class Delays:
    """seeded delays injected before a worker's appends (perturbs the completion order)"""

    def __init__(self, seed, p=0.3, dmax=0.03, fixed=None):
        self.seed, self.p, self.dmax, self.fixed = seed, p, dmax, fixed

    def __call__(self, w, i):
        if self.fixed is not None:
            return self.fixed
        r = random.Random(self.seed * 1000003 + w * 1009 + i)
        return r.uniform(0, self.dmax) if r.random() < self.p else 0.0


def run_real(kernel, tools, nw, timeout, delays=None, flag_deps=False, threshold=None, calibrate_first=False,
             tag="run"):
    """One real execution of KernelDG(...) with logging wrappers.  Returns a dict of observations
    (no verdicts here)."""
    import multiprocessing

    import osaca.semantics.kernel_dg as kd
    from osaca.semantics import ArchSemantics

    mm, sem, parser = tools
    me = os.getpid()
    multiprocessing.active_children()
    before = set(p[0] for p in children_of(me))
    calib = calibrate(min(nw, 64)) if calibrate_first else None
    os.makedirs(os.path.join(env.WORK, "scratch"), exist_ok=True)
    logpath = os.path.join(env.WORK, "scratch", "lcds-%s-%d-%d.log" % (tag, me, _time.monotonic_ns()))
    rec = RealRecorder(nw, logpath, delays)
    grabbed = {}
    orig_process = rec._Process

    def grabbing(target=None, args=(), **kw):
        if len(args) >= 4 and "dg" not in grabbed:
            grabbed["dg"], grabbed["offset"] = args[2], args[3]
        return orig_process(target=target, args=args, **kw)

    rec._Process = grabbing
    saved_thr = kd.KernelDG.INSTRUCTION_THRESHOLD
    if threshold is not None:
        kd.KernelDG.INSTRUCTION_THRESHOLD = threshold
    err = None
    dg = None
    t0 = _time.time()
    m0 = _time.monotonic_ns()
    try:
        with rec:
            dg = kd.KernelDG(kernel, parser, mm, sem, timeout, flag_deps)
    except Exception as e:  # an exception of the code under test is an observation
        err = "%s: %s" % (type(e).__name__, e)
    finally:
        kd.KernelDG.INSTRUCTION_THRESHOLD = saved_thr
    m1 = _time.monotonic_ns()
    wall = _time.time() - t0
    left = [c for c in children_of(me) if c[0] not in before]
    if any(c[1] != "Z" for c in left):
        # a process that was sent SIGKILL and joined is gone; anything else gets 0.3 s to disappear
        _time.sleep(0.3)
        left = [c for c in children_of(me) if c[0] not in before]
    zombies = [c for c in left if c[1] == "Z"]
    left = [c for c in left if c[1] != "Z"]
    for c in left:                                 # reported below; must not disturb the following runs
        try:
            os.kill(c[0], signal.SIGKILL)
        except OSError:
            pass
    active = [p.pid for p in multiprocessing.active_children() if p.pid not in before and p.pid not in [z[0] for z in zombies]]
    raw = rec.log.read()
    rec.log.close()
    obs = {"wall": wall, "error": err, "calib": calib, "nw": nw, "timeout": timeout, "n": len(kernel),
           "left": left, "active": active, "zombies": len(zombies), "raw": raw, "copied": rec.copied, "t0": m0, "t1": m1,
           "exitcodes": [p.p.exitcode for p in rec.procs], "parallel": bool(rec.procs),
           "dg2": grabbed.get("dg"), "offset": grabbed.get("offset")}
    if dg is not None:
        obs["timed_out"] = bool(dg.timed_out)
        obs["lcd"] = dg.get_loopcarried_dependencies()
        res, defects = project_lcds(obs["lcd"], kernel)
        obs["result"], obs["defects"] = res, defects
        try:
            cp = dg.get_critical_path()
            obs["cp"] = [x.line_number for x in cp]
            obs["cp_lat"] = units(sum(x.latency_cp for x in cp))
        except Exception as e:
            obs["cp_error"] = "%s: %s" % (type(e).__name__, e)
        tp = ArchSemantics.get_throughput_sum(kernel)
        obs["tp"] = [units(x) for x in tp] if tp else []
    return obs


def phases(obs):
    """seconds spent after the deadline in: poll (loop test late), kill (kill + join), copy,
    post (everything after the copy) -- from the raw log."""
    raw = obs["raw"]
    t = lambda k, last=False: ([e["t"] for e in raw if e["k"] == k] or [None])[-1 if last else 0]
    times = [e for e in raw if e["k"] == "time"]
    out = {"poll": 0.0, "kill": 0.0, "copy": 0.0, "post": 0.0}
    if obs["timeout"] < 0 or len(times) < 2:
        return out
    start_m = times[0]["t"]
    deadline = start_m + int(obs["timeout"] * 1e9)
    exp = [e for e in times[1:] if not (e["v"] - times[0]["v"] <= obs["timeout"])]
    cb, ce = t("copy_begin"), t("copy_end")
    if exp:
        out["poll"] = max(0.0, (exp[0]["t"] - deadline) / 1e9)
        if cb:
            out["kill"] = (cb - exp[0]["t"]) / 1e9
    if cb and ce:
        out["copy"] = (ce - cb) / 1e9
    if ce:
        out["post"] = (obs["t1"] - ce) / 1e9
    return out


class CycleIds:
    """(member positions, edge latencies) -> opaque id shared by a reference run and test runs"""

    def __init__(self):
        self.ids = {}

    def of(self, key, elat):
        k = (tuple(key), tuple(elat))
        if k not in self.ids:
            self.ids[k] = len(self.ids) + 1
        return self.ids[k]


def reference_table(obs, kernel, ids):
    """per-root cycle ids / path counts from the copied list of an untimed reference run"""
    pos = positions(kernel)
    n = len(kernel)
    cyc = [[] for _ in range(n)]
    np_ = [0] * n
    for p in obs["copied"]:
        r = pos[p[0]]
        key, elat = path_cycle(p, obs["dg2"], obs["offset"], pos)
        cyc[r - 1].append(ids.of(key, elat))
        np_[r - 1] += 1
    return {"cyc": [sorted(set(c)) for c in cyc], "np": np_,
            "distinct_per_root": all(len(set(c)) == len(c) for c in cyc)}


def result_ids(res, ids):
    return [ids.of(x["key"], x["elat"]) for x in res]


def _killed_workers(obs):
    """Workers the coordinator cut off: those that died from a signal, and those it killed right after it had seen
    them alive (a worker that is about to exit on its own may then still leave with exit code 0: the coordinator has
    ended the search all the same, which is what the warning reports)."""
    killed = set(w for w, x in enumerate(obs["exitcodes"]) if x is not None and x < 0)
    last_alive = {}
    for e in obs["raw"]:
        if e["k"] == "alive":
            last_alive[e["w"]] = bool(e["v"])
        elif e["k"] == "kill" and e.get("w", -1) >= 0 and last_alive.get(e["w"]):
            killed.add(e["w"])
    return sorted(killed)


def real_case(cid, obs, kernel, table, ids, seq=None, kind="cyc", edges=None, sample=None):
    """observation of run_real -> case for Trace_LCDSearch"""
    pos = positions(kernel)
    batches = batches_of(obs["copied"] or [])
    events = project_events(obs["raw"], obs["timeout"], pos, batches=batches, ordered=False)
    res = obs["result"]
    if kind == "edges":
        if sample is not None:
            res = sample
        robs = [{"key": x["key"], "elat": x["elat"], "lat": x["lat"]} for x in res]
    else:
        robs = result_ids(res, ids)
    events.append({"e": "return", "result": robs, "timed_out": obs["timed_out"]})
    c = {"id": cid, "kind": kind, "n": obs["n"], "nw": obs["nw"], "to": obs["timeout"] != -1, "events": events,
         "obs": {"result": robs, "timed_out": obs["timed_out"],
                 "order": True if seq is None else same_order(obs["lcd"], seq["order"]),
                 "killed": _killed_workers(obs),
                 "orphans": len(obs["left"]) + len([a for a in obs["active"] if a not in [l[0] for l in obs["left"]]]),
                 "dups": len(obs["defects"])}}
    # whether the time limit had passed when the first worker was killed, by the harness's own clock (the
    # code's clock reads are visible only while it reads the clock through kernel_dg.time)
    starts = [e["t"] for e in obs["raw"] if e["k"] == "pstart"]
    kills = [e["t"] for e in obs["raw"] if e["k"] == "kill"]
    if obs["timeout"] != -1 and starts:
        c["obs"]["deadlinePassed"] = bool(((min(kills) if kills else obs["t1"]) - min(starts)) / 1e9 >= obs["timeout"] - 0.02)
    if kind == "cyc":
        c["cyc"], c["np"] = table["cyc"], table["np"]
        if seq is not None:
            c["obs"]["seq"] = result_ids(seq["result"], ids)
    else:
        c["E"], c["X"] = edges
    return c


def graph_edges(dg, dg2, offset, kernel):
    """edges of one iteration and wrap-around edges of the two-iteration graph, as
    [[from position, to position, latency units]] (integer nodes only: load stages are never on a cycle)"""
    pos = positions(kernel)
    E, X = [], []
    for s, d in dg2.edges:
        if s != int(s) or d != int(d):
            continue
        lat = units(dg2.edges[s, d]["latency"])
        if s < offset and d < offset:
            E.append([pos[s], pos[d], lat])
        elif s < offset <= d:
            X.append([pos[s], pos[d - offset], lat])
    return sorted(E), sorted(X)


def braid_text(n, choices, rnd=None, period=4, pads=()):
    """dense generated kernel: line i writes register R[i % period] and reads the result of line
    i-1; at the `choices` lines spread over the kernel it also reads the result of line i-2, which
    doubles the number of dependency paths: about n * 2^choices paths in total."""
    regs = REGS[:period]
    step = max(1, n // max(1, choices))
    cps = set(range(step // 2 + 2, n, step)) if choices else set()
    cps = set(sorted(cps)[:choices])
    out = []
    for i in range(n):
        if i in pads:
            out.append("# pad %d" % i)
            continue
        lat = LATS[i % 3] if rnd is None else rnd.choice(LATS)
        src = ["%" + regs[(i - 1) % period]]
        if i in cps:
            src.append("%" + regs[(i - 2) % period])
        out.append("s%dl%d %s, %%%s" % (len(src), lat, ", ".join(src), regs[i % period]))
    return "\n".join(out) + "\n"


# ------------------------------------------------------------------------------------------
# shared check machinery
# ------------------------------------------------------------------------------------------
C19_ONLY = {"A:warning-without-cut", "A:cut-without-warning", "A:warning-without-timeout",
            "A:killed-without-timeout", "A:worker-left-behind", "A:cut-before-deadline"}


def parse_error_trace(raw):
    """states of a TLC counterexample (text output) -> [state dict]"""
    import re

    out = []
    for m in re.finditer(r"State \d+: <[^\n]*>\n((?:/\\ [^\n]*\n(?:  [^\n]*\n)*)+)", raw):
        out.append(parse_state_text(m.group(1).rstrip("\n")))
    return out


_JOB = {}


def _replay_chunk(idx):
    states, rows, paths, tools = _JOB["states"], _JOB["rows"], _JOB["paths"], _JOB["tools"]
    kc = _JOB.setdefault("kc", KernelCache(tools))
    out = []
    for i in idx:
        ps = [x if isinstance(x, dict) else states[x] for x in paths[i]]
        kid = ps[0]["par"]["kid"]
        r = replay_one(ps, rows[(kid[0], kid[1])], kc, variant=i % 6, case_id="%s-%d" % (_JOB["tag"], i))
        r["i"] = i
        r["kid"] = "%s%d" % (kid[0], kid[1])
        out.append(r)
    return out


def replay_graph(run, cfg, seed, tag, limit=None, procs=8, timeout=600):
    """R2: TLC run with -dump, transition cover, replay of every path on the real code under the
    virtual scheduler (fork pool).  Returns (results, stats)."""
    import multiprocessing
    import shutil

    from harness import tlc

    d = os.path.join(env.WORK, "scratch", "lcds-%s-%d" % (tag, os.getpid()))
    os.makedirs(d, exist_ok=True)
    try:
        out = os.path.join(d, "table.ndjson")
        r = tlc.run_tlc("MC_LCDSearch", cfg, env={"OUTFILE": out}, workers=8, timeout=timeout,
                        dump=os.path.join(d, "graph"), coverage=True)
        run.add_mc(r, cfg + " (graph dumped for replay)")
        # self-test of the model: no action of the state machine is vacuous in this run
        need = ["StartAll", "Workers", "Check", "Sleep", "JoinAll", "Copy", "PostProcess"] + (
            ["Deadline", "Kill"] if "c19" in cfg else [])
        dead = [a for a in need if r.coverage.get(a, (0, 0))[1] == 0]
        if dead:
            raise tlc.TLCError("actions never taken in %s: %s (coverage %r)" % (cfg, dead, r.coverage))
        rows = {(x["fam"], x["n"]): x for x in tlc.read_emitted(out)}
        states, edges, inits = load_dot(os.path.join(d, "graph.dot"))
    finally:
        shutil.rmtree(d, ignore_errors=True)
    rnd = random.Random(seed)
    paths, total = transition_cover(states, edges, inits, rnd, limit)
    tools = synthetic_env()
    _JOB.clear()
    _JOB.update(states=states, rows=rows, paths=paths, tools=tools, tag=tag)
    idx = list(range(len(paths)))
    chunks = [idx[i::procs * 4] for i in range(procs * 4)]
    chunks = [c for c in chunks if c]
    t0 = _time.time()
    if procs > 1 and len(paths) > 50:
        with multiprocessing.get_context("fork").Pool(procs) as pool:
            res = [x for part in pool.map(_replay_chunk, chunks) for x in part]
    else:
        res = [x for c in chunks for x in _replay_chunk(c)]
    res.sort(key=lambda x: x["i"])
    stats = {"states": len(states), "edges": len(edges), "initial_states": len(inits), "cover_paths": total,
             "replayed": len(paths), "sampled": total != len(paths), "replay_wall_s": round(_time.time() - t0, 2),
             "steps_compared": sum(x["steps"] for x in res)}
    return res, stats, (states, paths)


def replay_simulated(run, cfg, seed, tag, num=200, depth=120, procs=8, timeout=600):
    """R2 for larger constants: random behaviours generated by TLC (-simulate), replayed like the
    paths of the transition cover.  Only behaviours that reach a terminal state are used."""
    import glob
    import re
    import shutil

    from harness import tlc

    d = os.path.join(env.WORK, "scratch", "lcds-%s-%d" % (tag, os.getpid()))
    os.makedirs(d, exist_ok=True)
    behaviours = []
    try:
        out = os.path.join(d, "table.ndjson")
        r = tlc.run_tlc("MC_LCDSearch", cfg, env={"OUTFILE": out}, workers=4, timeout=timeout,
                        simulate="file=%s,num=%d" % (os.path.join(d, "sim"), num), depth=depth, seed=seed)
        r.distinct = r.distinct or 0
        m = re.search(r"(\d+) states checked, (\d+) traces generated", r.raw)
        sim_states = int(m.group(1)) if m else 0
        rows = {(x["fam"], x["n"]): x for x in tlc.read_emitted(out)}
        for f in sorted(glob.glob(os.path.join(d, "sim_*"))):
            with open(f) as fh:
                txt = fh.read()
            sts = []
            for block in re.split(r"STATE_\d+ ==\s*\n", txt)[1:]:
                body = block.split("\n\n")[0]
                st = parse_state_text(body.strip("\n"))
                if not sts or st != sts[-1]:
                    sts.append(st)
            if sts and sts[-1]["cpc"] == "done":
                behaviours.append(sts)
    finally:
        shutil.rmtree(d, ignore_errors=True)
    tools = synthetic_env()
    _JOB.clear()
    _JOB.update(states={}, rows=rows, paths=behaviours, tools=tools, tag=tag)
    idx = list(range(len(behaviours)))
    chunks = [c for c in (idx[i::procs * 2] for i in range(procs * 2)) if c]
    t0 = _time.time()
    with multiprocessing_pool(procs) as pool:
        res = [x for part in pool.map(_replay_chunk, chunks) for x in part]
    res.sort(key=lambda x: x["i"])
    stats = {"cfg": cfg, "simulated_states": sim_states, "behaviours_to_terminal_state": len(behaviours),
             "replay_wall_s": round(_time.time() - t0, 2), "steps_compared": sum(x["steps"] for x in res)}
    return res, stats


def multiprocessing_pool(procs):
    import multiprocessing

    return multiprocessing.get_context("fork").Pool(procs)


def validate_cases(run, pid, cases, meta, trace_cfg, source, timeout=900):
    """Trace_LCDSearch over the cases; A-rejections -> run.fail, B-rejections -> run.divergence.
    meta: case id -> dict (kernel class, rendered text, ...) stored in replay files."""
    from harness import tlc

    if not cases:
        return []
    rejects, r = tlc.batch_validate("Trace_LCDSearch", trace_cfg, cases, timeout=timeout, tag="lcds-%s" % pid.lower())
    run.add_mc(r, "%s (%s, %d cases)" % (trace_cfg, source, len(cases)))
    if not any("CONSUMED" in p and str(len(cases)) in p for p in r.printed):
        raise tlc.TLCError("Trace_LCDSearch did not consume all %d cases" % len(cases))
    run.add_traces(len(cases))
    byid = {c["id"]: c for c in cases}
    other = []
    not_a_behaviour = set(cid for cid, clause, rest in rejects if clause.startswith("B:"))
    for cid, clause, rest in rejects:
        c = byid[cid]
        m = meta.get(cid, {})
        if clause.startswith("A:"):
            if pid == "C16" and clause in C19_ONLY:
                other.append((cid, clause))
                continue
            sig = "%s:%s:%s:%s" % (pid, clause[2:], source, m.get("class", "?"))
            if clause == "A:warning-without-cut":
                # a known finding only if the recorded execution is exactly a behaviour of the state
                # machine with the named deviation switched on (DESIGN 3.5)
                why = "DeadlineTestFirst" if (trace_cfg == "Trace_LCDSearch" and cid not in not_a_behaviour) else "unexplained"
                sig = "%s:%s:%s:%s:%s" % (pid, clause[2:], why, source, m.get("class", "?"))
            what = "%s on %s (nw=%d, timeout %s): timed_out=%s killed=%s result %d LCDs" % (
                clause[2:], m.get("class", cid), c["nw"], "finite" if c["to"] else "-1", c["obs"]["timed_out"],
                c["obs"]["killed"], len(c["obs"]["result"]))
            small = dict(c)
            if len(json.dumps(c)) > 200000:
                small = {k: v for k, v in c.items() if k not in ("cyc", "events", "E", "X")}
            run.fail(sig, what, {"case": small, "meta": m, "source": source, "trace_cfg": trace_cfg})
        elif clause.startswith("X:"):
            other.append((cid, clause))
        else:
            run.divergence(clause, {"id": cid, "detail": rest, "class": m.get("class")})
    return other


# ------------------------------------------------------------------------------------------
# R3 jobs (run inside fork-pool workers; return only small JSON-able data)
# ------------------------------------------------------------------------------------------
_TOOLS = {}


def tools_for(arch):
    if arch == "syn":
        return synthetic_env()
    if arch == "synnd":
        return synthetic_env(nd=True)
    if arch not in _TOOLS:
        _TOOLS[arch] = synth.load_arch(arch)
    return _TOOLS[arch]


def load_kernel(spec):
    """spec: {"name", "arch", "text"} or {"name", "arch", "file", "pad_to"}: shipped kernel file reduced
    to its marked section, padded with comment lines up to pad_to lines."""
    tools = tools_for(spec["arch"])
    mm, sem, parser = tools
    if "text" in spec:
        text = spec["text"]
        kernel = parser.parse_file(text)
    else:
        from osaca.semantics.marker_utils import reduce_to_section

        with open(spec["file"]) as f:
            text = f.read()
        cm = "#" if mm.get_ISA() == "x86" else "//"
        kernel = reduce_to_section(parser.parse_file(text), mm.get_ISA())
        n0 = len(kernel)
        if spec.get("pad_to") and n0 < spec["pad_to"]:
            body = "\n".join(k.line for k in kernel)
            text = body + "\n" + "\n".join("%s pad %d" % (cm, i) for i in range(spec["pad_to"] - n0)) + "\n"
            kernel = parser.parse_file(text)
    sem.add_semantics(kernel)
    return text, kernel, tools


def wall_limit(timeout, calib):
    return timeout + 2.0 + 3.0 * calib


def timed_run(kernel, tools, nw, timeout, delays, tag, threshold=None):
    """run_real with the wall-time rule of C19: a run that exceeds timeout + B is repeated at once;
    only a repeated excess is reported.  Returns (obs, wall_report or None)."""
    o = run_real(kernel, tools, nw, timeout, delays=delays, calibrate_first=True, tag=tag, threshold=threshold)
    rep = None
    if timeout >= 0 and o["wall"] > wall_limit(timeout, o["calib"]):
        o2 = run_real(kernel, tools, nw, timeout, delays=delays, calibrate_first=True, tag=tag + "r", threshold=threshold)
        if o2["wall"] > wall_limit(timeout, o2["calib"]):
            ph = phases(o2) if o2["parallel"] else {}
            dom = max(ph, key=lambda k: ph[k]) if ph and max(ph.values()) > 0 else "sequential-path"
            rep = {"phase": dom, "walls": [round(o["wall"], 2), round(o2["wall"], 2)],
                   "limits": [round(wall_limit(timeout, o["calib"]), 2), round(wall_limit(timeout, o2["calib"]), 2)],
                   "phases": {k: round(v, 2) for k, v in ph.items()}, "timeout": timeout, "nw": nw,
                   "paths_copied": len(o2["copied"] or []), "lcds": len(o2.get("result", []))}
    return o, rep


def strip_timestamp(report):
    return "\n".join(l for l in report.splitlines() if not l.startswith("Timestamp:"))


HOOK = r"""
import sys, json
import osaca.osaca as oo
import osaca.semantics.kernel_dg as kd
nw = int(sys.argv.pop(1))
if nw > 0:
    kd.cpu_count = lambda: nw
made = []
procs = []
class K(oo.KernelDG):
    def __init__(s, *a, **k):
        super().__init__(*a, **k)
        made.append(s)
oo.KernelDG = K
RealP = kd.Process
def P(*a, **k):
    p = RealP(*a, **k)
    procs.append(p)
    return p
kd.Process = P
sys.argv = ['osaca'] + sys.argv[1:]
try:
    oo.main()
finally:
    sys.stderr.write("@@LCDS " + json.dumps({"timed_out": [bool(x.timed_out) for x in made],
        "exitcodes": [p.exitcode for p in procs], "n": [len(x.kernel) for x in made]}) + "\n")
"""


def run_cli_hooked(argv, nw=0, timeout=150):
    """osaca CLI in a fresh interpreter; cpu_count patched to nw (0 = unchanged); the KernelDG
    instances made by `inspect` are observed from outside.  -> (rc, stdout, stderr, hook dict)"""
    import subprocess

    p = subprocess.Popen([env.PY, "-B", "-c", HOOK, str(nw)] + list(argv), env=env.child_env(), cwd="/",
                         stdout=subprocess.PIPE, stderr=subprocess.PIPE, start_new_session=True)
    try:
        so, se = p.communicate(timeout=timeout)
    except subprocess.TimeoutExpired:
        try:
            os.killpg(p.pid, signal.SIGKILL)      # the CLI and every process it started
        except OSError:
            pass
        so, se = p.communicate()
        return -999, so.decode("utf-8", "replace"), "no return within %s s (killed)" % timeout, None
    left = group_members(p.pid)
    if left:
        _time.sleep(0.3)
        left = group_members(p.pid)
    try:
        os.killpg(p.pid, signal.SIGKILL)          # whatever the CLI left behind
    except OSError:
        pass
    p.stdout_text = so
    err = se.decode("utf-8", "replace")
    hook = None
    for line in err.splitlines():
        if line.startswith("@@LCDS "):
            hook = json.loads(line[7:])
    if hook is not None:
        hook["left"] = left
    return p.returncode, so.decode("utf-8", "replace"), err, hook


def group_members(pgid):
    """live (non-zombie) processes of process group pgid"""
    out = []
    for d in os.listdir("/proc"):
        if not d.isdigit():
            continue
        try:
            with open("/proc/%s/stat" % d) as f:
                s = f.read()
        except OSError:
            continue
        r = s.rfind(")")
        f = s[r + 2:].split()
        if int(f[2]) == pgid and f[0] != "Z":
            out.append((int(d), f[0]))
    return out


LCD_WARNING = "WARNING: LCD analysis timed out"


def padded_file(src, dst, comment, total):
    """copy of a shipped kernel file with comment lines inserted at the end of the marked section
    (before the OSACA-END comment / the `mov ..., 222` byte marker) so that the kernel has `total` lines"""
    import re

    with open(src) as f:
        lines = f.read().rstrip("\n").split("\n")
    is_end = lambda l: "OSACA-END" in l or re.search(r"mov\w*\s.*[#$]222\b", l)
    is_begin = lambda l: "OSACA-BEGIN" in l or re.search(r"mov\w*\s.*[#$]111\b", l)
    end = [i for i, l in enumerate(lines) if is_end(l)]
    begin = [i for i, l in enumerate(lines) if is_begin(l)]
    at = end[0] if end else len(lines)
    first = 0
    if begin:
        first = begin[0] + 1
        if first < len(lines) and ".byte" in lines[first]:
            first += 1
    n0 = len([l for l in lines[first:at] if l.strip()])
    pads = ["%s pad %d" % (comment, i) for i in range(max(0, total - n0))]
    with open(dst, "w") as f:
        f.write("\n".join(lines[:at] + pads + lines[at:]) + "\n")
    return dst


def _guarded(fn, item, conn):
    os.setsid()          # own process group: a hung job is killed together with everything it started
    try:
        conn.send(fn(item))
    except BaseException as e:  # noqa
        import traceback

        conn.send({"name": item.get("name", "?") if isinstance(item, dict) else "?", "cases": [], "meta": {},
                   "fails": [], "walls": [], "notes": {},
                   "machinery": "%s: %s\n%s" % (type(e).__name__, e, traceback.format_exc())})
    finally:
        conn.close()
        try:
            os.killpg(os.getpgid(0), signal.SIGKILL)   # nothing the job started may outlive it (orphaned workers)
        except OSError:
            pass


_GAP = re.compile(r"(AttributeError|TypeError|NotImplementedError): .*('Fake\w*'|'_VClock'|'_SlowNx'|'_SlowList'|'_LoggedList'|"
                  r"'types\.SimpleNamespace'|'SimpleNamespace'|module 'osaca\.semantics\.kernel_dg' has no attribute)")


def standin_gap(text):
    """True iff an exception text says that the code under test used an interface that one of the harness's stand-ins
    (virtual processes, virtual clock, slowed path enumeration) does not provide, or that kernel_dg no longer has the
    collaborator a scenario replaces: the scenario cannot observe this code - a conformance divergence, never a verdict."""
    return bool(_GAP.search(str(text or "")))


def fail_or_gap(run, sig, what, case, scenario):
    if "exception" in sig and standin_gap(what):
        run.divergence("stand-in", {"scenario": scenario, "signature": sig, "what": str(what)[:300]})
        return False
    run.fail(sig, what, case)
    return True


def pool_map(fn, items, procs, deadline=240.0):
    """Run fn(item) for every item in forked, NON-daemonic processes (they start processes themselves),
    at most `procs` at a time, each in its own process group with a deadline: a job that does not
    return (e.g. the code under test waits forever for a worker) is killed with its whole group and
    yields {"hang": True, "item": item}."""
    import multiprocessing

    ctx = multiprocessing.get_context("fork")
    pending = list(enumerate(items))
    running = {}
    results = [None] * len(items)
    while pending or running:
        while pending and len(running) < procs:
            i, it = pending.pop(0)
            rx, tx = ctx.Pipe(duplex=False)
            p = ctx.Process(target=_guarded, args=(fn, it, tx))
            p.start()
            tx.close()
            running[i] = (p, rx, _time.time(), it)
        for i in list(running):
            p, rx, t0, it = running[i]
            if rx.poll(0.05):
                try:
                    results[i] = rx.recv()
                except EOFError:
                    results[i] = {"hang": True, "item": it, "died": True, "name": it.get("name", "?")}
                p.join(10)
                del running[i]
            elif not p.is_alive() and not rx.poll(0.2):
                results[i] = {"hang": True, "item": it, "died": True, "name": it.get("name", "?")}
                del running[i]
            elif _time.time() - t0 > deadline:
                try:
                    os.killpg(p.pid, signal.SIGKILL)
                except OSError:
                    pass
                p.join(10)
                results[i] = {"hang": True, "item": it, "after_s": round(_time.time() - t0, 1), "name": it.get("name", "?")}
                del running[i]
    return results


# ------------------------------------------------------------------------------------------
# ./check Cxx --replay FILE
# ------------------------------------------------------------------------------------------
def replay_file(path, pid):
    """Re-executes the recorded case on the CURRENT tree: virtual-process cases are re-driven action
    by action (deterministic); real cases are run again with the same kernel / worker count /
    timeout; other records (wall time, CLI) are printed.  Exit code 1 iff the violation shows again."""
    from harness import tlc, vproc

    with open(path) as f:
        rec = json.load(f)
    print("replaying %s" % rec["signature"])
    print("  %s" % rec["what"])
    body = rec.get("case") or {}
    case, meta, source = body.get("case"), body.get("meta") or {}, body.get("source")
    trace_cfg = body.get("trace_cfg", "Trace_LCDSearch")
    if not case or "text" not in meta:
        print(json.dumps(body, indent=1, default=str)[:6000])
        return 0
    tools = tools_for(meta.get("arch", "syn"))
    mm, sem, parser = tools
    kernel = parser.parse_file(meta["text"])
    sem.add_semantics(kernel)
    pos = positions(kernel)
    if source == "vproc":
        seq = sequential_result(kernel, tools)
        with vproc.Replay(kernel, tools, case["nw"], case["to"]) as rp:
            for a in meta["actions"]:
                d = rp.act(tuple(a))
                print("  %-14s -> %s%s" % (a, rp.state(pos), "   DIVERGENCE: " + d if d else ""))
                if d:
                    break
            if rp.c.state != "finished":
                rp.freerun()
            if rp.c.error is not None:
                print("  exception:", repr(rp.c.error))
                return 1
            res, defects = project_lcds(rp.dg.get_loopcarried_dependencies(), kernel)
            lst = rp.f.lists[0]
            events = project_events(rp.s.raw, rp.TIMEOUT, pos, batches=[[b[0], b[1]] for b in lst.batches if b[1] > 0], ordered=True)
            events.append({"e": "return", "result": res, "timed_out": bool(rp.dg.timed_out)})
            new = dict(case)
            new["events"] = events
            new["obs"] = {"result": res, "seq": seq["result"], "timed_out": bool(rp.dg.timed_out),
                          "order": same_order(rp.dg.get_loopcarried_dependencies(), seq["order"]),
                          "killed": [p.w for p in rp.f.procs if p.killed], "orphans": len(rp.orphans()),
                          "dups": len(defects) + len(seq["defects"])}
    else:
        ids = CycleIds()
        seq = sequential_result(kernel, tools)
        ref = run_real(kernel, tools, 4, -1, tag="replay-ref")
        table = reference_table(ref, kernel, ids)
        o = run_real(kernel, tools, case["nw"], meta.get("timeout", -1), delays=Delays(rec.get("seed", 0), p=0.35, dmax=0.02), tag="replay")
        if o["error"]:
            print("  exception:", o["error"])
            return 1
        new = real_case(case["id"], o, kernel, table, ids, seq)
        print("  wall %.2fs timed_out=%s exit codes %s left %s" % (o["wall"], o["timed_out"], o["exitcodes"], o["left"]))
    print("  observed: timed_out=%s killed=%s %d LCDs" % (new["obs"]["timed_out"], new["obs"]["killed"], len(new["obs"]["result"])))
    rejects, r = tlc.batch_validate("Trace_LCDSearch", trace_cfg, [new], tag="lcds-replay")
    for x in rejects:
        print("  REJECT", x[1], x[2])
    cleanup_synthetic()
    mine = [x for x in rejects if x[1].startswith("A:") and not (pid == "C16" and x[1] in C19_ONLY)]
    if mine:
        print("VIOLATION property=%s replay=%s" % (pid, path))
        return 1
    print("not reproduced on the current tree")
    return 0
